"""C15 helpers: scenario generator (class table, types, values), materialisation as Python
source and as Coq terms, execution of the real entry points, canonicalisation.

Type AST  : ('int',) ('str',) ('date',) ('list',t) ('dict',t) ('tuple',[t..]) ('opt',t) ('union',[t..]) ('data',name)
Value AST : ('none',) ('int',z) ('str',s) ('date',iso) ('list',[v..]) ('tuple',[v..]) ('dict',[(k,v)..]) ('obj',cls,[(k,v)..])
Result    : ('ok', value) | ('err', kind[, field, holder])   kind in raw/unionI/unionV/invalid/missing/other:<cls>
"""
from __future__ import annotations

import dataclasses
import datetime
import sys
import types as _types

from harness.vlib import coq_str, coq_z

FIELD_POOL = ["x", "y", "z", "u", "w", "p", "q"]


# ---------------------------------------------------------------------------
# scenario
# ---------------------------------------------------------------------------

class Cls:
    def __init__(self, name, parent, mixin_here, own_fields, own_config, by_alias_own, extra=None, defaults=None):
        self.name = name
        self.parent = parent            # Cls | None
        self.mixin_here = mixin_here    # lists DataClassDictMixin itself
        self.own_fields = own_fields    # [(name, alias|None, ty)]
        self.own_config = own_config    # defines its own Config class
        self.by_alias_own = by_alias_own  # None/True/False inside own Config
        self.extra = dict(extra or {})    # further Config attributes of the own Config: name -> python source
        self.defaults = dict(defaults or {})  # own field name -> default value AST (wide scenarios)
        self.home = None                # None: the main module; "A"/"B": a library module of its own
        self.pyname = name              # python __name__ (library classes may share it across modules)

    @property
    def mixin(self):
        return self.mixin_here or (self.parent is not None and self.parent.mixin)

    @property
    def fields(self):
        return (self.parent.fields if self.parent else []) + self.own_fields

    @property
    def by_alias(self):
        """effective Config.serialize_by_alias: the nearest Config in the MRO (getattr(cls, 'Config'))"""
        if self.own_config:
            return self.by_alias_own
        return self.parent.by_alias if self.parent else None

    @property
    def all_defaults(self):
        d = dict(self.parent.all_defaults) if self.parent else {}
        d.update(self.defaults)
        return d

    @property
    def omit_none(self):
        """effective Config.omit_none (nearest Config in the MRO), None = not set"""
        if self.own_config:
            v = self.extra.get("omit_none")
            return None if v is None else (v == "True")
        return self.parent.omit_none if self.parent else None

    @property
    def omit_default(self):
        if self.own_config:
            v = self.extra.get("omit_default")
            return None if v is None else (v == "True")
        return self.parent.omit_default if self.parent else None

    def cfg_flag(self, name) -> bool:
        """effective boolean Config option (nearest Config in the MRO; BaseConfig default False)"""
        if self.own_config:
            return self.extra.get(name) == "True"
        return self.parent.cfg_flag(name) if self.parent else False

    def ancestors(self):
        c = self.parent
        while c is not None:
            yield c
            c = c.parent

    def is_strict_sub_of(self, other_name):
        return any(a.name == other_name for a in self.ancestors())


class Scenario:
    def __init__(self, sid):
        self.sid = sid
        self.classes: list[Cls] = []
        self.roots: list = []           # root types; wrapper W<i> has the field f: roots[i]
        self.dialect = None             # None | True | False | "unset" | "strategy" (what the dialect Dl sets)
        self.dialect_omit = None        # omit_none of the dialect Dl (None = not set)
        self.dialect_omit_default = None  # omit_default of the dialect Dl (None = not set)
        self.kw_only = False            # @dataclass(kw_only=True): fields with defaults anywhere
        self.lazy = False               # classes use Config.lazy_compilation (values stay exact-class)
        self.wide = False               # Config options outside the Coq model (oracles only, no correspondence)
        self.module = None
        self.extra_src = ""
        self.flags = []                 # code_generation_options shared by every class (wide scenarios)
        self.twins = []                 # (class, look-alike class) pairs
        self.multi = False              # classes spread over several modules, equal __qualname__ in different modules
        self.pep563 = False             # modules start with `from __future__ import annotations` (string annotations)
        self.mixin_override = None      # (module, class): every "DataClassDictMixin" of the sources is this format mixin

    def cls(self, name) -> Cls:
        for c in self.classes:
            if c.name == name:
                return c
        raise KeyError(name)

    def subclasses_of(self, name):
        return [c for c in self.classes if c.is_strict_sub_of(name)]


def data_names(t, acc=None):
    acc = [] if acc is None else acc
    k = t[0]
    if k == "data":
        acc.append(t[1])
    elif k in ("list", "dict", "opt"):
        data_names(t[1], acc)
    elif k in ("tuple", "union"):
        for x in t[1]:
            data_names(x, acc)
    return acc


def predicted_has_method(sc: Scenario) -> dict:
    """own __mashumaro_to_dict__ in the class __dict__ once the module is executed: mixin classes,
    and every dataclass reachable through field annotations from a class compiled by a nailed
    builder (mixin classes, the wrappers W<i>, and transitively the plain classes they reach)."""
    has = {c.name: False for c in sc.classes}
    work = []
    for c in sc.classes:
        if c.mixin:
            has[c.name] = True
            work.append(c.name)
    for r in sc.roots:
        for n in data_names(r):
            if not has[n]:
                has[n] = True
                work.append(n)
    while work:
        n = work.pop()
        for (_, _, t) in sc.cls(n).fields:
            for k in data_names(t):
                if not has[k]:
                    has[k] = True
                    work.append(k)
    if sc.dialect is not None:
        # calls carry `dialect=`: the inherited dialect-aware method looks the packer up in
        # self.__class__'s cache and compiles it for the RUNTIME class on a miss, so a subclass of a
        # compiled class behaves as if it owned the method (classes are listed parents first)
        for c in sc.classes:
            if c.parent is not None and has[c.parent.name]:
                has[c.name] = True
    return has


# ---------------------------------------------------------------------------
# generators
# ---------------------------------------------------------------------------

def gen_ty(rng, names, depth, allow_union=True, allow_opt=True):
    leafs = [("int",), ("str",), ("date",)]
    choices = ["leaf"] * 3
    if names:
        choices += ["data"] * 4
    if depth > 0:
        choices += ["list", "dict", "tuple"]
        if allow_opt:
            choices += ["opt"] * 2
        if allow_union:
            choices += ["union"] * 2
    k = rng.choice(choices)
    if k == "leaf":
        return rng.choice(leafs)
    if k == "data":
        return ("data", rng.choice(names))
    if k == "list":
        return ("list", gen_ty(rng, names, depth - 1))
    if k == "dict":
        return ("dict", gen_ty(rng, names, depth - 1))
    if k == "tuple":
        return ("tuple", [gen_ty(rng, names, depth - 1) for _ in range(rng.randint(1, 3))])
    if k == "opt":
        # Optional[Union[..]] / Optional[Optional[..]] are flattened by typing: outside the grammar
        return ("opt", gen_ty(rng, names, depth - 1, allow_union=False, allow_opt=False))
    # union: >= 2 distinct members, no Optional / nested union members
    ms = []
    simple = rng.random() < 0.75
    for _ in range(rng.randint(2, 4)):
        if simple:
            cand = rng.choice(leafs + [("data", n) for n in names] * 2) if names else rng.choice(leafs)
        else:
            cand = gen_ty(rng, names, depth - 1, allow_union=False, allow_opt=False)
        if cand not in ms:
            ms.append(cand)
    if len(ms) < 2:
        ms = [("int",), ("date",)]
    return ("union", ms)


WIDE_OPTS = ["omit_none", "omit_default", "sort_keys", "forbid_extra_keys", "allow_deserialization_not_by_alias"]
# TO_DICT_ADD_OMIT_NONE_FLAG / TO_DICT_ADD_BY_ALIAS_FLAG are left out: an outer class forwards ITS keyword default to
# nested classes, overriding their Config (known findings of C08/C13: call-dialect-vs-flag-defaults, union-member-flags)
WIDE_FLAGS = ["ADD_SERIALIZATION_CONTEXT"]


def gen_scenario(rng, sid, dialect_p=0.3, wide=False) -> Scenario:
    sc = Scenario(sid)
    sc.wide = wide
    if rng.random() < dialect_p:
        sc.dialect = rng.choice([True, False, "unset"]) if not wide else rng.choice(["unset", "strategy"])
        if not wide:
            sc.dialect_omit = rng.choice([None, None, True, False])
            sc.dialect_omit_default = rng.choice([None, None, True, False])
    sc.lazy = rng.random() < (0.5 if wide else 0.3)
    sc.flags = [f for f in WIDE_FLAGS if rng.random() < 0.3] if wide else []
    sc.kw_only = wide or rng.random() < 0.5
    sc.multi = rng.random() < 0.4
    sc.pep563 = rng.random() < 0.3
    n = rng.randint(2, 6)
    for i in range(n):
        name = f"K{i}"
        # class identity vs class name: library modules A and B may both define a class of the same __qualname__
        home = rng.choice([None, None, "A", "B", "B"]) if sc.multi else None
        visible = [c for c in sc.classes if home is None or c.home == home]   # a library only sees itself
        parent = rng.choice(visible) if visible and rng.random() < 0.4 else None
        inherited = {f[0] for f in parent.fields} if parent else set()
        pool = [f for f in FIELD_POOL if f not in inherited]
        k = rng.randint(0 if parent else 1, 3)
        k = min(k, len(pool))
        # a small pool makes look-alike classes (same field names) frequent
        fnames = rng.sample(pool[:4], min(k, 4)) if rng.random() < 0.6 else rng.sample(pool, k)
        own = []
        earlier = [c.name for c in visible]
        twin = rng.choice(visible) if visible and rng.random() < 0.3 else None
        if twin is not None and twin.fields:
            # a look-alike of an earlier class: same field names (and aliases), leaf types re-drawn, so that
            # both classes accept each other's wire form and the ORDER of union members decides
            parent = None
            for (fn, al, ft) in twin.fields:
                nt = rng.choice([("int",), ("str",), ("str",)]) if ft[0] in ("int", "str", "date") else ft
                own.append((fn, al, nt))
            fnames = []
        for fn in fnames:
            alias = ("a_" + fn) if rng.random() < 0.35 else None
            own.append((fn, alias, gen_ty(rng, earlier, rng.choice([0, 1, 1, 2]))))
        if twin is not None and twin.fields:
            sc.twins.append((twin.name, name))
        mixin_here = rng.random() < 0.5 and not (parent and parent.mixin)
        extra = {}
        # Config options that only change HOW / WHEN the methods are compiled
        if sc.lazy and rng.random() < 0.7:
            extra["lazy_compilation"] = "True"
        if rng.random() < 0.12:
            extra["allow_postponed_evaluation"] = "False"
        if not wide and rng.random() < 0.3:
            extra["omit_none"] = rng.choice(["True", "True", "False"])       # in the Coq model (c_omit_none)
        if not wide:
            for o in ("sort_keys", "forbid_extra_keys", "allow_deserialization_not_by_alias", "omit_default"):   # in the Coq model too
                if rng.random() < 0.25:
                    extra[o] = rng.choice(["True", "True", "False"])
        defaults = {}
        if wide:
            for o in WIDE_OPTS:
                if rng.random() < 0.3:
                    extra[o] = rng.choice(["True", "True", "False"])
        if sc.kw_only:
            # literal defaults (int / str / None): what omit_default compares with and what a missing key decodes to
            for (fn, al, ft) in own:
                if ft[0] in ("int", "str") and rng.random() < 0.4:
                    defaults[fn] = ("int", rng.choice([0, 7])) if ft[0] == "int" else ("str", rng.choice(["", "dflt"]))
                elif ft[0] == "opt" and rng.random() < 0.5:
                    defaults[fn] = ("none",)
                elif not wide and rng.random() < 0.4:
                    # non-literal defaults: a bound constant (date) and default_factory results (list / dict)
                    if ft[0] == "date":
                        defaults[fn] = ("date", gen_date(rng))
                    elif ft[0] == "list":
                        defaults[fn] = ("list", [("int", 1), ("int", 2)]) if ft[1] == ("int",) and rng.random() < 0.5 else ("list", [])
                    elif ft[0] == "dict":
                        defaults[fn] = ("dict", [])
        if not wide and defaults and "omit_default" not in extra and rng.random() < 0.5:
            extra["omit_default"] = "True"      # a class with defaults usually asks for them to be left out
        if sc.dialect is not None or extra or sc.flags:
            own_config = True
        else:
            own_config = rng.random() < 0.5
        by_alias_own = rng.choice([None, None, True, True, False]) if own_config else None
        cobj = Cls(name, parent, mixin_here, own, own_config, by_alias_own, extra, defaults)
        cobj.home = home
        if home == "B":
            free = [c.pyname for c in sc.classes if c.home == "A"
                    and c.pyname not in [d.pyname for d in sc.classes if d.home == "B"]]
            if free and rng.random() < 0.8:
                cobj.pyname = rng.choice(free)
        sc.classes.append(cobj)
    # classes of equal __qualname__ from different modules meet in one owner: a holder dataclass and composite shapes
    pairs = [(a.name, b.name) for a in sc.classes for b in sc.classes
             if a.home == "A" and b.home == "B" and a.pyname == b.pyname]
    for (a, b) in pairs[:2]:
        fl = [("p", None, ("data", a)), ("q", "a_q" if rng.random() < 0.3 else None, ("data", b)),
              ("w", None, rng.choice([("list", ("data", b)), ("opt", ("data", a)), ("dict", ("data", b)),
                                      ("tuple", [("data", b), ("data", a)])]))]
        rng.shuffle(fl)
        h = Cls(f"K{len(sc.classes)}", None, rng.random() < 0.5, fl, sc.dialect is not None, None)
        sc.classes.append(h)
    names = [c.name for c in sc.classes]
    # roots: every class that is "used" + composite shapes; some classes stay un-annotated
    ann = [nm for nm in names if rng.random() < 0.8] or names[:1]
    for nm in ann:
        sc.roots.append(("data", nm))
    for _ in range(rng.randint(2, 4)):
        sc.roots.append(gen_ty(rng, ann, 3))
    for (a, b) in pairs[:2]:
        sc.roots.append(rng.choice([("tuple", [("data", a), ("data", b)]), ("tuple", [("data", b), ("int",), ("data", a)]),
                                    ("dict", ("tuple", [("data", b), ("data", a)]))]))
    for (a, b) in sc.twins[:2]:
        ms = [("data", a), ("data", b)] + ([rng.choice([("int",), ("date",), ("str",)])] if rng.random() < 0.4 else [])
        rng.shuffle(ms)
        sc.roots.append(("union", ms))
    return sc


def gen_date(rng):
    return f"{rng.randint(1990, 2035):04d}-{rng.randint(1, 12):02d}-{rng.randint(1, 28):02d}"


def gen_str(rng):
    r = rng.random()
    if r < 0.7:
        return "".join(rng.choice("abcxyz") for _ in range(rng.randint(0, 4)))
    if r < 0.85:
        return str(rng.randint(-20, 200))
    return gen_date(rng)


def gen_value(rng, sc: Scenario, t, sub_p=0.0, junk_p=0.0, info=None):
    """a value conforming to t; with probability sub_p a strict-subclass instance and with
    probability junk_p an instance of an unrelated class at a dataclass position.
    info (dict) records what was used."""
    info = info if info is not None else {}
    k = t[0]
    if k == "int":
        return ("int", rng.choice([0, 1, -1, 7, 42, rng.randint(-1000, 100000)]))
    if k == "str":
        return ("str", gen_str(rng))
    if k == "date":
        return ("date", gen_date(rng))
    if k == "list":
        return ("list", [gen_value(rng, sc, t[1], sub_p, junk_p, info) for _ in range(rng.choice([0, 1, 2, 3]))])
    if k == "dict":
        keys = rng.sample(["a", "b", "k", "m"], rng.choice([0, 1, 2]))
        return ("dict", [(kk, gen_value(rng, sc, t[1], sub_p, junk_p, info)) for kk in keys])
    if k == "tuple":
        return ("tuple", [gen_value(rng, sc, x, sub_p, junk_p, info) for x in t[1]])
    if k == "opt":
        if rng.random() < 0.3:
            return ("none",)
        return gen_value(rng, sc, t[1], sub_p, junk_p, info)
    if k == "union":
        i = rng.randrange(len(t[1]))
        info.setdefault("union_member", []).append(i)
        return gen_value(rng, sc, t[1][i], sub_p, junk_p, info)
    if k == "data":
        c = sc.cls(t[1])
        rc = c
        r = rng.random()
        subs = sc.subclasses_of(c.name)
        if subs and r < sub_p:
            rc = rng.choice(subs)
            info["subclass"] = True
        elif r < sub_p + junk_p:
            others = [o for o in sc.classes if o.name != c.name and not o.is_strict_sub_of(c.name)]
            if others:
                rc = rng.choice(others)
                info["junk"] = True
        if rc is not c:      # keep the tree finite: nothing unusual below an unusual instance
            sub_p, junk_p = 0.0, 0.0
        dfl = rc.all_defaults
        return ("obj", rc.name, [(fn, dfl[fn] if fn in dfl and rng.random() < 0.4 else gen_value(rng, sc, ft, sub_p, junk_p, info))
                                 for (fn, _, ft) in rc.fields])
    raise ValueError(t)


def mutate_wire(rng, v, depth=0):
    """perturb a basic (wire) value: drop/rename keys, swap leaves, replace subtrees by scalars"""
    k = v[0]
    r = rng.random()
    if k in ("int", "str", "none"):
        if r < 0.5:
            return v
        return rng.choice([("none",), ("int", rng.randint(-3, 30)), ("str", gen_str(rng)),
                           ("str", "abc"), ("list", []), ("dict", [])])
    if r < 0.12:
        return rng.choice([("none",), ("int", 5), ("list", []), ("dict", []), ("list", [("int", 1)])])
    if k == "list":
        items = [mutate_wire(rng, x, depth + 1) if rng.random() < 0.5 else x for x in v[1]]
        if items and rng.random() < 0.15:
            items.pop(rng.randrange(len(items)))
        return ("list", items)
    if k == "dict":
        items = []
        for (kk, x) in v[1]:
            q = rng.random()
            if q < 0.12:
                continue
            if q < 0.2:
                kk = kk[2:] if kk.startswith("a_") else "a_" + kk
            items.append((kk, mutate_wire(rng, x, depth + 1) if rng.random() < 0.5 else x))
        return ("dict", items)
    return v


# ---------------------------------------------------------------------------
# Python materialisation
# ---------------------------------------------------------------------------

def py_ty(t, nm=None) -> str:
    """python source of a type; nm maps model class names to the names visible where the text is placed"""
    k = t[0]
    if k == "int":
        return "int"
    if k == "str":
        return "str"
    if k == "date":
        return "date"
    if k == "list":
        return f"List[{py_ty(t[1], nm)}]"
    if k == "dict":
        return f"Dict[str, {py_ty(t[1], nm)}]"
    if k == "tuple":
        return "Tuple[" + ", ".join(py_ty(x, nm) for x in t[1]) + "]"
    if k == "opt":
        return f"Optional[{py_ty(t[1], nm)}]"
    if k == "union":
        return "Union[" + ", ".join(py_ty(x, nm) for x in t[1]) + "]"
    if k == "data":
        return nm[t[1]] if nm else t[1]
    raise ValueError(t)


HEADER = """from dataclasses import dataclass, field
from datetime import date
from typing import Dict, List, Optional, Tuple, Union
from mashumaro import DataClassDictMixin
from mashumaro.config import BaseConfig, ADD_DIALECT_SUPPORT
from mashumaro.config import TO_DICT_ADD_OMIT_NONE_FLAG, TO_DICT_ADD_BY_ALIAS_FLAG, ADD_SERIALIZATION_CONTEXT
from mashumaro.dialect import Dialect
import sys as _sys, types as _types
"""


FUTURE = "from __future__ import annotations\n"


def mixin_line(sc) -> str:
    if not sc.mixin_override:
        return ""
    return f"from {sc.mixin_override[0]} import {sc.mixin_override[1]} as DataClassDictMixin\n"


def cls_src(sc: Scenario, c: Cls, nm=None) -> str:
    bases = []
    if c.parent:
        bases.append(nm[c.parent.name] if nm else c.parent.name)
    if c.mixin_here:
        bases.append("DataClassDictMixin")
    deco = "@dataclass(kw_only=True)" if (sc.wide or sc.kw_only) else "@dataclass"
    head = f"{deco}\nclass {nm[c.name] if nm else c.name}" + (f"({', '.join(bases)})" if bases else "") + ":\n"
    body = ""
    for (fn, alias, ft) in c.own_fields:
        dflt = c.defaults.get(fn)
        dsrc, dkw = None, "default"
        if dflt is not None:
            if dflt[0] == "none":
                dsrc = "None"
            elif dflt[0] in ("int", "str"):
                dsrc = repr(dflt[1])
            elif dflt[0] == "date":
                y, mo, dd = dflt[1].split("-")
                dsrc = f"date({int(y)}, {int(mo)}, {int(dd)})"
            elif dflt[0] == "list":
                dsrc, dkw = "lambda: [" + ", ".join(repr(x[1]) for x in dflt[1]) + "]", "default_factory"
            elif dflt[0] == "dict":
                dsrc, dkw = "dict", "default_factory"
            else:
                raise ValueError(dflt)
        if alias:
            body += f"    {fn}: {py_ty(ft, nm)} = field(metadata={{'alias': {alias!r}}}" + (f", {dkw}={dsrc}" if dsrc is not None else "") + ")\n"
        elif dsrc is not None and dkw == "default_factory":
            body += f"    {fn}: {py_ty(ft, nm)} = field(default_factory={dsrc})\n"
        elif dsrc is not None:
            body += f"    {fn}: {py_ty(ft, nm)} = {dsrc}\n"
        else:
            body += f"    {fn}: {py_ty(ft, nm)}\n"
    if c.own_config:
        body += "    class Config(BaseConfig):\n"
        lines = 0
        opts = (["ADD_DIALECT_SUPPORT"] if sc.dialect is not None else []) + list(sc.flags)
        if opts:
            body += f"        code_generation_options = [{', '.join(opts)}]\n"
            lines += 1
        for k, v in c.extra.items():
            body += f"        {k} = {v}\n"
            lines += 1
        if c.by_alias_own is not None:
            body += f"        serialize_by_alias = {c.by_alias_own}\n"
            lines += 1
        if not lines:
            body += "        pass\n"
    if not body:
        body = "    pass\n"
    return head + body


def wrapper_src(sc: Scenario, i: int, t) -> str:
    s = f"@dataclass\nclass W{i}(DataClassDictMixin):\n    f: {py_ty(t)}\n"
    opts = (["ADD_DIALECT_SUPPORT"] if sc.dialect is not None else []) + list(sc.flags)
    if opts:
        s += f"    class Config(BaseConfig):\n        code_generation_options = [{', '.join(opts)}]\n"
    return s


def scenario_src(sc: Scenario) -> str:
    # dataclass fields without default may not follow fields with default: aliases use field(metadata=..)
    # which has no default, so any order is fine.
    s = (FUTURE if sc.pep563 else "") + HEADER + mixin_line(sc)
    if sc.dialect is not None:
        if sc.dialect == "unset":
            s += "class Dl(Dialect):\n    no_copy_collections = (list,)\n" if sc.wide else "class Dl(Dialect):\n    namedtuple_as_dict = False\n"
            s += (f"    omit_none = {sc.dialect_omit}\n" if sc.dialect_omit is not None else "")
            s += (f"    omit_default = {sc.dialect_omit_default}\n" if sc.dialect_omit_default is not None else "") + "\n"
        elif sc.dialect == "strategy":
            s += ("class Dl(Dialect):\n    serialization_strategy = {date: {'serialize': date.toordinal, "
                  "'deserialize': date.fromordinal}}\n\n")
        else:
            s += f"class Dl(Dialect):\n    serialize_by_alias = {sc.dialect}\n"
            s += (f"    omit_none = {sc.dialect_omit}\n" if sc.dialect_omit is not None else "")
            s += (f"    omit_default = {sc.dialect_omit_default}\n" if sc.dialect_omit_default is not None else "") + "\n"
    # library modules: created at exec time under <main module name>_A / _B, so that the source stays self-contained
    for home in ("A", "B"):
        members = [c for c in sc.classes if c.home == home]
        if not members:
            continue
        nm = {c.name: c.pyname for c in members}
        lib = (FUTURE if sc.pep563 else "") + HEADER + mixin_line(sc) + "".join(cls_src(sc, c, nm) + "\n" for c in members)
        s += (f"_lib{home} = _types.ModuleType(__name__ + '_{home}'); _sys.modules[_lib{home}.__name__] = _lib{home}\n"
              f"exec(compile({lib!r}, _lib{home}.__name__, 'exec', dont_inherit=True), _lib{home}.__dict__)\n")
        for c in members:
            s += f"{c.name} = _lib{home}.{c.pyname}; {c.name}.__c15_name__ = {c.name!r}\n"
        s += "\n"
    for c in sc.classes:
        if c.home is None:
            s += cls_src(sc, c) + "\n"
    for i, t in enumerate(sc.roots):
        s += wrapper_src(sc, i, t) + "\n"
    s += f"ROOTS = [{', '.join(py_ty(t) for t in sc.roots)}]\n"
    s += sc.extra_src
    return s


_mod_counter = [0]


def load_module(src: str, tag: str):
    _mod_counter[0] += 1
    tag = "".join(ch if ch.isalnum() else "_" for ch in str(tag))
    name = f"c15mod_{tag}_{_mod_counter[0]}"
    mod = _types.ModuleType(name)
    sys.modules[name] = mod
    # dont_inherit: this file's own `from __future__ import annotations` must not leak into the scenario
    exec(compile(src, name, "exec", dont_inherit=True), mod.__dict__)
    return mod


def unload_module(mod):
    for k in [k for k in sys.modules if k == mod.__name__ or k.startswith(mod.__name__ + "_")]:
        sys.modules.pop(k, None)


def cname(cls) -> str:
    """model name of a class (library classes carry it in their own __dict__; python names may collide)"""
    return cls.__dict__.get("__c15_name__", cls.__name__)


def build(mod, v):
    k = v[0]
    if k == "none":
        return None
    if k in ("int", "str"):
        return v[1]
    if k == "date":
        return datetime.date.fromisoformat(v[1])
    if k == "list":
        return [build(mod, x) for x in v[1]]
    if k == "tuple":
        return tuple(build(mod, x) for x in v[1])
    if k == "dict":
        return {kk: build(mod, x) for (kk, x) in v[1]}
    if k == "obj":
        return getattr(mod, v[1])(**{kk: build(mod, x) for (kk, x) in v[2]})
    raise ValueError(v)


def canon(o):
    """Python object -> value AST (None when outside the universe)"""
    if o is None:
        return ("none",)
    if isinstance(o, bool):
        return ("other", "bool")
    if isinstance(o, int):
        return ("int", o)
    if isinstance(o, str):
        return ("str", o)
    if isinstance(o, datetime.date) and not isinstance(o, datetime.datetime):
        return ("date", o.isoformat())
    if isinstance(o, list):
        return ("list", [canon(x) for x in o])
    if isinstance(o, tuple):
        return ("tuple", [canon(x) for x in o])
    if isinstance(o, dict):
        return ("dict", [(str(k) if isinstance(k, str) else repr(k), canon(x)) for k, x in o.items()])
    if dataclasses.is_dataclass(o) and not isinstance(o, type):
        return ("obj", cname(type(o)), [(f.name, canon(getattr(o, f.name))) for f in dataclasses.fields(o)])
    return ("other", type(o).__name__)


def in_universe(v) -> bool:
    k = v[0]
    if k == "other":
        return False
    if k in ("list", "tuple"):
        return all(in_universe(x) for x in v[1])
    if k == "dict":
        return all(in_universe(x) for _, x in v[1])
    if k == "obj":
        return all(in_universe(x) for _, x in v[2])
    return True


def classify_exc(e, wrapper_names=()):
    """exception -> ('err', kind, ...) following the reduction used by the Coq model"""
    from mashumaro.exceptions import ExtraKeysError, InvalidFieldValue, MissingField
    if isinstance(e, ExtraKeysError):
        return ("err", "extra", ",".join(sorted(map(str, e.extra_keys))), cname(e.target_type))
    if isinstance(e, MissingField):
        return ("err", "missing", e.field_name, cname(e.holder_class))
    if isinstance(e, InvalidFieldValue):
        return ("err", "invalid", e.field_name, cname(e.holder_class))
    if isinstance(e, ValueError):
        a = e.args
        if len(a) == 1 and isinstance(a[0], str) and (" " in a[0]):
            return ("err", "raw")
        if len(a) == 1:
            return ("err", "unionV")
        return ("err", "raw")
    if isinstance(e, (AttributeError, TypeError, KeyError, IndexError)):
        return ("err", "raw")
    return ("err", "other:" + type(e).__name__ + ":" + str(e)[:200])


def call(fn):
    try:
        return ("ok", canon(fn()))
    except RecursionError:
        raise
    except Exception as e:  # noqa
        return ("exc", e)


# ---------------------------------------------------------------------------
# Coq terms
# ---------------------------------------------------------------------------

def coq_ty(t) -> str:
    k = t[0]
    if k == "int":
        return "TInt"
    if k == "str":
        return "TStr"
    if k == "date":
        return "TDate"
    if k == "list":
        return f"(TList {coq_ty(t[1])})"
    if k == "dict":
        return f"(TDict {coq_ty(t[1])})"
    if k == "tuple":
        return "(TTuple [" + "; ".join(coq_ty(x) for x in t[1]) + "])"
    if k == "opt":
        return f"(TOpt {coq_ty(t[1])})"
    if k == "union":
        return "(TUnion [" + "; ".join(coq_ty(x) for x in t[1]) + "])"
    if k == "data":
        return f"(TData {coq_str(t[1])})"
    raise ValueError(t)


def coq_val(v) -> str:
    k = v[0]
    if k == "none":
        return "VNone"
    if k == "int":
        return f"(VInt {coq_z(v[1])})"
    if k == "str":
        return f"(VStr {coq_str(v[1])})"
    if k == "date":
        return f"(VDate {coq_str(v[1])})"
    if k == "list":
        return "(VList [" + "; ".join(coq_val(x) for x in v[1]) + "])"
    if k == "tuple":
        return "(VTuple [" + "; ".join(coq_val(x) for x in v[1]) + "])"
    if k == "dict":
        return "(VDict [" + "; ".join(f"({coq_str(kk)}, {coq_val(x)})" for kk, x in v[1]) + "])"
    if k == "obj":
        return f"(VObj {coq_str(v[1])} [" + "; ".join(f"({coq_str(kk)}, {coq_val(x)})" for kk, x in v[2]) + "])"
    raise ValueError(v)


def coq_optb(b) -> str:
    return "None" if b is None or b in ("unset", "strategy") else ("(Some true)" if b else "(Some false)")


def coq_bool_(b) -> str:
    return "true" if b else "false"


def coq_opts(sc: Scenario) -> str:
    """the dialect Dl as one option layer of the model"""
    ba = sc.dialect if isinstance(sc.dialect, bool) else None
    return f"(mkO {coq_optb(ba)} {coq_optb(sc.dialect_omit)} {coq_optb(sc.dialect_omit_default)})"


def scenario_compat(sc: Scenario) -> bool:
    """dialect and Config never contradict each other (then call dialect vs default dialect is invisible)"""
    ba = sc.dialect if isinstance(sc.dialect, bool) else None
    om, od = sc.dialect_omit, sc.dialect_omit_default
    return all((ba is None or c.by_alias is None or c.by_alias == ba) and
               (om is None or c.omit_none is None or c.omit_none == om) and
               (od is None or c.omit_default is None or c.omit_default == od) for c in sc.classes)


def coq_env(sc: Scenario, has=None) -> str:
    has = has if has is not None else predicted_has_method(sc)
    items = []
    for c in sc.classes:
        fs = "; ".join(f"mkF {coq_str(fn)} {('(Some ' + coq_str(al) + ')') if al else 'None'} {coq_ty(ft)}"
                       for (fn, al, ft) in c.fields)
        par = f"(Some {coq_str(c.parent.name)})" if c.parent else "None"
        items.append(f"mkC {coq_str(c.name)} {par} [{fs}] {coq_optb(c.by_alias)} {coq_optb(c.omit_none)} {coq_optb(c.omit_default)} "
                     f"[{'; '.join('(' + coq_str(k) + ', ' + coq_val(v) + ')' for k, v in c.all_defaults.items())}] "
                     f"{coq_bool_(c.cfg_flag('sort_keys'))} {coq_bool_(c.cfg_flag('forbid_extra_keys'))} "
                     f"{coq_bool_(c.cfg_flag('allow_deserialization_not_by_alias'))} {'true' if has[c.name] else 'false'}")
    return "[" + ";\n   ".join(items) + "]"


def coq_res(r) -> str:
    if r[0] == "ok":
        return f"(Ok {coq_val(r[1])})"
    kind = r[1]
    if kind == "raw":
        return "(Err XRaw)"
    if kind == "unionI":
        return "(Err XUnionI)"
    if kind == "unionV":
        return "(Err XUnionV)"
    if kind == "invalid":
        return f"(Err (XInvalid {coq_str(r[2])} {coq_str(r[3])}))"
    if kind == "missing":
        return f"(Err (XMissing {coq_str(r[2])} {coq_str(r[3])}))"
    if kind == "extra":
        return f"(Err (XExtra {coq_str(r[3])}))"
    # anything else can never equal a model result (XUnmodelled is never an expectation)
    return "(Err XUnmodelled)"
