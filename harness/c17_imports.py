"""C17, kernel K46: what add_type_modules reads from a type (harness's own reading of the typing object -> K46.mty term)
and what the real method does to a recording `globals` (sequence of setdefault calls)."""
from __future__ import annotations

import inspect
import sys
import types
import typing

import typing_extensions


def coq_str(s: str) -> str:
    return '"' + s.replace('"', '""') + '"'


class TooDeep(Exception):
    pass


def _literal_values(t) -> list:
    out = []
    for a in getattr(t, "__args__", ()):
        if typing.get_origin(a) in (typing.Literal, typing_extensions.Literal):
            out += _literal_values(a)
        else:
            out.append(a)
    return out


def to_mty(t, depth: int = 0) -> str:
    """Coq term of type K46.mty.  Own reading: origin via __origin__ (Annotated: the annotated type's origin is irrelevant,
    its __origin__ attribute is the wrapped type), module via inspect.getmodule (CPython, the environment), children via
    __args__ / __constraints__ / __bound__."""
    if depth > 7:
        raise TooDeep()
    origin = typing.get_origin(t)
    if origin is typing.Annotated or origin is typing_extensions.Annotated:
        raise TooDeep()     # Annotated is unwrapped by the library before it gets here: outside this reading
    mproxy = (origin if origin is not None else t) is types.MappingProxyType
    try:
        module = inspect.getmodule(t)
    except Exception:
        raise TooDeep()
    mname = module.__name__ if module else None
    is_lit = origin in (typing.Literal, typing_extensions.Literal)

    def lst(xs):
        return "[" + "; ".join(to_mty(x, depth + 1) for x in xs) + "]"
    lits = _literal_values(t) if is_lit else []
    args = [] if is_lit else list(getattr(t, "__args__", ()) or ())
    cons = list(getattr(t, "__constraints__", ()) or ())
    b = getattr(t, "__bound__", ())
    bound = [b] if b else []
    return (f"(MNode {'true' if mproxy else 'false'} {'(Some ' + coq_str(mname) + ')' if mname is not None else 'None'} "
            f"{'true' if is_lit else 'false'} {lst(lits)} {lst(args)} {lst(cons)} {lst(bound)})")


class _RecDict(dict):
    def __init__(self):
        super().__init__()
        self.ops = []

    def setdefault(self, key, value=None):
        ok = True
        if isinstance(value, types.ModuleType):
            ok = sys.modules.get(key) is value or value.__name__ == key
        self.ops.append((key, isinstance(value, types.ModuleType), ok))
        return super().setdefault(key, value)


def real_ops(t) -> list:
    """run the real CodeBuilder.add_type_modules (and through it the real ensure_* methods) on a recording globals"""
    from mashumaro.core.meta.code.builder import CodeBuilder

    class _Self:
        pass
    s = _Self()
    s.globals = _RecDict()
    for name in ("add_type_modules", "ensure_module_imported", "ensure_object_imported"):
        setattr(s, name, types.MethodType(getattr(CodeBuilder, name), s))
    s.add_type_modules(t)
    return s.globals.ops


def case(t):
    """-> (mty term, [(name, is_module)]) or None when the type is outside the reading"""
    try:
        term = to_mty(t)
        ops = real_ops(t)
    except TooDeep:
        return None
    except RecursionError:
        return None
    if not all(o[2] for o in ops):
        return term, [("<wrong-module-object>", True)]
    return term, [(k, m) for k, m, _ in ops]
