"""Shared generator of schemas (type trees + class families) and conforming values.

A schema is materialised twice: as real Python classes (source text exec'ed into a fresh
module) and, where it lies inside the Coq grammar of TyModel.v, as Coq terms.  Every random
choice comes from the rng handed in."""
from __future__ import annotations

import collections
import dataclasses
import datetime
import decimal
import enum
import fractions
import ipaddress
import itertools
import math
import pathlib
import re
import sys
import types
import typing
import uuid
from dataclasses import dataclass, field
from typing import Any

_mod_counter = itertools.count()


class _NoDefault:
    def __repr__(self):
        return 'NODEFAULT'


NODEFAULT = _NoDefault()


# ---------------------------------------------------------------------------
# type trees
# ---------------------------------------------------------------------------

@dataclass
class T:
    kind: str                      # see KINDS
    args: list["T"] = field(default_factory=list)
    name: str | None = None        # class name for enum / data / nt / td, leaf kind for leaf
    extra: Any = None              # literal values, frozen flag, ...
    sp: str = ""                   # how the annotation is SPELLED (same type, other text): see py_ann
    ann: bool = False              # wrapped in Annotated[..., "m"]

    def key(self) -> str:
        a = ",".join(x.key() for x in self.args)
        return f"{self.kind}:{self.name or ''}[{a}]{self.extra if self.extra is not None else ''}{('~' + self.sp) if self.sp else ''}{'@' if self.ann else ''}"

    def walk(self):
        yield self
        for a in self.args:
            yield from a.walk()


SCALARS = ["int", "float", "bool", "str", "none"]
LEAVES = ["datetime", "date", "time", "timedelta", "timezone", "UUID", "Decimal", "Fraction",
          "IPv4Address", "IPv6Address", "IPv4Network", "IPv6Network", "IPv4Interface", "IPv6Interface",
          "PurePosixPath", "Path", "Pattern"]
LEAF_PY = {
    "datetime": "datetime.datetime", "date": "datetime.date", "time": "datetime.time",
    "timedelta": "datetime.timedelta", "timezone": "datetime.timezone", "UUID": "uuid.UUID",
    "Decimal": "decimal.Decimal", "Fraction": "fractions.Fraction",
    "IPv4Address": "ipaddress.IPv4Address", "IPv6Address": "ipaddress.IPv6Address",
    "IPv4Network": "ipaddress.IPv4Network", "IPv6Network": "ipaddress.IPv6Network",
    "IPv4Interface": "ipaddress.IPv4Interface", "IPv6Interface": "ipaddress.IPv6Interface",
    "PurePosixPath": "pathlib.PurePosixPath", "Path": "pathlib.Path", "Pattern": "re.Pattern",
}

PRELUDE = """import collections, dataclasses, datetime, decimal, enum, fractions, ipaddress, pathlib, re, typing, uuid
from dataclasses import dataclass, field
from typing import *
from typing_extensions import TypedDict, NamedTuple, Literal, Annotated, Self, Unpack, NotRequired, Required
from decimal import Decimal
from fractions import Fraction
from uuid import UUID
from ipaddress import IPv4Address, IPv6Address, IPv4Network, IPv6Network, IPv4Interface, IPv6Interface
from pathlib import PurePosixPath, PurePath, Path
from collections import OrderedDict, deque, ChainMap, Counter, defaultdict
from types import MappingProxyType
from mashumaro import DataClassDictMixin, pass_through
from mashumaro.mixins.orjson import DataClassORJSONMixin
from mashumaro.mixins.msgpack import DataClassMessagePackMixin
from mashumaro.mixins.toml import DataClassTOMLMixin
from mashumaro.config import BaseConfig
from mashumaro.dialect import Dialect
inf = float("inf")
nan = float("nan")
"""


def py_ann(t: T) -> str:
    """annotation source.  The same type may be written in several ways (PEP 604 unions, None first, builtin generics,
    an Annotated wrapper with inert metadata): the library must treat them alike, the models do not see the spelling."""
    s = _py_ann(t)
    return f'Annotated[{s}, "m"]' if t.ann else s


def _py_ann(t: T) -> str:
    k = t.kind
    if t.sp:
        a = [py_ann(x) for x in t.args]
        if k == "opt":
            return {"pipe": f"{a[0]} | None", "nonefirst": f"None | {a[0]}", "unionnone": f"Union[None, {a[0]}]"}[t.sp]
        if t.sp == "builtin":
            if k == "list":
                return f"list[{a[0]}]"
            if k == "set":
                return f"set[{a[0]}]"
            if k == "frozenset":
                return f"frozenset[{a[0]}]"
            if k == "dict":
                return f"dict[{a[0]}, {a[1]}]"
            if k == "tuplevar":
                return f"tuple[{a[0]}, ...]"
            if k == "tuplefix":
                return "tuple[" + ", ".join(a) + "]" if a else "tuple[()]"
    if k in ("int", "float", "bool", "str", "bytes", "bytearray"):
        return k
    if k == "none":
        return "None"
    if k == "any":
        return "Any"
    if k == "leaf":
        return LEAF_PY[t.name]
    if k == "data" and t.extra == "fwd":
        # self reference.  NOTE: a by-name forward reference ('D1') makes codec creation fail with
        # AttributeError (known finding codec-selfref-by-name); Self is supported by every entry point.
        return "Self"
    if k in ("enum", "data", "nt", "td"):
        return t.name
    a = [py_ann(x) for x in t.args]
    if k == "list":
        return f"List[{a[0]}]"
    if k == "seq":
        return f"Sequence[{a[0]}]"
    if k == "deque":
        return f"Deque[{a[0]}]"
    if k == "set":
        return f"Set[{a[0]}]"
    if k == "frozenset":
        return f"FrozenSet[{a[0]}]"
    if k == "tuplevar":
        return f"Tuple[{a[0]}, ...]"
    if k == "tuplefix":
        return "Tuple[" + ", ".join(a) + "]" if a else "Tuple[()]"
    if k == "tupleu":
        np_, mode, nm = t.extra
        pre, mid, suf = a[:np_], a[np_:np_ + nm], a[np_ + nm:]
        inner = f"Tuple[{mid[0]}, ...]" if mode == "var" else ("Tuple[" + ", ".join(mid) + "]" if mid else "Tuple[()]")
        return "Tuple[" + ", ".join(pre + [f"Unpack[{inner}]"] + suf) + "]"
    if k == "dict":
        return f"Dict[{a[0]}, {a[1]}]"
    if k == "mapping":
        return f"Mapping[{a[0]}, {a[1]}]"
    if k == "ordereddict":
        return f"OrderedDict[{a[0]}, {a[1]}]"
    if k == "counter":
        return f"Counter[{a[0]}]"
    if k == "chainmap":
        return f"ChainMap[{a[0]}, {a[1]}]"
    if k == "defaultdict":
        return f"DefaultDict[{a[0]}, {a[1]}]"
    if k == "mappingproxy":
        return f"MappingProxyType[{a[0]}, {a[1]}]"
    if k == "opt":
        return f"Optional[{a[0]}]"
    if k == "union":
        return "Union[" + ", ".join(a) + "]"
    if k == "lit":
        return "Literal[" + ", ".join(repr(v) for v in t.extra) + "]"
    raise ValueError(k)


# ---------------------------------------------------------------------------
# class families
# ---------------------------------------------------------------------------

@dataclass
class FieldSpec:
    name: str
    ty: T
    default: Any = NODEFAULT                # python value, 'factory:list' / 'factory:dict', or NODEFAULT
    default_src: str | None = None          # source text of the default expression
    alias: str | None = None                # metadata alias
    final: bool = False                     # written Final[...] (dataclass fields only)
    optional: bool | None = None            # TypedDict key: True = NotRequired[...], False = Required[...], None = the class's totality


@dataclass
class ClassSpec:
    kind: str                     # "data" | "enum" | "nt" | "td"
    name: str
    fields: list[FieldSpec] = field(default_factory=list)
    base: str | None = None       # enum base: Enum/IntEnum/StrEnum/Flag/IntFlag ; data: parent class
    members: list[tuple[str, Any]] = field(default_factory=list)   # enum members
    mixin: bool = False
    mixin_base: str = "DataClassDictMixin"    # or a format mixin (DataClassORJSONMixin / ...MessagePackMixin / ...TOMLMixin)
    total: bool = True            # TypedDict
    config: dict = field(default_factory=dict)   # Config options that do not discard information

    def source(self) -> str:
        if self.kind == "enum":
            body = "\n".join(f"    {m} = {v!r}" for m, v in self.members) or "    pass"
            return f"class {self.name}(enum.{self.base}):\n{body}\n"
        if self.kind == "nt":
            lines = [f"class {self.name}(NamedTuple):"]
            for f in self.fields:
                lines.append(f"    {f.name}: {py_ann(f.ty)}" + (f" = {f.default_src}" if f.default_src else ""))
            if not self.fields:
                lines.append("    pass")
            return "\n".join(lines) + "\n"
        if self.kind == "td":
            lines = [f"class {self.name}(TypedDict, total={self.total}):"]
            for f in self.fields:
                a = py_ann(f.ty)
                if f.optional is True and self.total:
                    a = f"NotRequired[{a}]"
                elif f.optional is False and not self.total:
                    a = f"Required[{a}]"
                lines.append(f"    {f.name}: {a}")
            if not self.fields:
                lines.append("    pass")
            return "\n".join(lines) + "\n"
        bases = []
        if self.base:
            bases.append(self.base)
        elif self.mixin:
            bases.append(self.mixin_base)
        head = f"@dataclass\nclass {self.name}" + (f"({', '.join(bases)})" if bases else "") + ":"
        lines = [head]
        for f in self.fields:
            rhs = f.default_src
            if f.alias is not None:
                md = f"metadata={{'alias': {f.alias!r}}}"
                if rhs is None:
                    rhs = f"field({md})"
                elif rhs.startswith("field("):
                    rhs = rhs[:-1] + ", " + md + ")"
                else:
                    rhs = f"field(default={rhs}, {md})"
            a = f"Final[{py_ann(f.ty)}]" if f.final else py_ann(f.ty)
            lines.append(f"    {f.name}: {a}" + (f" = {rhs}" if rhs else ""))
        if not self.fields and not self.config:
            lines.append("    pass")
        if self.config:
            lines.append("    class Config(BaseConfig):")
            for k, v in self.config.items():
                lines.append(f"        {k} = {v!r}")
        return "\n".join(lines) + "\n"


def td_is_optional(spec: "ClassSpec", f: FieldSpec) -> bool:
    """is the key of a TypedDict class not required (total=False or NotRequired[...])"""
    return (not spec.total) if f.optional is None else f.optional


def td_order(spec: "ClassSpec") -> list[FieldSpec]:
    """the key order of a (de)serialized TypedDict: required keys, then optional keys, each in declaration order"""
    return [f for f in spec.fields if not td_is_optional(spec, f)] + [f for f in spec.fields if td_is_optional(spec, f)]


class Family:
    def __init__(self):
        self.classes: list[ClassSpec] = []
        self.ns: dict | None = None
        self.modname: str | None = None

    def get(self, name: str) -> ClassSpec:
        for c in self.classes:
            if c.name == name:
                return c
        raise KeyError(name)

    def source(self) -> str:
        return PRELUDE + "\n" + "\n".join(c.source() for c in self.classes)

    def build(self) -> dict:
        if self.ns is None:
            self.modname = f"verif_fam_{next(_mod_counter)}"
            self.ns = build_module(self.source(), self.modname)
        return self.ns

    def dispose(self):
        if self.modname:
            sys.modules.pop(self.modname, None)
        self.ns = None


def build_module(src: str, modname: str | None = None) -> dict:
    modname = modname or f"verif_mod_{next(_mod_counter)}"
    mod = types.ModuleType(modname)
    mod.__dict__["__name__"] = modname
    sys.modules[modname] = mod
    exec(compile(src, f"<{modname}>", "exec", dont_inherit=True), mod.__dict__)
    return mod.__dict__


def resolve(t: T, ns: dict):
    """The real typing object for a type tree."""
    if t.kind == "none":
        return type(None)
    return eval(py_ann(t), dict(ns))


# ---------------------------------------------------------------------------
# random schemas
# ---------------------------------------------------------------------------

@dataclass
class GenOpts:
    depth: int = 3
    leaves: list[str] = field(default_factory=lambda: list(LEAVES))
    containers: list[str] = field(default_factory=lambda: ["list", "set", "frozenset", "tuplevar", "tuplefix", "dict", "opt",
                                                            "seq", "deque", "mapping", "ordereddict", "counter", "chainmap", "defaultdict", "mappingproxy"])
    classes: bool = True          # dataclasses / enums
    named: bool = True            # named tuples, typed dicts
    unions: bool = False
    literals: bool = False
    any_: bool = False
    max_fields: int = 5
    mixin: bool = False
    mixin_base: str = "DataClassDictMixin"
    coq_only: bool = False        # stay inside TyModel.sty
    unpacked: bool = True         # tuples with an unpacked segment (Tuple[a, Unpack[Tuple[b, ...]], c])
    abstract: bool = True         # Coq stream: Sequence / Mapping / Deque / OrderedDict / Counter / ChainMap / DefaultDict / MappingProxyType
    configs: bool = False         # aliases + serialize_by_alias / allow_deserialization_not_by_alias / forbid_extra_keys
    spellings: bool = True        # PEP 604 / None-first unions, builtin generics, Annotated wrappers, Final fields


COQ_CONTAINERS = ["list", "set", "frozenset", "tuplevar", "tuplefix", "dict", "opt",
                  "seq", "deque", "mapping", "ordereddict", "counter", "chainmap", "defaultdict", "mappingproxy"]


class SchemaGen:
    def __init__(self, rng, opts: GenOpts | None = None):
        self.rng = rng
        self.o = opts or GenOpts()
        self.fam = Family()
        self.n = 0
        self.open: set[str] = set()      # dataclasses whose fields are still being generated

    tag = ""

    def fresh(self, prefix: str) -> str:
        self.n += 1
        return f"{prefix}{self.tag}{self.n}"

    # hashable on both sides of the wire (DESIGN.md 3.1 note iii)
    def key_type(self) -> T:
        r = self.rng
        c = r.random()
        if c < 0.35:
            return T("str")
        if c < 0.6:
            return T("int")
        if c < 0.7 and self.o.classes:
            return self.enum_type()
        if c < 0.9:
            return T("leaf", name=r.choice([k for k in self.o.leaves if k not in ("Pattern",)] or ["date"]))
        return T(r.choice(["float", "bool"]))

    def elem_hashable_type(self, depth: int) -> T:
        r = self.rng
        if depth > 0 and r.random() < 0.2:
            n = r.randrange(1, 3)
            return T("tuplefix", [self.elem_hashable_type(depth - 1) for _ in range(n)])
        return self.key_type()

    def enum_type(self) -> T:
        r = self.rng
        existing = [c for c in self.fam.classes if c.kind == "enum"]
        if existing and r.random() < 0.5:
            return T("enum", name=r.choice(existing).name)
        base = r.choice(["Enum", "Enum", "IntEnum", "StrEnum", "Flag", "IntFlag"] if not self.o.coq_only else ["Enum", "IntEnum", "StrEnum"])
        name = self.fresh("E")
        n = r.randrange(1, 4)
        if base in ("Flag", "IntFlag"):
            members = [(f"M{i}", 1 << i) for i in range(n)]
        elif base == "IntEnum":
            members = [(f"M{i}", i * 3 + 1) for i in range(n)]
        elif base == "StrEnum":
            members = [(f"M{i}", f"s{i}") for i in range(n)]
        else:
            kind = r.choice(["int", "str", "mixed"])
            members = []
            for i in range(n):
                if kind == "int" or (kind == "mixed" and i % 2 == 0):
                    members.append((f"M{i}", 10 + i))
                else:
                    members.append((f"M{i}", f"v{i}"))
        self.fam.classes.append(ClassSpec("enum", name, base=base, members=members))
        return T("enum", name=name)

    def scalar(self) -> T:
        return T(self.rng.choice(["int", "float", "bool", "str", "int", "str"]))

    def leaf(self) -> T:
        return T("leaf", name=self.rng.choice(self.o.leaves))

    def gen_type(self, depth: int | None = None, top: bool = False) -> T:
        return self.spell(self._gen_type(depth, top))

    def spell(self, t: T) -> T:
        r = self.rng
        if not self.o.spellings:
            return t
        if t.kind == "opt" and t.args[0].kind not in ("none",) and r.random() < 0.35:
            t.sp = r.choice(["pipe", "nonefirst", "unionnone"])
        elif t.kind in ("list", "set", "frozenset", "dict", "tuplevar", "tuplefix") and r.random() < 0.25 \
                and not any(a.kind == "none" for a in t.args):
            # (a builtin generic keeps a literal None argument: tuple[None, int] is rejected by the library
            #  although Tuple[None, int] is accepted -- reported, not generated)
            t.sp = "builtin"
        if t.kind != "none" and not (t.kind == "data" and t.extra == "fwd") and r.random() < (0.15 if t.kind == "opt" else 0.06):
            t.ann = True
        return t

    def _gen_type(self, depth: int | None = None, top: bool = False) -> T:
        r = self.rng
        d = self.o.depth if depth is None else depth
        if d <= 0 or r.random() < 0.25:
            c = r.random()
            if c < 0.45:
                return self.scalar()
            if c < 0.75 and self.o.leaves:
                return self.leaf()
            if c < 0.85:
                return T(r.choice(["bytes", "bytearray"]))
            if c < 0.95 and self.o.classes:
                return self.enum_type()
            if self.o.any_ and r.random() < 0.5:
                return T("any")
            # a bare None annotation is rejected or treated specially in most positions (None-typed
            # positions never read their input); it is reachable only through Optional here
            return self.scalar()
        choices = list(self.o.containers if not self.o.coq_only else (COQ_CONTAINERS if self.o.abstract else COQ_CONTAINERS[:7]))
        if self.o.classes:
            choices += ["data", "data"]
        if self.o.named:
            choices += ["nt", "td"] + (["tupleu"] if self.o.unpacked else [])
        if self.o.unions:
            choices += ["union"]
        if self.o.literals:
            choices += ["lit"]
        k = r.choice(choices)
        if k in ("list", "seq", "deque", "tuplevar"):
            return T(k, [self.gen_type(d - 1)])
        if k in ("set", "frozenset"):
            return T(k, [self.elem_hashable_type(d - 1)])
        if k == "tuplefix":
            # Tuple[()] positions are constants that never read their input (modelled in TyModel.v as const
            # positions and exercised by the Coq correspondence); the wide oracle stream leaves them out
            return T(k, [self.const_type() if (self.o.coq_only and self.o.named and r.random() < 0.08) else self.gen_type(d - 1)
                         for _ in range(r.randrange(0 if self.o.coq_only else 1, 4))])
        if k == "tupleu":
            return self.tupleu_type(d)
        if k in ("dict", "mapping", "ordereddict", "chainmap", "mappingproxy"):
            return T(k, [self.key_type(), self.gen_type(d - 1)])
        if k == "counter":
            return T(k, [self.key_type()])
        if k == "defaultdict":
            return T(k, [self.key_type(), r.choice([T("int"), T("str"), T("list", [T("int")]), T("float")])])
        if k == "opt":
            inner = self.gen_type(d - 1)
            if inner.kind in ("opt", "none", "any"):
                inner = self.scalar()
            return T("opt", [inner])
        if k == "data":
            return self.dataclass_type(d - 1)
        if k == "nt":
            return self.namedtuple_type(d - 1)
        if k == "td":
            return self.typeddict_type(d - 1)
        if k == "union":
            return self.union_type(d - 1)
        if k == "lit":
            vals = r.sample([1, 2, "a", "b", "", True, None, 0], r.randrange(1, 4))
            # keep literals pairwise != under Python == (1 == True)
            out = []
            for v in vals:
                if not any(v == w and v is not w or (v == w) for w in out):
                    out.append(v)
            return T("lit", extra=out)
        raise AssertionError(k)

    def tupleu_type(self, d: int) -> T:
        r = self.rng
        np_ = r.randrange(0, 3)
        ns_ = r.randrange(0, 3)
        mode = r.choice(["var", "var", "fix"])
        nm = 1 if mode == "var" else r.randrange(0 if self.o.coq_only else 1, 3)
        # element types kept simple and mutually distinguishable on the wire
        mk = lambda: r.choice([self.scalar(), self.leaf(), T("opt", [self.scalar()]), T("list", [self.scalar()])])
        if self.o.coq_only:
            # Coq stream: any element type of the grammar, now and then a constant position (never reads its item)
            mk = lambda: self.const_type() if r.random() < 0.08 else self.gen_type(min(d - 1, 1))
        return T("tupleu", [mk() for _ in range(np_ + nm + ns_)], extra=(np_, mode, nm))

    def union_type(self, d: int) -> T:
        """wire-disjoint unions: members told apart by JSON type of their basic form"""
        r = self.rng
        pool = [T("int"), T("str"), T("list", [T("int")]), T("dict", [T("str"), T("int")]), T("bool"), T("float")]
        ms = r.sample(pool, r.randrange(2, 4))
        # int/float/bool coerce into each other only as fallbacks; exact-type check comes first
        return T("union", ms)

    def dataclass_type(self, d: int) -> T:
        r = self.rng
        existing = [c for c in self.fam.classes if c.kind == "data" and c.name not in self.open]
        if existing and r.random() < 0.3:
            return T("data", name=r.choice(existing).name)
        name = self.fresh("D")
        spec = ClassSpec("data", name, mixin=self.o.mixin, mixin_base=self.o.mixin_base)
        # reserve the name first so that recursive references are possible
        self.fam.classes.append(spec)
        self.open.add(name)
        nf = r.randrange(0 if r.random() < 0.1 else 1, self.o.max_fields + 1)
        seen_default = False
        for i in range(nf):
            if r.random() < 0.12:
                # self reference through Optional / List
                inner = T("data", name=name, extra="fwd")
                ft = T("opt", [inner]) if r.random() < 0.6 else T("list", [inner])
                fs = FieldSpec(f"f{i}", ft)
                if ft.kind == "opt":
                    fs.default, fs.default_src = None, "None"
                else:
                    fs.default_src = "field(default_factory=list)"
                    fs.default = "factory:list"
                seen_default = True
                spec.fields.append(fs)
                continue
            ft = self.gen_type(d)
            if ft.kind == "none":      # a bare None annotation on a dataclass field is rejected by design
                ft = self.scalar()
            fs = FieldSpec(f"f{i}", ft)
            if self.o.spellings and r.random() < 0.08:
                fs.final = True
            if seen_default or r.random() < 0.3:
                dv = self.simple_default(ft)
                if dv is not None:
                    fs.default, fs.default_src = dv
                    seen_default = True
                elif seen_default:
                    # need a default to stay a legal dataclass
                    fs.ty = T("opt", [ft]) if ft.kind not in ("opt", "none", "any") else ft
                    fs.default, fs.default_src = None, "None"
            spec.fields.append(fs)
        if self.o.configs and spec.fields and r.random() < 0.5:
            names = [f.name for f in spec.fields]
            wire = set()
            for f in spec.fields:
                c = r.random()
                cand = None
                if c < 0.25:
                    cand = r.choice(names)                     # spelled like (possibly another) field's name
                elif c < 0.5:
                    cand = r.choice([f"a_{f.name}", "alias", "None", "with space", "ünï", "d", "value", "kwargs"])
                if cand is not None and cand not in wire and cand != f.name:
                    f.alias = cand
                wire.add(f.alias or f.name)
            # wire keys must stay pairwise distinct, otherwise the configuration itself is lossy
            keys = [f.alias or f.name for f in spec.fields]
            if len(set(keys)) != len(keys):
                for f in spec.fields:
                    f.alias = None
            spec.config = {"serialize_by_alias": True}
            if r.random() < 0.5:
                spec.config["allow_deserialization_not_by_alias"] = True
            if r.random() < 0.4:
                spec.config["forbid_extra_keys"] = True
            if r.random() < 0.3:
                spec.config["sort_keys"] = True
        # the class must come after the classes it references, except itself: move to the end
        self.fam.classes.remove(spec)
        self.fam.classes.append(spec)
        self.open.discard(name)
        return T("data", name=name)

    def simple_default(self, t: T):
        r = self.rng
        if t.kind == "int":
            v = r.choice([0, 1, -7])
            return v, repr(v)
        if t.kind == "str":
            v = r.choice(["", "x", "dflt"])
            return v, repr(v)
        if t.kind == "bool":
            v = r.choice([True, False])
            return v, repr(v)
        if t.kind == "float":
            v = r.choice([0.0, 1.5])
            return v, repr(v)
        if t.kind == "opt" and t.args and r.random() < 0.5:
            inner = self.simple_default(t.args[0])          # Optional[T] = <non-None default>: explicit null must still win
            if inner is not None and not (isinstance(inner[0], str) and inner[0].startswith("factory:")):
                return inner
        if t.kind in ("opt", "none", "any"):
            return None, "None"
        if t.kind == "tuplefix" and t.args and all(a.kind in ("int", "str", "bool", "float") for a in t.args):
            inner = [self.simple_default(a) for a in t.args]     # immutable, so a plain default is legal
            v = tuple(x[0] for x in inner)
            return v, repr(v)
        if t.kind == "list":
            return "factory:list", "field(default_factory=list)"
        if t.kind == "dict":
            return "factory:dict", "field(default_factory=dict)"
        return None

    def const_type(self, d: int = 2) -> T:
        """a type whose unpacker expression is a constant (never reads its input): None, a fixed tuple of such types,
        a NamedTuple class without defaults all of whose fields are such types -- nested (Coq stream only)"""
        r = self.rng
        c = r.random()
        if d <= 0 or c < 0.4:
            return r.choice([T("none"), T("tuplefix", [])])
        if c < 0.7:
            return T("tuplefix", [self.const_type(d - 1) for _ in range(r.randrange(1, 3))])
        spec = ClassSpec("nt", self.fresh("N"))
        for i in range(r.randrange(0, 3)):
            spec.fields.append(FieldSpec(f"a{i}", self.const_type(d - 1)))
        if spec.fields and r.random() < 0.2 and not any(n.kind == "nt" for n in spec.fields[-1].ty.walk()):
            # decoy: with a default the generated expression is a helper call on value[i] -- NOT a constant
            spec.fields[-1].default, spec.fields[-1].default_src = self.const_default(spec.fields[-1].ty)
        self.fam.classes.append(spec)
        return T("nt", name=spec.name)

    def const_default(self, t: T):
        """(value, source) of the only instance of a constant type built from None and fixed tuples"""
        if t.kind == "none":
            return None, "None"
        parts = [self.const_default(a) for a in t.args]
        return tuple(p[0] for p in parts), "(" + "".join(p[1] + ", " for p in parts) + ")"

    def namedtuple_type(self, d: int) -> T:
        r = self.rng
        name = self.fresh("N")
        spec = ClassSpec("nt", name)
        for i in range(r.randrange(1, 4)):
            ft = self.gen_type(min(d, 1))
            if self.o.coq_only and r.random() < 0.1:
                ft = self.const_type()      # constant positions (never read their item), nested
            spec.fields.append(FieldSpec(f"a{i}", ft))
        # trailing defaults (decoding a shorter list falls back to them)
        for f in reversed(spec.fields):
            dv = self.simple_default(f.ty) if r.random() < 0.4 else None
            if dv is None or (isinstance(dv[0], str) and dv[0].startswith("factory:")):
                break
            f.default, f.default_src = dv
        self.fam.classes.append(spec)
        return T("nt", name=name)

    def typeddict_type(self, d: int) -> T:
        r = self.rng
        name = self.fresh("TD")
        spec = ClassSpec("td", name, total=r.random() < 0.7)
        mixed = r.random() < 0.35           # Required[...] / NotRequired[...] on single keys
        for i in range(r.randrange(0 if (self.o.coq_only and r.random() < 0.1) else 1, 4)):
            ft = self.gen_type(min(d, 1))
            if self.o.coq_only and r.random() < 0.1:
                # constant positions: a required key of such a type is never read from the input
                ft = self.const_type()
            fs = FieldSpec(f"k{i}", ft)
            if mixed and r.random() < 0.5:
                fs.optional = spec.total
            spec.fields.append(fs)
        self.fam.classes.append(spec)
        return T("td", name=name)


# ---------------------------------------------------------------------------
# conforming values
# ---------------------------------------------------------------------------

INTS = [0, 1, -1, 2, 7, -13, 255, 2 ** 31, -2 ** 31 - 1, 2 ** 63, 2 ** 70, -2 ** 70, 10 ** 18]
FLOATS = [0.0, -0.0, 1.5, -2.25, 1e-9, 3.141592653589793, 1e300, -1e-300, 2.0 ** 53, 123456.789, float("inf"), float("-inf")]
STRS = ["", "a", "abc", "Hello, World", "üñí", "line\nbreak", "quo\"te'", "0", "12", "null", "日本", "\U0001F600", " sp ", "True"]


class ValueGen:
    def __init__(self, rng, fam: Family, lossless: bool = True, max_len: int = 3):
        self.rng = rng
        self.fam = fam
        self.ns = fam.build()
        self.lossless = lossless
        self.max_len = max_len

    def leaf(self, kind: str):
        r = self.rng
        if kind == "datetime":
            tz = r.choice([None, None, datetime.timezone.utc,
                           datetime.timezone(datetime.timedelta(minutes=r.choice([330, -30, 1, -719, 840]))),
                           datetime.timezone(datetime.timedelta(seconds=r.choice([30, -3599, 12345])))])
            return datetime.datetime(r.choice([1, 1970, 2024, 9999]), r.randrange(1, 13), r.randrange(1, 29),
                                     r.randrange(24), r.randrange(60), r.randrange(60),
                                     r.choice([0, 0, 1, 999999, 500000]), tzinfo=tz)
        if kind == "date":
            return datetime.date(r.choice([1, 1969, 2024, 9999]), r.randrange(1, 13), r.randrange(1, 29))
        if kind == "time":
            tz = r.choice([None, None, datetime.timezone.utc, datetime.timezone(datetime.timedelta(minutes=-30))])
            return datetime.time(r.randrange(24), r.randrange(60), r.randrange(60), r.choice([0, 1, 999999]), tzinfo=tz)
        if kind == "timedelta":
            return datetime.timedelta(days=r.choice([0, 0, 1, -1, 9999, -500]), seconds=r.randrange(0, 86400),
                                      microseconds=r.choice([0, 0, 1, 999999, 500000]))
        if kind == "timezone":
            m = r.choice([0, 0, 30, -30, 1, -1, 59, -59, 60, -60, 330, -719, 1439, -1439, r.randrange(-1439, 1440)])
            return datetime.timezone(datetime.timedelta(minutes=m))
        if kind == "UUID":
            return uuid.UUID(int=r.getrandbits(128))
        if kind == "Decimal":
            return decimal.Decimal(r.choice(["0", "-0", "1.50", "1E+3", "-12345678901234567890.123456789", "0.1", "Infinity", "1e-30"]))
        if kind == "Fraction":
            return fractions.Fraction(r.randrange(-50, 50), r.randrange(1, 30))
        if kind == "IPv4Address":
            return ipaddress.IPv4Address(r.getrandbits(32))
        if kind == "IPv6Address":
            return ipaddress.IPv6Address(r.getrandbits(128))
        if kind == "IPv4Network":
            p = r.choice([0, 8, 24, 32])
            return ipaddress.IPv4Network((r.getrandbits(32) >> (32 - p) << (32 - p) if p else 0, p))
        if kind == "IPv6Network":
            p = r.choice([0, 64, 128])
            return ipaddress.IPv6Network((r.getrandbits(128) >> (128 - p) << (128 - p) if p else 0, p))
        if kind == "IPv4Interface":
            return ipaddress.IPv4Interface((r.getrandbits(32), r.choice([8, 24, 32])))
        if kind == "IPv6Interface":
            return ipaddress.IPv6Interface((r.getrandbits(128), r.choice([64, 128])))
        if kind == "Path":
            return pathlib.Path(r.choice(["", ".", "/", "a/b", "/usr/lib", "x/../y"]))
        if kind == "PurePosixPath":
            return pathlib.PurePosixPath(r.choice(["", ".", "/", "a/b", "/usr/lib", "rel/../x", "sp ace/ü"]))
        if kind == "Pattern":
            return re.compile(r.choice(["", "a+", r"\d{2}", "[a-z]*$", "(x|y)"]))
        raise ValueError(kind)

    def value(self, t: T, depth: int = 0):
        r = self.rng
        k = t.kind
        if k == "int":
            return r.choice(INTS)
        if k == "float":
            return r.choice(FLOATS)
        if k == "bool":
            return r.random() < 0.5
        if k == "str":
            return r.choice(STRS)
        if k in ("none",):
            return None
        if k == "any":
            return r.choice([None, 1, "s", [1, "a"], {"k": [1]}])
        if k == "bytes":
            return bytes(r.getrandbits(8) for _ in range(r.choice([0, 1, 2, 3, 57, 58])))
        if k == "bytearray":
            return bytearray(r.getrandbits(8) for _ in range(r.choice([0, 1, 5])))
        if k == "leaf":
            return self.leaf(t.name)
        if k == "enum":
            cls = self.ns[t.name]
            if issubclass(cls, enum.Flag) and r.random() < 0.5:
                ms = list(cls)
                v = ms[0]
                for m in r.sample(ms, r.randrange(1, len(ms) + 1)):
                    v = v | m
                return v
            return r.choice(list(cls))
        n = 0 if depth > 4 else r.choice([0, 1, 2, self.max_len])
        if k in ("list", "seq"):
            return [self.value(t.args[0], depth + 1) for _ in range(n)]
        if k == "deque":
            return collections.deque(self.value(t.args[0], depth + 1) for _ in range(n))
        if k == "tuplevar":
            return tuple(self.value(t.args[0], depth + 1) for _ in range(n))
        if k == "set":
            return set(self.hvalues(t.args[0], n, depth))
        if k == "frozenset":
            return frozenset(self.hvalues(t.args[0], n, depth))
        if k == "tuplefix":
            return tuple(self.value(a, depth + 1) for a in t.args)
        if k == "tupleu":
            np_, mode, nm = t.extra
            pre, mid, suf = t.args[:np_], t.args[np_:np_ + nm], t.args[np_ + nm:]
            mids = [self.value(mid[0], depth + 1) for _ in range(r.choice([0, 1, 2, 3]))] if mode == "var" else [self.value(a, depth + 1) for a in mid]
            return tuple([self.value(a, depth + 1) for a in pre] + mids + [self.value(a, depth + 1) for a in suf])
        if k in ("dict", "mapping"):
            return {kk: self.value(t.args[1], depth + 1) for kk in self.hvalues(t.args[0], n, depth)}
        if k == "mappingproxy":
            return types.MappingProxyType({kk: self.value(t.args[1], depth + 1) for kk in self.hvalues(t.args[0], n, depth)})
        if k == "counter":
            return collections.Counter({kk: r.choice([0, 1, 2, 7, -1]) for kk in self.hvalues(t.args[0], n, depth)})
        if k == "chainmap":
            return collections.ChainMap(*[{kk: self.value(t.args[1], depth + 1) for kk in self.hvalues(t.args[0], r.choice([0, 1, 2]), depth)}
                                          for _ in range(r.choice([1, 2, 3]))])
        if k == "defaultdict":
            dd = collections.defaultdict(None)
            for kk in self.hvalues(t.args[0], n, depth):
                dd[kk] = self.value(t.args[1], depth + 1)
            return dd
        if k == "ordereddict":
            return collections.OrderedDict((kk, self.value(t.args[1], depth + 1)) for kk in self.hvalues(t.args[0], n, depth))
        if k == "opt":
            if r.random() < 0.3:
                return None
            return self.value(t.args[0], depth)
        if k == "union":
            return self.value(r.choice(t.args), depth + 1)
        if k == "lit":
            return r.choice(t.extra)
        if k == "data":
            spec = self.fam.get(t.name)
            cls = self.ns[t.name]
            kw = {}
            for f in spec.fields:
                if f.ty.kind in ("opt", "list") and any(x.kind == "data" and x.name == t.name for x in f.ty.walk()):
                    if depth > 2 or r.random() < 0.5:
                        kw[f.name] = None if f.ty.kind == "opt" else []
                        continue
                if f.default is not NODEFAULT and r.random() < 0.25:
                    continue
                kw[f.name] = self.value(f.ty, depth + 1)
            return cls(**kw)
        if k == "nt":
            spec = self.fam.get(t.name)
            return self.ns[t.name](*[self.value(f.ty, depth + 1) for f in spec.fields])
        if k == "td":
            spec = self.fam.get(t.name)
            d = {}
            fields = list(spec.fields)
            if r.random() < 0.5:
                r.shuffle(fields)           # insertion order of the value is not the declaration order
            for f in fields:
                if not td_is_optional(spec, f) or r.random() < 0.7:
                    d[f.name] = self.value(f.ty, depth + 1)
            return d
        raise ValueError(k)

    def hvalues(self, t: T, n: int, depth: int) -> list:
        out = []
        for _ in range(n * 2):
            v = self.value(t, depth + 1)
            if isinstance(v, float) and v != v:
                continue
            if not any(v == w for w in out):
                out.append(v)
            if len(out) >= n:
                break
        return out


# ---------------------------------------------------------------------------
# equality with concrete types (C01: "built from the same concrete classes")
# ---------------------------------------------------------------------------

def same(a, b) -> bool:
    """a == b and the same concrete classes everywhere."""
    if type(a) is not type(b):
        return False
    if isinstance(a, float):
        return (a == b and math.copysign(1, a) == math.copysign(1, b)) or (a != a and b != b)
    if dataclasses.is_dataclass(a) and not isinstance(a, type):
        return all(same(getattr(a, f.name), getattr(b, f.name)) for f in dataclasses.fields(a))
    if isinstance(a, (list, tuple, collections.deque)):
        return len(a) == len(b) and all(same(x, y) for x, y in zip(a, b))
    if isinstance(a, (set, frozenset)):
        if len(a) != len(b):
            return False
        return all(any(same(x, y) for y in b) for x in a)
    if isinstance(a, collections.ChainMap):
        return same(a.maps, b.maps)
    if isinstance(a, (dict, types.MappingProxyType)):
        if len(a) != len(b):
            return False
        for k, v in a.items():
            hit = [kk for kk in b if same(kk, k)]
            if not hit or not same(v, b[hit[0]]):
                return False
        return True
    return a == b


def same_ordered(a, b) -> bool:
    """same() and, in addition, equal key order of every mapping (C02: key and field order are part of the form)"""
    if not same(a, b):
        return False
    if isinstance(a, dict):
        return [k for k in a] == [k for k in b] and all(same_ordered(a[k], b[k]) for k in a)
    if isinstance(a, (list, tuple)):
        return all(same_ordered(x, y) for x, y in zip(a, b))
    return True


def is_basic(x, allow_any=False) -> bool:
    if x is None or type(x) in (str, int, float, bool):
        return True
    if type(x) is list:
        return all(is_basic(i) for i in x)
    if type(x) is dict:
        return all(type(k) in (str, int, float, bool, type(None)) and is_basic(v) for k, v in x.items())
    return False


# ---------------------------------------------------------------------------
# Coq emission (TyModel.v grammar)
# ---------------------------------------------------------------------------

from harness.vlib import coq_str, coq_z  # noqa: E402


def in_coq(t: T, fam: Family, seen=None) -> bool:
    seen = seen or set()
    for n in t.walk():
        if n.kind == "union":
            return False
        if n.kind == "lit" and not all(v is None or type(v) in (int, str, bool) for v in n.extra):
            return False
        if n.kind == "leaf" and n.name == "timezone":
            pass
        if n.kind == "enum" and fam.get(n.name).base in ("Flag", "IntFlag"):
            return False
        if n.kind in ("data", "nt", "td") and n.name not in seen:
            seen.add(n.name)
            for f in fam.get(n.name).fields:
                if isinstance(f.default, str) and f.default.startswith("factory:"):
                    pass
                if not in_coq(f.ty, fam, seen):
                    return False
    return True


def coq_sty(t: T) -> str:
    k = t.kind
    m = {"any": "SAny", "none": "SNoneT", "int": "SIntT", "float": "SFloatT", "bool": "SBoolT", "str": "SStrT",
         "bytes": "(SBytes false)", "bytearray": "(SBytes true)"}
    if k in m:
        return m[k]
    if k == "leaf":
        return f"(SLeaf {coq_str(t.name)})"
    if k == "enum":
        return f"(SEnum {coq_str(t.name)})"
    a = [coq_sty(x) for x in t.args]
    if k == "list":
        return f"(SList {a[0]})"
    if k == "set":
        return f"(SSet false {a[0]})"
    if k == "frozenset":
        return f"(SSet true {a[0]})"
    if k == "tuplevar":
        return f"(STupleVar {a[0]})"
    if k == "tuplefix":
        return "(STupleFix [" + "; ".join(a) + "])"
    if k == "tupleu":
        np_, mode, nm = t.extra
        pre, mid, suf = a[:np_], a[np_:np_ + nm], a[np_ + nm:]
        m = f"(STupleVar {mid[0]})" if mode == "var" else "(STupleFix [" + "; ".join(mid) + "])"
        return "(STupleU [" + "; ".join(pre) + "] " + m + " [" + "; ".join(suf) + "])"
    if k == "dict":
        return f"(SDict {a[0]} {a[1]})"
    if k == "lit":
        return "(SLit [" + "; ".join(coq_pv(v) for v in t.extra) + "])"
    if k == "seq":
        return f"(SSeq {a[0]})"
    if k == "deque":
        return f"(SBox BDeque (SSeq {a[0]}))"
    if k == "mapping":
        return f"(SMap {a[0]} {a[1]})"
    if k == "ordereddict":
        return f"(SBox BOrdered (SMap {a[0]} {a[1]}))"
    if k == "defaultdict":
        return f"(SBox BDefault (SMap {a[0]} {a[1]}))"
    if k == "mappingproxy":
        return f"(SBox BProxy (SMap {a[0]} {a[1]}))"
    if k == "counter":
        return f"(SBox BCounter (SMap {a[0]} SIntT))"
    if k == "chainmap":
        return f"(SBox BChain (SSeq (SMap {a[0]} {a[1]})))"
    if k == "opt":
        return f"(SOpt {a[0]})"
    if k == "data":
        return f"(SData {coq_str(t.name)})"
    if k == "nt":
        return f"(SNamed {coq_str(t.name)})"
    if k == "td":
        return f"(STyped {coq_str(t.name)})"
    raise ValueError(k)


def coq_fl(x: float) -> str:
    if x != x:
        return "FNan"
    if x == float("inf"):
        return "(FInf false)"
    if x == float("-inf"):
        return "(FInf true)"
    if x == 0 and math.copysign(1, x) < 0:
        return "FNegZero"
    m, d = x.as_integer_ratio()          # x = m / d, d a power of two
    e = -(d.bit_length() - 1)
    while m and m % 2 == 0:
        m //= 2
        e += 1
    if m == 0:
        e = 0
    return f"(FNum {coq_z(m)} {coq_z(e)})"


def coq_pv(v, seen_leaf=None) -> str:
    """Coq term of type Core.pv for a Python value (value-directed)."""
    if v is None:
        return "VNone"
    if v is True or v is False:
        return f"(VBool {'true' if v else 'false'})"
    if isinstance(v, enum.Enum):
        return f"(VEnum {coq_str(type(v).__name__)} {coq_str(v.name)})"
    if type(v) is int:
        return f"(VInt {coq_z(v)})"
    if type(v) is float:
        return f"(VFloat {coq_fl(v)})"
    if type(v) is str:
        return f"(VStr {coq_str(v)})"
    if type(v) in (bytes, bytearray):
        return f"(VBytes {'true' if type(v) is bytearray else 'false'} {coq_str(bytes(v))})"
    if type(v) is list:
        return "(VList [" + "; ".join(coq_pv(x) for x in v) + "])"
    if type(v) is tuple:
        return "(VTuple [" + "; ".join(coq_pv(x) for x in v) + "])"
    if isinstance(v, tuple) and hasattr(type(v), "_fields"):
        return f"(VNT {coq_str(type(v).__name__)} [" + "; ".join(coq_pv(x) for x in v) + "])"
    if type(v) in (set, frozenset):
        items = [coq_pv(x) for x in v]       # iteration order (PYTHONHASHSEED is fixed by ./check)
        return f"(VSet {'true' if type(v) is frozenset else 'false'} [" + "; ".join(items) + "])"
    if type(v) is dict:
        return "(VDict [" + "; ".join(f"({coq_pv(k)}, {coq_pv(x)})" for k, x in v.items()) + "])"
    # collection classes modelled as a box around their list / dict content (TyModel.box_val)
    box = {collections.deque: "collections.deque", collections.OrderedDict: "collections.OrderedDict",
           collections.defaultdict: "collections.defaultdict", types.MappingProxyType: "types.MappingProxyType",
           collections.Counter: "collections.Counter", collections.ChainMap: "collections.ChainMap"}.get(type(v))
    if box:
        if type(v) is collections.deque:
            inner = coq_pv(list(v))
        elif type(v) is collections.ChainMap:
            # ChainMap() is ChainMap({}): the canonical empty ChainMap is represented by the empty list of maps
            inner = coq_pv([] if v.maps == [{}] else [dict(m) if type(m) is not dict else m for m in v.maps])
        else:
            inner = coq_pv(dict(v.items()))
        return f"(VObj {coq_str(box)} [({coq_str('')}, {inner})])"
    if dataclasses.is_dataclass(v) and not isinstance(v, type):
        fs = "; ".join(f"({coq_str(f.name)}, {coq_pv(getattr(v, f.name))})" for f in dataclasses.fields(v))
        return f"(VObj {coq_str(type(v).__name__)} [{fs}])"
    kind = leaf_kind(v)
    if kind:
        return f"(VLeaf {coq_str(kind)} {coq_str(leaf_text(v))})"
    return f"(VOther {coq_str(type(v).__name__)})"


def leaf_kind(v) -> str | None:
    if isinstance(v, pathlib.Path):
        return "Path"
    for k, path in LEAF_PY.items():
        mod, name = path.split(".")
        cls = getattr(sys.modules[mod], name)
        if type(v) is cls or (k == "PurePosixPath" and isinstance(v, pathlib.PurePosixPath)):
            return k
    return None


def leaf_text(v) -> str:
    """canonical text identifying a leaf value (its repr)"""
    return repr(v)


def coq_senv(fam: Family, names: list[str]) -> str:
    out = []
    for n in names:
        c = fam.get(n)
        fs = []
        for f in c.fields:
            if f.default is NODEFAULT:
                d = "None"
            elif f.default == "factory:list":
                d = "(Some (VList []))"
            elif f.default == "factory:dict":
                d = "(Some (VDict []))"
            else:
                d = f"(Some {coq_pv(f.default)})"
            o = "true" if (c.kind == "td" and td_is_optional(c, f)) else "false"
            fs.append(f"{{| sf_name := {coq_str(f.name)}; sf_ty := {coq_sty(f.ty)}; sf_default := {d}; sf_opt := {o} |}}")
        kd = {"data": "KData", "nt": "KNamed", "td": "KTyped"}[c.kind]
        out.append(f"{{| sc_kind := {kd}; sc_name := {coq_str(n)}; sc_fields := [" + "; ".join(fs) + "] |}")
    return "[" + ";\n   ".join(out) + "]"


def reachable_classes(t: T, fam: Family) -> tuple[list[str], list[str]]:
    """(dataclass / NamedTuple / TypedDict names, enum names) reachable from t"""
    dcs: list[str] = []
    ens: list[str] = []

    def go(x: T):
        for n in x.walk():
            if n.kind in ("data", "nt", "td") and n.name not in dcs:
                dcs.append(n.name)
                for f in fam.get(n.name).fields:
                    go(f.ty)
            if n.kind == "enum" and n.name not in ens:
                ens.append(n.name)
    go(t)
    return dcs, ens


# ---------------------------------------------------------------------------
# eval-able source of a value (for replay files)
# ---------------------------------------------------------------------------

def py_src(v) -> str:
    if isinstance(v, enum.Enum):
        return f"{type(v).__name__}.{v.name}"
    if isinstance(v, float):
        if v != v:
            return "nan"
        if v in (float("inf"), float("-inf")):
            return "inf" if v > 0 else "-inf"
        return repr(v)
    if dataclasses.is_dataclass(v) and not isinstance(v, type):
        return f"{type(v).__name__}(" + ", ".join(f"{f.name}={py_src(getattr(v, f.name))}" for f in dataclasses.fields(v)) + ")"
    if isinstance(v, tuple) and hasattr(v, "_fields"):
        return f"{type(v).__name__}(" + ", ".join(py_src(x) for x in v) + ")"
    if type(v) is list:
        return "[" + ", ".join(py_src(x) for x in v) + "]"
    if type(v) is tuple:
        return "(" + ", ".join(py_src(x) for x in v) + ("," if len(v) == 1 else "") + ")"
    if type(v) is set:
        return "{" + ", ".join(py_src(x) for x in v) + "}" if v else "set()"
    if type(v) is frozenset:
        return "frozenset([" + ", ".join(py_src(x) for x in v) + "])"
    if type(v) is collections.deque:
        return "deque([" + ", ".join(py_src(x) for x in v) + "])"
    if type(v) is collections.OrderedDict:
        return "OrderedDict([" + ", ".join(f"({py_src(k)}, {py_src(x)})" for k, x in v.items()) + "])"
    if type(v) is types.MappingProxyType:
        return "MappingProxyType({" + ", ".join(f"{py_src(k)}: {py_src(x)}" for k, x in v.items()) + "})"
    if type(v) is collections.defaultdict:
        return "defaultdict(None, {" + ", ".join(f"{py_src(k)}: {py_src(x)}" for k, x in v.items()) + "})"
    if type(v) is collections.ChainMap:
        return "ChainMap(" + ", ".join(py_src(m) for m in v.maps) + ")"
    if type(v) is collections.Counter:
        return "Counter({" + ", ".join(f"{py_src(k)}: {py_src(x)}" for k, x in v.items()) + "})"
    if isinstance(v, dict):
        return "{" + ", ".join(f"{py_src(k)}: {py_src(x)}" for k, x in v.items()) + "}"
    return repr(v)


def replay_generic(rep: dict) -> int:
    """re-run a recorded case against the implementation; 1 = the failure reproduces"""
    ns = build_module(rep["source"])
    ty = eval(rep["type"], dict(ns)) if rep.get("type") else None
    if rep.get("type") == "None":
        ty = type(None)
    val = eval(rep["input_src"], dict(ns)) if "input_src" in rep else None
    from mashumaro.codecs.basic import BasicDecoder, BasicEncoder
    entry = rep["entry"]
    try:
        if entry == "codec_encode":
            got = BasicEncoder(ty).encode(val)
        elif entry == "codec_decode":
            got = BasicDecoder(ty).decode(val)
        elif entry == "codec_roundtrip":
            got = BasicDecoder(ty).decode(BasicEncoder(ty).encode(val))
        elif entry in ("codec_encode_as_dict", "codec_decode_as_dict", "codec_roundtrip_as_dict"):
            from mashumaro.dialect import Dialect as _Dialect

            class _AsDict(_Dialect):
                namedtuple_as_dict = True
            if entry == "codec_encode_as_dict":
                got = BasicEncoder(ty, default_dialect=_AsDict).encode(val)
            elif entry == "codec_decode_as_dict":
                got = BasicDecoder(ty, default_dialect=_AsDict).decode(val)
            else:
                got = BasicDecoder(ty, default_dialect=_AsDict).decode(BasicEncoder(ty, default_dialect=_AsDict).encode(val))
        elif entry == "mixin_to_dict":
            got = val.to_dict()
        elif entry == "mixin_from_dict":
            got = ty.from_dict(val)
        elif entry == "mixin_roundtrip":
            got = type(val).from_dict(val.to_dict())
        else:
            print("unknown entry", entry)
            return 2
        obs = "ok:" + py_src(got)
    except Exception as e:
        obs = f"exc:{type(e).__name__}"
    print("entry   :", entry, rep.get("type"))
    print("input   :", rep.get("input_src"))
    print("observed:", obs)
    print("expected:", rep.get("expected"))
    if obs != rep.get("expected"):
        print("REPRODUCED (observed differs from the expected outcome)")
        return 1
    print("not reproduced")
    return 0
