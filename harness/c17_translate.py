"""C17: fail-closed translation of a captured generated program (Python `ast`) into the Coq AST
of coq/theories/Closed.v.  Anything outside the subset raises Unsupported: for that program
closedness is then *not shown* (never silently accepted).

Names are interned per shard (name -> N); only equality of names matters for closedness."""
from __future__ import annotations

import ast


class Unsupported(Exception):
    pass


class Interner:
    def __init__(self):
        self.ids: dict[str, int] = {}

    def __call__(self, name: str) -> int:
        i = self.ids.get(name)
        if i is None:
            i = len(self.ids) + 1
            self.ids[name] = i
        return i

    def lst(self, names) -> str:
        return "[" + "; ".join(str(self(n)) for n in names) + "]"


def econs(parts: list[str]) -> str:
    parts = [p for p in parts if p != "ENil"]
    if not parts:
        return "ENil"
    out = parts[-1]
    for p in reversed(parts[:-1]):
        out = f"(ECons {p} {out})"
    return out


class Tr:
    def __init__(self, intern: Interner):
        self.n = intern

    # ---- binding targets
    def target(self, t) -> tuple[list[str], list[str]]:
        """-> (names bound, expressions evaluated by the target)"""
        if isinstance(t, ast.Name):
            return [t.id], []
        if isinstance(t, (ast.Tuple, ast.List)):
            ns, es = [], []
            for el in t.elts:
                a, b = self.target(el)
                ns += a
                es += b
            return ns, es
        if isinstance(t, ast.Starred):
            return self.target(t.value)
        if isinstance(t, ast.Attribute):
            return [], [self.expr(t.value)]
        if isinstance(t, ast.Subscript):
            return [], [self.expr(t.value), self.expr(t.slice)]
        raise Unsupported(f"assignment target {type(t).__name__}")

    def comp_target(self, t) -> list[str]:
        ns, es = self.target(t)
        if es:
            raise Unsupported("comprehension target with sub-expressions")
        return ns

    # ---- expressions
    def expr(self, e) -> str:
        if e is None:
            return "ENil"
        if isinstance(e, ast.Name):
            if not isinstance(e.ctx, ast.Load):
                raise Unsupported("name in non-load context inside an expression")
            return f"(ELoad {self.n(e.id)})"
        if isinstance(e, ast.Constant):
            return "ENil"
        if isinstance(e, ast.Attribute):
            attrs = []
            cur = e
            while isinstance(cur, ast.Attribute):
                attrs.append(cur.attr)
                cur = cur.value
            if isinstance(cur, ast.Name):
                if not isinstance(cur.ctx, ast.Load):
                    raise Unsupported("attribute chain rooted at a non-load name")
                return f"(EAttr {self.n(cur.id)} {self.n.lst(attrs[::-1])})"
            return self.expr(cur)
        if isinstance(e, ast.Subscript):
            return econs([self.expr(e.value), self.expr(e.slice)])
        if isinstance(e, ast.Slice):
            return econs([self.expr(e.lower), self.expr(e.upper), self.expr(e.step)])
        if isinstance(e, ast.Call):
            return econs([self.expr(e.func)] + [self.expr(a) for a in e.args] + [self.expr(k.value) for k in e.keywords])
        if isinstance(e, ast.Starred):
            return self.expr(e.value)
        if isinstance(e, ast.BinOp):
            return econs([self.expr(e.left), self.expr(e.right)])
        if isinstance(e, ast.UnaryOp):
            return self.expr(e.operand)
        if isinstance(e, ast.BoolOp):
            return econs([self.expr(v) for v in e.values])
        if isinstance(e, ast.Compare):
            return econs([self.expr(e.left)] + [self.expr(c) for c in e.comparators])
        if isinstance(e, ast.IfExp):
            return econs([self.expr(e.test), self.expr(e.body), self.expr(e.orelse)])
        if isinstance(e, (ast.Tuple, ast.List, ast.Set)):
            return econs([self.expr(x) for x in e.elts])
        if isinstance(e, ast.Dict):
            return econs([self.expr(k) for k in e.keys if k is not None] + [self.expr(v) for v in e.values])
        if isinstance(e, ast.JoinedStr):
            return econs([self.expr(v) for v in e.values])
        if isinstance(e, ast.FormattedValue):
            return econs([self.expr(e.value), self.expr(e.format_spec)])
        if isinstance(e, (ast.ListComp, ast.SetComp)):
            return self.comp(e.generators, [e.elt])
        if isinstance(e, ast.DictComp):
            return self.comp(e.generators, [e.key, e.value])
        # GeneratorExp (lazy), Lambda, NamedExpr, Await, Yield, ...: outside the subset
        raise Unsupported(f"expression {type(e).__name__}")

    def comp(self, gens, elts) -> str:
        if any(g.is_async for g in gens):
            raise Unsupported("async comprehension")
        first = self.expr(gens[0].iter)
        items: list[tuple[str, str]] = []
        for i, g in enumerate(gens):
            if i > 0:
                items.append(("E", self.expr(g.iter)))
            items.append(("B", self.n.lst(self.comp_target(g.target))))
            for c in g.ifs:
                items.append(("E", self.expr(c)))
        for el in elts:
            items.append(("E", self.expr(el)))
        c = "CEnd"
        for kind, txt in reversed(items):
            if kind == "B":
                c = f"(CBind {txt} {c})"
            elif txt != "ENil":
                c = f"(CEval {txt} {c})"
        return f"(EComp {first} {c})"

    # ---- statements
    def block(self, stmts) -> str:
        if not stmts:
            return "SPass"
        parts = [self.stmt(s) for s in stmts]
        out = parts[-1]
        for p in reversed(parts[:-1]):
            out = f"(SSeq {p} {out})"
        return out

    def stmt(self, s) -> str:
        if isinstance(s, ast.Pass):
            return "SPass"
        if isinstance(s, ast.Break):
            return "SBreak"
        if isinstance(s, ast.Continue):
            return "SContinue"
        if isinstance(s, ast.Expr):
            return f"(SExpr {self.expr(s.value)})"
        if isinstance(s, ast.Assign):
            names, es = [], []
            for t in s.targets:
                a, b = self.target(t)
                names += a
                es += b
            return f"(SAssign {self.n.lst(names)} {econs([self.expr(s.value)] + es)})"
        if isinstance(s, ast.AugAssign):
            if isinstance(s.target, ast.Name):
                return f"(SAssign {self.n.lst([s.target.id])} {econs([f'(ELoad {self.n(s.target.id)})', self.expr(s.value)])})"
            a, b = self.target(s.target)
            return f"(SExpr {econs(b + [self.expr(s.value)])})"
        if isinstance(s, ast.Return):
            return f"(SReturn {self.expr(s.value)})"
        if isinstance(s, ast.Raise):
            return f"(SRaise {econs([self.expr(s.exc), self.expr(s.cause)])})"
        if isinstance(s, ast.If):
            return f"(SIf {self.expr(s.test)} {self.block(s.body)} {self.block(s.orelse)})"
        if isinstance(s, ast.For):
            names, es = self.target(s.target)
            return f"(SFor {self.n.lst(names)} {econs([self.expr(s.iter)] + es)} {self.block(s.body)} {self.block(s.orelse)})"
        if isinstance(s, ast.Try):
            hs = "HNil"
            for h in reversed(s.handlers):
                asn = f"(Some {self.n(h.name)})" if h.name else "None"
                hs = f"(HCons {self.expr(h.type)} {asn} {self.block(h.body)} {hs})"
            return f"(STry {self.block(s.body)} {hs} {self.block(s.orelse)} {self.block(s.finalbody)})"
        # While, With, Delete, Global, Nonlocal, Import, ClassDef, Assert, Match, nested FunctionDef,
        # AnnAssign, TryStar, async ...: outside the subset
        raise Unsupported(f"statement {type(s).__name__}")

    def fundef(self, f: ast.FunctionDef) -> str:
        a = f.args
        if f.returns is not None or any(x.annotation is not None for x in a.posonlyargs + a.args + a.kwonlyargs) \
                or (a.vararg and a.vararg.annotation) or (a.kwarg and a.kwarg.annotation):
            raise Unsupported("annotations in a generated signature")
        for node in ast.walk(f):
            if node is not f and isinstance(node, (ast.FunctionDef, ast.AsyncFunctionDef, ast.Lambda, ast.ClassDef,
                                                   ast.Global, ast.Nonlocal, ast.NamedExpr, ast.GeneratorExp,
                                                   ast.Yield, ast.YieldFrom, ast.Await)):
                raise Unsupported(f"{type(node).__name__} inside a generated function")
        params = [x.arg for x in a.posonlyargs + a.args]
        if a.vararg:
            params.append(a.vararg.arg)
        params += [x.arg for x in a.kwonlyargs]
        if a.kwarg:
            params.append(a.kwarg.arg)
        pre = econs([self.expr(d) for d in f.decorator_list] + [self.expr(d) for d in a.defaults]
                    + [self.expr(d) for d in a.kw_defaults if d is not None])
        return f"(mkFun {self.n(f.name)} {pre} {self.n.lst(params)} {self.block(f.body)})"

    def program(self, code: str) -> str:
        tree = ast.parse(code)
        items = []
        for s in tree.body:
            if isinstance(s, ast.FunctionDef):
                items.append(f"IDef {self.fundef(s)}")
            elif isinstance(s, (ast.AsyncFunctionDef, ast.ClassDef)):
                raise Unsupported(type(s).__name__)
            else:
                items.append(f"IStmt {self.stmt(s)}")
        return "[" + ";\n    ".join(items) + "]"


HEADER = """From Coq Require Import List NArith Bool.
From Verif Require Import Wire Closed ClosedProofs Binding.
Import ListNotations.
Open Scope N_scope.
"""


def shard_file(progs: list[dict], attr_cases: list[tuple[list, list]], builtin_names: list[str], heaps: dict) -> tuple[str, list[int], dict]:
    """progs: [{"code", "gnames", "gnames_pre", "lnames_pre", "schema", "glob_f", "glob_m", "expect", "assembly"}];
    heaps: schema key -> [[oid, kind, [[attr, oid], ...]], ...]
    -> (text of the .v file, indices translated, info)"""
    it = Interner()
    tr = Tr(it)
    ns_defs: dict[tuple, str] = {}
    ns_lines = []
    oids: dict[tuple, int] = {}

    def O(schema, local) -> int:
        k = (schema, local)
        i = oids.get(k)
        if i is None:
            i = len(oids) + 1
            oids[k] = i
        return i

    def ns_ref(names) -> str:
        key = tuple(sorted(set(names)))
        r = ns_defs.get(key)
        if r is None:
            r = f"ns{len(ns_defs)}"
            ns_defs[key] = r
        return r

    def emit_ns():
        # the name sets of a shard share most of their members (builtins + the builder module's own globals):
        # write the common part once (list concatenation; membership is unchanged)
        keys = list(ns_defs.keys())
        base = set(keys[0]).intersection(*map(set, keys[1:])) if keys else set()
        ns_lines.append(f"Definition nsbase : list N := {it.lst(sorted(base))}.")
        for key, r in ns_defs.items():
            ns_lines.append(f"Definition {r} : list N := {it.lst([n for n in key if n not in base])} ++ nsbase.")

    heap_names: dict = {}
    heap_lines = []

    def heap_ref(schema) -> str:
        r = heap_names.get(schema)
        if r is None:
            r = f"heap{len(heap_names)}"
            heap_names[schema] = r
            ents = []
            for o, kind, attrs in heaps.get(schema, []):
                al = "; ".join(f"({it(a)}, {O(schema, t)})" for a, t in attrs)
                ents.append(f"({O(schema, o)}, mkObj {kind} [{al}])")
            heap_lines.append(f"Definition {r} : list (N * obj) := [" + ";\n  ".join(ents) + "].")
        return r

    def gmap(schema, d) -> str:
        return "[" + "; ".join(f"({it(n)}, {O(schema, o)})" for n, o in (d.items() if isinstance(d, dict) else d)) + "]"

    untranslated = {}
    lines = []
    ok_idx = []
    bcases = []
    bkeys = []
    ascases: dict[str, int] = {}
    askeys = []
    for i, p in enumerate(progs):
        try:
            term = tr.program(p["code"])
        except Unsupported as e:
            untranslated[i] = str(e)
            continue
        except SyntaxError as e:
            untranslated[i] = "SyntaxError: " + str(e)
            continue
        sk = p["schema"]
        nf = ns_ref(list(p["gnames"]) + builtin_names)
        nm = ns_ref(list(p["gnames_pre"]) + list(p["lnames_pre"]) + builtin_names)
        h = heap_ref(sk)
        wf = f"(mkW {gmap(sk, p.get('glob_f', {}))} {h})"
        wm = f"(mkW {gmap(sk, p.get('glob_m', {}))} {h})"
        lines.append(f"Definition p{i} : program :=\n   {term}.")
        ok_idx.append((i, nm, nf, wm, wf))
        if p.get("expect"):
            ex = "[" + "; ".join(f"({it(r)}, {it.lst(path)}, {O(sk, c)})" for r, path, c in p["expect"]) + "]"
            g0 = gmap(sk, (p.get("assembly") or {}).get("g0", []))
            bcases.append(f"({wf}, {g0}, {ex})")
            bkeys.append(i)
        a = p.get("assembly")
        if a:
            txt = f"({gmap(sk, a['g0'])}, {gmap(sk, a['imps'])}, {gmap(sk, a['real'])})"
            if txt not in ascases:
                ascases[txt] = i
                askeys.append(i)
    emit_ns()
    txt = HEADER + "\n".join(ns_lines) + "\n" + "\n".join(heap_lines) + "\n" + "\n".join(lines) + "\n"
    txt += "Definition cases : list pcase :=\n  [" + ";\n   ".join(f"mkCase {nm} {nf} {wm} {wf} p{i}" for i, nm, nf, wm, wf in ok_idx) + "].\n"
    # holder attributes: reads vs sets, per schema
    acs = []
    for reads, sets in attr_cases:
        rl = "[" + "; ".join(f"({it(a)}, {it(b)})" for a, b in reads) + "]"
        sl = "[" + "; ".join(f"({it(a)}, {it(b)})" for a, b in sets) + "]"
        acs.append(f"({rl}, {sl})")
    txt += "Definition acases : list (list (N * N) * list (N * N)) :=\n  [" + ";\n   ".join(acs) + "].\n"
    txt += "Definition aok (c : list (N * N) * list (N * N)) : bool := attrs_closed (fst c) (snd c).\n"
    # identity binding: the rendered chain of every schema class a program mentions reaches that very class,
    # whenever the renderings are injective (domain predicate evaluated here, in Coq)
    txt += "Definition bcases : list (world * gmap * list expectation) :=\n  [" + ";\n   ".join(bcases) + "].\n"
    txt += "Definition bdom (c : world * gmap * list expectation) : bool := inj_ok (snd c) && roots_fresh (snd (fst c)) (snd c).\nDefinition bok (c : world * gmap * list expectation) : bool := negb (bdom c) || binding_ok (fst (fst c)) (snd c).\n"
    # namespace assembly: model (setdefault over the recorded imports) vs the function's real __globals__
    txt += "Definition ascases : list (gmap * list (name * N) * gmap) :=\n  [" + ";\n   ".join(ascases.keys()) + "].\n"
    txt += "Definition asok (c : gmap * list (name * N) * gmap) : bool := assembly_ok (fst (fst c)) (snd (fst c)) (snd c).\n"
    # kernel-checked statements for this shard (coqc fails if any case is rejected); the number of programs outside the
    # domain of the binding theorem is printed
    lemma = ("Lemma shard_closed : bad_idx case_ok cases = [] /\\ bad_idx aok acases = [] /\\ bad_idx bok bcases = [] /\\ bad_idx asok ascases = [].\n"
             "Proof. split; [| split; [| split]]; vm_compute; reflexivity. Qed.\n"
             "Definition shard_programs_never_raise_NameError := shard_sound cases (proj1 shard_closed).\n"
             "Eval vm_compute in (bad_idx bdom bcases).\n")
    # diagnosis (compiled only when the lemma fails): which cases are rejected
    diag = ("Eval vm_compute in (bad_idx case_ok cases).\nEval vm_compute in (bad_idx aok acases).\n"
            "Eval vm_compute in (bad_idx bok bcases).\nEval vm_compute in (bad_idx bdom bcases).\n"
            "Eval vm_compute in (bad_idx asok ascases).\n")
    info_extra = {"diag": txt + diag}
    txt = txt + lemma
    return txt, [i for i, *_ in ok_idx], {"untranslated": untranslated, "names": len(it.ids), "ns_defs": len(ns_defs),
                                          "bkeys": bkeys, "askeys": askeys, "objects": len(oids), **info_extra}
