"""C17: independent reading of typing objects into the rty grammar of coq/theories/Render.v (model of
mashumaro's type_name).  Returns a Coq term, or None for types outside the modelled grammar
(TypeVar, Unpack, ForwardRef, ParamSpec, Callable ...)."""
from __future__ import annotations

import enum
import keyword
import types
import typing

from harness.vlib import coq_str

NoneType = type(None)


def _s(x: str) -> str:
    return coq_str(x)


def _lit_repr(v) -> str:
    for base in (bool, int, str, bytes):
        if isinstance(v, base):
            return base.__repr__(v)
    return repr(v)


def _flat_literal(t):
    out = []
    for v in t.__args__:
        if typing.get_origin(v) is typing.Literal:
            out.extend(_flat_literal(v))
        else:
            out.append(v)
    return out


def _named(t) -> str | None:
    mod = getattr(t, "__module__", None)
    qn = getattr(t, "__qualname__", None)
    if isinstance(t, typing.TypeAliasType):
        qn = t.__name__
    if not isinstance(mod, str) or not isinstance(qn, str):
        return None
    if mod == "builtins":
        return f"(RBuiltin {_s(qn)})"
    return f"(RNamed {_s(mod)} {_s(qn)})"


def _plain_name(t) -> str | None:
    """module.qualname text of a class (for enum members of a Literal)"""
    mod, qn = getattr(t, "__module__", None), getattr(t, "__qualname__", None)
    if not isinstance(mod, str) or not isinstance(qn, str):
        return None
    return qn if mod == "builtins" else f"{mod}.{qn}"


def _generic_name(t) -> str | None:
    name = getattr(t, "_name", None)
    if name is None:
        origin = getattr(t, "__origin__", t)
        if origin is t:
            return _plain_name(t)
        return _generic_name(origin)
    return f"{t.__module__}.{name}"


def to_rty(t, depth: int = 0) -> str | None:
    if depth > 8:
        return None
    if t is None:
        return "RNoneArg"
    if t is NoneType:
        return "RNoneType"
    if t is Ellipsis:
        return "REllipsis"
    if t is typing.Any:
        return "RAny"
    if isinstance(t, (typing.TypeVar, typing.ForwardRef, str)) or type(t).__name__ in ("ParamSpec", "TypeVarTuple"):
        return None
    origin = typing.get_origin(t)
    if origin is typing.Annotated:
        return to_rty(t.__origin__, depth + 1)
    if origin is typing.Union or origin is types.UnionType:
        args = typing.get_args(t)
        if len(args) == 2 and NoneType in args:
            other = args[0] if args[1] is NoneType else args[1]
            a = to_rty(other, depth + 1)
            return None if a is None else f"(ROptional {a})"
        parts = [to_rty(a, depth + 1) for a in args]
        if any(p is None for p in parts):
            return None
        return "(RUnion [" + "; ".join(parts) + "])"
    if origin is typing.Literal:
        items = []
        for v in _flat_literal(t):
            if isinstance(v, enum.Enum):
                en = _plain_name(type(v))
                if en is None:
                    return None
                plain = v.name.isascii() and v.name.isidentifier() and not keyword.iskeyword(v.name)
                items.append(f"(LEnum {_s(en)} {_s(v.name if plain else repr(v.name))} {'true' if plain else 'false'})")
            elif isinstance(v, (int, str, bytes, bool, NoneType)):
                items.append(f"(LRaw {_s(_lit_repr(v))})")
            else:
                return None
        return f"(RLiteral {_s(t.__module__)} [" + "; ".join(items) + "])"
    if type(t).__name__ in ("Unpack", "_UnpackGenericAlias") or getattr(origin, "__name__", "") == "Unpack":
        return None
    if origin is not None or getattr(t, "_name", None) is not None and not isinstance(t, type):
        # parametrised or special generic alias
        if origin is None and not hasattr(t, "__args__"):
            return None
        args = typing.get_args(t)
        g = _generic_name(t)
        if g is None:
            return None
        if args == ((),) or (origin in (tuple,) and t in (typing.Tuple[()], tuple[()])):
            return f"(REmptyTuple {_s(g)})"
        if any(type(a).__name__ in ("_UnpackGenericAlias",) or typing.get_origin(a) is getattr(typing, "Unpack", None) for a in args):
            return None
        if origin is not None and getattr(origin, "__module__", "") == "collections.abc" and getattr(origin, "__name__", "") == "Callable":
            return None
        parts = [to_rty(a, depth + 1) for a in args]
        if any(p is None for p in parts):
            return None
        return f"(RGeneric {_s(g)} [" + "; ".join(parts) + "])"
    if isinstance(t, type) or hasattr(t, "__supertype__") or isinstance(t, typing.TypeAliasType):
        return _named(t)
    return None


def field_types(cls) -> list[tuple[str, object]]:
    import dataclasses
    if not dataclasses.is_dataclass(cls):
        return []
    try:
        hints = typing.get_type_hints(cls, include_extras=True)
    except Exception:
        return []
    return [(f.name, hints[f.name]) for f in dataclasses.fields(cls) if f.name in hints]
