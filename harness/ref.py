"""Independent reference interpreters of the type hints, written from the README
("supported data types", "how it works") -- they share no code with mashumaro's
generator nor with the Coq model's compile step.  Used as the direct oracles of
C02 (ref_encode) and C03 (ref_decode, conforms)."""
from __future__ import annotations

import collections
import dataclasses
import datetime
import decimal
import enum
import fractions
import ipaddress
import pathlib
import re
import uuid
from base64 import decodebytes, encodebytes

from harness.gen import T, Family, LEAF_PY, NODEFAULT, td_order, td_is_optional


# the reference reads NamedTuples in the dict form (dialect / Config option namedtuple_as_dict, or the
# field option serialize / deserialize = "as_dict") while this is True; set by the as_dict scenarios only
NT_AS_DICT = False


class RefError(Exception):
    """the reference semantics is undefined on this input"""


def leaf_render(kind: str, v):
    if kind in ("datetime", "date", "time"):
        return v.isoformat()
    if kind == "timedelta":
        return v.total_seconds()
    if kind == "timezone":
        off = v.utcoffset(None)
        if not off:
            return "UTC"
        total = int(off.total_seconds())
        sign = "-" if total < 0 else "+"
        total = abs(total)
        h, rem = divmod(total, 3600)
        m, s = divmod(rem, 60)
        out = f"UTC{sign}{h:02d}:{m:02d}"
        if s:
            out += f":{s:02d}"
        return out
    if kind in ("PurePosixPath", "Path"):
        return str(v)
    if kind == "Pattern":
        return v.pattern
    return str(v)


def leaf_parse(kind: str, d):
    try:
        if kind == "datetime":
            return datetime.datetime.fromisoformat(d)
        if kind == "date":
            return datetime.date.fromisoformat(d)
        if kind == "time":
            return datetime.time.fromisoformat(d)
        if kind == "timedelta":
            return datetime.timedelta(seconds=d)
        if kind == "timezone":
            return ref_parse_timezone(d)
        if kind == "UUID":
            return uuid.UUID(d)
        if kind == "Decimal":
            return decimal.Decimal(d)
        if kind == "Fraction":
            return fractions.Fraction(d)
        if kind == "PurePosixPath":
            return pathlib.PurePosixPath(d)
        if kind == "Path":
            return pathlib.Path(d)
        if kind == "Pattern":
            return re.compile(d)
        return getattr(ipaddress, kind)(d)
    except RefError:
        raise
    except Exception as e:
        raise RefError(f"{kind}({d!r}): {type(e).__name__}") from None


_TZ = re.compile(r"^UTC(([+-][0-2][0-9]):([0-5][0-9]))?$")


def ref_parse_timezone(s):
    if not isinstance(s, str):
        raise RefError("timezone from non-str")
    m = _TZ.match(s)
    if not m:
        raise RefError("bad timezone")
    if not m.group(1):
        return datetime.timezone.utc
    sign = -1 if m.group(2)[0] == "-" else 1
    h = int(m.group(2)[1:])
    mi = int(m.group(3))
    try:
        return datetime.timezone(sign * datetime.timedelta(hours=h, minutes=mi))
    except Exception:
        raise RefError("timezone out of range") from None



def tupleu_types(t: T, n: int):
    """element types of a tuple with an unpacked segment, for an actual length n (None if too short)"""
    np_, mode, nm = t.extra
    pre, mid, suf = t.args[:np_], t.args[np_:np_ + nm], t.args[np_ + nm:]
    if mode == "var":
        k = n - len(pre) - len(suf)
        if k < 0:
            return None
        return pre + [mid[0]] * k + suf
    if n < len(pre) + len(mid) + len(suf):
        return None
    return pre + mid + suf


def member_matches(t: T, v, fam: Family, ns) -> bool:
    """does value v conform to member type t (used to pick the union member on encode)"""
    k = t.kind
    if k == "int":
        return type(v) is int
    if k == "float":
        return type(v) is float
    if k == "bool":
        return type(v) is bool
    if k == "str":
        return type(v) is str
    if k == "none":
        return v is None
    if k == "any":
        return True
    if k in ("list", "seq"):
        return type(v) is list and all(member_matches(t.args[0], x, fam, ns) for x in v)
    if k in ("dict", "mapping"):
        return type(v) is dict and all(member_matches(t.args[0], a, fam, ns) and member_matches(t.args[1], b, fam, ns) for a, b in v.items())
    if k == "data":
        return type(v) is ns[t.name]
    if k == "enum":
        return type(v) is ns[t.name]
    if k == "leaf":
        return type(v).__name__ == LEAF_PY[t.name].split(".")[1] or (t.name == "PurePosixPath" and isinstance(v, pathlib.PurePosixPath))
    if k == "opt":
        return v is None or member_matches(t.args[0], v, fam, ns)
    if k == "tuplefix":
        return type(v) is tuple and len(v) == len(t.args) and all(member_matches(a, x, fam, ns) for a, x in zip(t.args, v))
    return False


def ref_encode(t: T, v, fam: Family, ns):
    k = t.kind
    if k in ("int", "float", "bool", "str", "none", "any"):
        return v
    if k in ("bytes", "bytearray"):
        return encodebytes(v).decode()
    if k == "leaf":
        return leaf_render(t.name, v)
    if k == "enum":
        return v.value
    if k in ("list", "seq", "deque", "set", "frozenset", "tuplevar"):
        return [ref_encode(t.args[0], x, fam, ns) for x in v]
    if k == "tuplefix":
        return [ref_encode(a, x, fam, ns) for a, x in zip(t.args, v)]
    if k == "tupleu":
        tys = tupleu_types(t, len(v))
        if tys is None:
            raise RefError("tuple too short")
        return [ref_encode(a, x, fam, ns) for a, x in zip(tys, v)]
    if k in ("dict", "mapping", "ordereddict", "mappingproxy"):
        return {ref_encode(t.args[0], a, fam, ns): ref_encode(t.args[1], b, fam, ns) for a, b in v.items()}
    if k == "counter":
        return {ref_encode(t.args[0], a, fam, ns): b for a, b in v.items()}
    if k == "defaultdict":
        return {ref_encode(t.args[0], a, fam, ns): ref_encode(t.args[1], b, fam, ns) for a, b in v.items()}
    if k == "chainmap":
        return [{ref_encode(t.args[0], a, fam, ns): ref_encode(t.args[1], b, fam, ns) for a, b in m.items()} for m in v.maps]
    if k == "opt":
        return None if v is None else ref_encode(t.args[0], v, fam, ns)
    if k == "union":
        for m in t.args:
            if member_matches(m, v, fam, ns):
                return ref_encode(m, v, fam, ns)
        raise RefError("no union member matches")
    if k == "lit":
        if isinstance(v, enum.Enum):
            return v.value
        if isinstance(v, bytes):
            return encodebytes(v).decode()
        return v
    if k == "data":
        spec = fam.get(t.name)
        fields = all_fields(spec, fam)
        if spec.config.get("sort_keys"):
            fields = sorted(fields, key=lambda f: f.name)
        by_alias = spec.config.get("serialize_by_alias")
        return {(f.alias if (by_alias and f.alias is not None) else f.name): ref_encode(f.ty, getattr(v, f.name), fam, ns) for f in fields}
    if k == "nt":
        spec = fam.get(t.name)
        if NT_AS_DICT:
            return {f.name: ref_encode(f.ty, x, fam, ns) for f, x in zip(spec.fields, v)}
        return [ref_encode(f.ty, x, fam, ns) for f, x in zip(spec.fields, v)]
    if k == "td":
        spec = fam.get(t.name)
        # required keys first, then the optional keys present (each group in declaration order)
        return {f.name: ref_encode(f.ty, v[f.name], fam, ns) for f in td_order(spec) if f.name in v}
    raise RefError(f"ref_encode: kind {k}")


def all_fields(spec, fam: Family):
    if spec.base and spec.kind == "data":
        try:
            parent = fam.get(spec.base)
        except KeyError:
            return list(spec.fields)
        inherited = [f for f in all_fields(parent, fam)]
        names = {f.name for f in spec.fields}
        out = [next(g for g in spec.fields if g.name == f.name) if f.name in names else f for f in inherited]
        out += [f for f in spec.fields if f.name not in {g.name for g in inherited}]
        return out
    return list(spec.fields)


def _iter(d):
    try:
        return list(iter(d))
    except TypeError:
        raise RefError("not iterable") from None


def ref_decode(t: T, d, fam: Family, ns):
    """documented constructor / parser per type; RefError where it is undefined"""
    k = t.kind
    try:
        if k == "int":
            return int(d)
        if k == "float":
            return float(d)
        if k == "bool":
            return bool(d)
        if k == "str":
            return str(d)
    except Exception as e:
        raise RefError(f"{k}({d!r}): {type(e).__name__}") from None
    if k == "none":
        return None
    if k == "any":
        return d
    if k in ("bytes", "bytearray"):
        try:
            b = decodebytes(d.encode())
        except Exception as e:
            raise RefError(f"b64: {type(e).__name__}") from None
        return b if k == "bytes" else bytearray(b)
    if k == "leaf":
        return leaf_parse(t.name, d)
    if k == "enum":
        try:
            return ns[t.name](d)
        except Exception as e:
            raise RefError(f"enum: {type(e).__name__}") from None
    if k in ("list", "seq"):
        return [ref_decode(t.args[0], x, fam, ns) for x in _iter(d)]
    if k == "deque":
        return collections.deque(ref_decode(t.args[0], x, fam, ns) for x in _iter(d))
    if k == "tuplevar":
        return tuple(ref_decode(t.args[0], x, fam, ns) for x in _iter(d))
    if k in ("set", "frozenset"):
        items = [ref_decode(t.args[0], x, fam, ns) for x in _iter(d)]
        try:
            return set(items) if k == "set" else frozenset(items)
        except TypeError:
            raise RefError("unhashable element") from None
    if k == "tuplefix":
        out = []
        for i, a in enumerate(t.args):
            if a.kind == "none":      # NoneType's "constructor" is the constant None: the item is not read
                out.append(None)
                continue
            if a.kind == "tuplefix" and not a.args:   # likewise the empty tuple
                out.append(())
                continue
            try:
                x = d[i]
            except Exception as e:
                raise RefError(f"index {i}: {type(e).__name__}") from None
            out.append(ref_decode(a, x, fam, ns))
        return tuple(out)
    if k == "tupleu":
        # documented: the unpacked segment takes what lies between the fixed head and tail;
        # (a fixed segment takes its first items, surplus ignored)
        if not isinstance(d, (list, tuple, str)):     # a str is indexed / sliced character-wise, like plain tuples
            raise RefError("tuple with unpacked segment from a non-sequence")
        np_, mode, nm = t.extra
        pre, mid, suf = t.args[:np_], t.args[np_:np_ + nm], t.args[np_ + nm:]
        if len(d) < len(pre) + len(suf) + (nm if mode == "fix" else 0):
            raise RefError("too few items")
        head = [ref_decode(a, x, fam, ns) for a, x in zip(pre, d[:len(pre)])]
        middle = list(d[len(pre):len(d) - len(suf)])
        if mode == "var":
            m = [ref_decode(mid[0], x, fam, ns) for x in middle]
        else:
            m = [ref_decode(a, x, fam, ns) for a, x in zip(mid, middle)]
        tail = [ref_decode(a, x, fam, ns) for a, x in zip(suf, d[len(d) - len(suf):])] if suf else []
        return tuple(head + m + tail)
    if k in ("dict", "mapping", "ordereddict", "defaultdict", "counter", "mappingproxy"):
        try:
            items = list(d.items())
        except Exception:
            raise RefError("not a mapping") from None
        try:
            if k == "counter":
                try:
                    out = {ref_decode(t.args[0], a, fam, ns): int(b) for a, b in items}
                except RefError:
                    raise
                except Exception as e:
                    raise RefError(f"counter value: {type(e).__name__}") from None
                return collections.Counter(out)
            out = {ref_decode(t.args[0], a, fam, ns): ref_decode(t.args[1], b, fam, ns) for a, b in items}
        except TypeError:
            raise RefError("unhashable key") from None
        if k == "defaultdict":
            return collections.defaultdict(None, out)
        if k == "mappingproxy":
            import types as _types
            return _types.MappingProxyType(out)
        return collections.OrderedDict(out) if k == "ordereddict" else out
    if k == "chainmap":
        maps = []
        for m in _iter(d):
            try:
                items = list(m.items())
            except Exception:
                raise RefError("chainmap element is not a mapping") from None
            try:
                maps.append({ref_decode(t.args[0], a, fam, ns): ref_decode(t.args[1], b, fam, ns) for a, b in items})
            except TypeError:
                raise RefError("unhashable key") from None
        return collections.ChainMap(*maps)
    if k == "opt":
        return None if d is None else ref_decode(t.args[0], d, fam, ns)
    if k == "data":
        spec = fam.get(t.name)
        cls = ns[t.name]
        fields = all_fields(spec, fam)
        if not isinstance(d, dict):
            raise RefError("non-mapping argument")
        kw = {}
        allow = spec.config.get("allow_deserialization_not_by_alias")
        if spec.config.get("forbid_extra_keys"):
            allowed = {f.alias or f.name for f in fields} | ({f.name for f in fields} if allow else set())
            if any(kk not in allowed for kk in d):
                raise RefError("extra keys")
        for f in fields:
            key = f.alias if f.alias is not None else f.name
            if key not in d and allow and f.alias is not None and f.name in d:
                key = f.name
            if key in d:
                x = d[key]
                nullable = f.ty.kind in ("opt", "none", "any") or f.default is None
                if x is None and nullable:
                    kw[f.name] = None
                else:
                    kw[f.name] = ref_decode(f.ty, x, fam, ns)
            elif f.default is NODEFAULT:
                raise RefError(f"missing field {f.name}")
        return cls(**kw)
    if k == "nt" and NT_AS_DICT:
        # namedtuple_as_dict: items are looked up by field name; a missing key is legal only for a field
        # that has a default (which it then takes); surplus keys are ignored
        spec = fam.get(t.name)
        if not isinstance(d, dict):
            raise RefError("non-mapping for a NamedTuple in the as_dict form")
        kw = {}
        for f in spec.fields:
            if f.name in d:
                kw[f.name] = ref_decode(f.ty, d[f.name], fam, ns)
            elif f.default is NODEFAULT:
                raise RefError(f"missing key {f.name}")
        return ns[t.name](**kw)
    if k == "nt":
        spec = fam.get(t.name)
        out = []
        for i, f in enumerate(spec.fields):
            if f.ty.kind == "none":
                out.append(None)
                continue
            if f.ty.kind == "tuplefix" and not f.ty.args:
                out.append(())
                continue
            try:
                x = d[i]
            except IndexError:
                if f.default is not NODEFAULT:
                    break            # documented: missing trailing items take the NamedTuple defaults
                raise RefError(f"index {i}: IndexError") from None
            except Exception as e:
                raise RefError(f"index {i}: {type(e).__name__}") from None
            out.append(ref_decode(f.ty, x, fam, ns))
        try:
            return ns[t.name](*out)
        except TypeError:
            raise RefError("missing named tuple items") from None
    if k == "td":
        spec = fam.get(t.name)
        if not isinstance(d, dict):
            raise RefError("non-mapping for TypedDict")
        out = {}
        for f in td_order(spec):
            required = not td_is_optional(spec, f)
            if f.ty.kind == "tuplefix" and not f.ty.args and required:
                out[f.name] = ()      # constant position: the key is not read (see tuple positions above)
            elif f.ty.kind == "none" and required:
                out[f.name] = None
            elif f.name in d:
                out[f.name] = ref_decode(f.ty, d[f.name], fam, ns)
            elif required:
                raise RefError(f"missing key {f.name}")
        return out
    if k == "lit":
        # one of the literal constants, of the very class (nothing is coerced: True is not 1)
        for v in t.extra:
            if type(d) is type(v) and d == v:
                return v
        raise RefError("no literal of that class and value")
    if k == "union":
        return ref_decode_union(t, d, fam, ns)
    raise RefError(f"ref_decode: kind {k}")


def conforms(t: T, r, fam: Family, ns) -> bool:
    """r is an instance of the very class named in the annotation, recursively"""
    k = t.kind
    if k == "any":
        return True
    if k == "none":
        return r is None
    if k in ("int", "float", "bool", "str", "bytes", "bytearray"):
        return type(r) is {"int": int, "float": float, "bool": bool, "str": str, "bytes": bytes, "bytearray": bytearray}[k]
    if k == "leaf":
        import sys
        mod, name = LEAF_PY[t.name].split(".")
        cls = getattr(sys.modules[mod], name)
        if t.name == "PurePosixPath":
            return type(r) is pathlib.PurePosixPath
        if t.name == "Path":
            return type(r) is type(pathlib.Path())
        return type(r) is cls
    if k == "enum":
        return type(r) is ns[t.name]
    if k in ("list", "seq"):
        return type(r) is list and all(conforms(t.args[0], x, fam, ns) for x in r)
    if k == "deque":
        return type(r) is collections.deque and all(conforms(t.args[0], x, fam, ns) for x in r)
    if k == "tuplevar":
        return type(r) is tuple and all(conforms(t.args[0], x, fam, ns) for x in r)
    if k == "set":
        return type(r) is set and all(conforms(t.args[0], x, fam, ns) for x in r)
    if k == "frozenset":
        return type(r) is frozenset and all(conforms(t.args[0], x, fam, ns) for x in r)
    if k == "tuplefix":
        return type(r) is tuple and len(r) == len(t.args) and all(conforms(a, x, fam, ns) for a, x in zip(t.args, r))
    if k == "tupleu":
        if type(r) is not tuple:
            return False
        tys = tupleu_types(t, len(r))
        return tys is not None and all(conforms(a, x, fam, ns) for a, x in zip(tys, r))
    if k in ("dict", "mapping"):
        return type(r) is dict and all(conforms(t.args[0], a, fam, ns) and conforms(t.args[1], b, fam, ns) for a, b in r.items())
    if k == "mappingproxy":
        import types as _types
        return type(r) is _types.MappingProxyType and all(conforms(t.args[0], a, fam, ns) and conforms(t.args[1], b, fam, ns) for a, b in r.items())
    if k == "counter":
        return type(r) is collections.Counter and all(conforms(t.args[0], a, fam, ns) and type(b) is int for a, b in r.items())
    if k == "defaultdict":
        return type(r) is collections.defaultdict and all(conforms(t.args[0], a, fam, ns) and conforms(t.args[1], b, fam, ns) for a, b in r.items())
    if k == "chainmap":
        return type(r) is collections.ChainMap and all(type(m) is dict and all(conforms(t.args[0], a, fam, ns) and conforms(t.args[1], b, fam, ns) for a, b in m.items()) for m in r.maps)
    if k == "ordereddict":
        return type(r) is collections.OrderedDict and all(conforms(t.args[0], a, fam, ns) and conforms(t.args[1], b, fam, ns) for a, b in r.items())
    if k == "opt":
        return r is None or conforms(t.args[0], r, fam, ns)
    if k == "union":
        return any(conforms(m, r, fam, ns) for m in t.args)
    if k == "lit":
        return any(r == v and type(r) is type(v) for v in t.extra)
    if k == "data":
        if type(r) is not ns[t.name]:
            return False
        spec = fam.get(t.name)
        for f in all_fields(spec, fam):
            x = getattr(r, f.name)
            if x is None and f.default is None:
                continue
            if not conforms(f.ty, x, fam, ns):
                return False
        return True
    if k == "nt":
        spec = fam.get(t.name)
        return type(r) is ns[t.name] and all(conforms(f.ty, x, fam, ns) for f, x in zip(spec.fields, r))
    if k == "td":
        spec = fam.get(t.name)
        return type(r) is dict and all(conforms(f.ty, r[f.name], fam, ns) for f in spec.fields if f.name in r)
    return False


# ---------------------------------------------------------------------------
# round 7: unions on the decoding side (documented reading: the members are tried in their order; a primitive member int / float / bool /
# str / None takes a value of EXACTLY its class as it is and nothing else at this stage; any other member takes the value if its
# constructor accepts it; the constructors of the primitive members come last, in member order)
# ---------------------------------------------------------------------------

def ref_decode_union(t: T, d, fam: Family, ns):
    import copy
    prim = {"int": int, "float": float, "bool": bool, "str": str, "none": type(None)}
    for m in t.args:
        if m.kind in prim:
            if type(d) is prim[m.kind]:
                return d
        else:
            try:
                return ref_decode(m, copy.deepcopy(d), fam, ns)
            except RefError:
                pass
    for m in t.args:
        if m.kind in prim:
            try:
                return ref_decode(m, d, fam, ns)
            except RefError:
                pass
    raise RefError("no union member accepts the value")
