"""C14 helper: class families (nested / inherited / generic / forward-referencing, mixins for
dict/json/orjson/msgpack/yaml/toml, dialects) rendered as self-contained Python source in a
chosen compilation mode, op strings over them, canonical outcomes, and observation of the
stub/compiled state of every generated method.

A family description is pure JSON data (so that a replay file is self-contained):
  {"classes": [cls...], "order": [indices in definition order], "lazy": [bool per class]}
  cls = {"name","kind": "plain"|"mixin", "mixins": [...], "dsup": bool, "generic": bool,
         "parent": idx|None, "fields": [[fname, ftype]...]}
  ftype = ["int"] | ["str"] | ["optint"] | ["listint"] | ["T"]
        | ["dc", j, wrap, targ]   wrap in plain|opt|list|dict ; targ in None|"int"|"str" (G[targ])
Rendered class names are distinct (K0, K1, ...), dialects are module-level D1, D2.
"""
from __future__ import annotations

import dataclasses
import enum
import re
import sys
import types

MIXINS = {
    "dict": ("mashumaro", "DataClassDictMixin"),
    "json": ("mashumaro.mixins.json", "DataClassJSONMixin"),
    "orjson": ("mashumaro.mixins.orjson", "DataClassORJSONMixin"),
    "msgpack": ("mashumaro.mixins.msgpack", "DataClassMessagePackMixin"),
    "yaml": ("mashumaro.mixins.yaml", "DataClassYAMLMixin"),
    "toml": ("mashumaro.mixins.toml", "DataClassTOMLMixin"),
}
# public entry points offered by each mixin: (pack method, unpack method)
ENTRY = {
    "dict": ("to_dict", "from_dict"),
    "json": ("to_json", "from_json"),
    "orjson": ("to_jsonb", "from_json"),
    "msgpack": ("to_msgpack", "from_msgpack"),
    "yaml": ("to_yaml", "from_yaml"),
    "toml": ("to_toml", "from_toml"),
}

HEADER = '''from __future__ import annotations
from dataclasses import dataclass, field
from typing import Generic, TypeVar, List, Dict, Optional, Self
from mashumaro import DataClassDictMixin, pass_through
from mashumaro.mixins.json import DataClassJSONMixin
from mashumaro.mixins.orjson import DataClassORJSONMixin
from mashumaro.mixins.msgpack import DataClassMessagePackMixin
from mashumaro.mixins.yaml import DataClassYAMLMixin
from mashumaro.mixins.toml import DataClassTOMLMixin
from mashumaro.config import (BaseConfig, ADD_DIALECT_SUPPORT, TO_DICT_ADD_OMIT_NONE_FLAG, TO_DICT_ADD_BY_ALIAS_FLAG,
                              ADD_SERIALIZATION_CONTEXT)
import orjson, datetime, ast as _ast
import c14aux_a, c14aux_b
from mashumaro.dialect import Dialect
T = TypeVar("T")
U = TypeVar("U")
def enc_mark(d, **kw):
    """a caller-supplied encoder: shows what it was given"""
    return ["ENC", sorted(kw.items()), d]
def dec_lit(data, **kw):
    """a caller-supplied decoder: the wire is the repr of the basic form"""
    return _ast.literal_eval(data if isinstance(data, str) else data.decode())
class D1(Dialect):
    omit_none = True
class D2(Dialect):
    serialization_strategy = {int: {"serialize": lambda x: x + 1000, "deserialize": lambda x: int(x) - 1000}}
'''


AUX = {
    "c14aux_a": "import enum\nclass Tag(enum.Enum):\n    X = 'x'\n    Y = 'y'\n",
    "c14aux_b": "import enum\nclass Tag(enum.Enum):\n    X = 'x'\n    Z = 'z'\n",
}


def ensure_aux():
    """two modules that both define a class named Tag (same qualname, different modules)"""
    for name, src in AUX.items():
        if name not in sys.modules:
            m = types.ModuleType(name)
            sys.modules[name] = m
            exec(compile(src, f"<{name}>", "exec"), m.__dict__)


# type arguments of generic specialisations: key -> (annotation source, rendered name = mashumaro type_name)
TARGS = {
    "int": ("int", "int"),
    "str": ("str", "str"),
    "listint": ("List[int]", "typing.List[int]"),
    "auxA": ("c14aux_a.Tag", "c14aux_a.Tag"),
    "auxB": ("c14aux_b.Tag", "c14aux_b.Tag"),
}
TVARS = ["T", "U"]


def targ_value_src(key, rng) -> str:
    if key == "int":
        return str(rng.randint(0, 99))
    if key == "str":
        return repr(rng.choice(["p", "q", "12"]))
    if key == "listint":
        return repr([rng.randint(0, 9) for _ in range(rng.randint(0, 2))])
    if key == "auxA":
        return "c14aux_a.Tag." + rng.choice("XY")
    if key == "auxB":
        return "c14aux_b.Tag." + rng.choice("XZ")
    return "5"


# ---------------------------------------------------------------------------
# generation
# ---------------------------------------------------------------------------

def pick_targs(rng, nparams, used):
    """type arguments for one specialisation; `used` = argument tuples already used for the same generic class:
    with some probability a permutation of one of them, or the same-named class from the other module"""
    if used and rng.random() < 0.6:
        base = list(rng.choice(used))
        r = rng.random()
        if r < 0.5 and nparams > 1:
            base.reverse()
        elif r < 0.8:
            aux = [q for q in range(nparams) if base[q].startswith("aux")]
            k = rng.choice(aux) if aux else rng.randrange(nparams)     # prefer the same-named class of the other module
            base[k] = {"auxA": "auxB", "auxB": "auxA", "int": "str", "str": "int", "listint": "int"}[base[k]]
        if tuple(base) not in used or rng.random() < 0.3:
            return base
    return [rng.choice(["int", "str", "listint", "auxA", "auxB", "auxA", "auxB"]) for _ in range(nparams)]


def gen_family(rng, max_classes=5, focus=None) -> dict:
    """focus='spec': a generic class and several holders of its specialisations; focus='kwargs': classes whose
    first call has something to forward (flags, encoder/decoder kwargs, dialect, context)"""
    n = rng.randint(3, max_classes) if focus == "spec" else rng.randint(2, max_classes)
    classes = []
    for i in range(n):
        kind = "mixin" if (i == n - 1 or rng.random() < 0.7) else "plain"
        generic = 0
        if i < n - 1 and (rng.random() < 0.25 or (focus == "spec" and i == 0 and rng.random() < 0.6)):
            generic = rng.choice([1, 2, 2])
        if focus == "spec" and i == 0 and not generic:
            kind = "plain"          # a plain dataclass shared by several owners
        if focus == "spec" and i > 0:
            kind, generic = "mixin", 0
        mix = []
        dsup = False
        if kind == "mixin":
            mix = ["dict"]
            extra = rng.choice([[], [], ["msgpack"], ["orjson"], ["json"], ["yaml"], ["toml"], ["msgpack", "orjson"],
                                ["msgpack", "json"]])
            if focus == "kwargs":
                extra = rng.choice([["orjson"], ["orjson"], ["msgpack"], ["msgpack", "orjson"], ["toml"], ["json"], []])
            mix = extra or mix
            dsup = rng.random() < (0.65 if focus == "kwargs" else 0.35)
        parent = None
        if not generic and i > 0 and rng.random() < 0.2 and focus != "spec":
            cands = [j for j in range(i) if not classes[j]["generic"] and classes[j]["kind"] == kind
                     and not any(f[1][0] == "dc" and f[1][1] >= j and f[1][1] != j for f in classes[j]["fields"])]
            # a subclass repeats nothing; parent must have same kind so that the MRO is simple
            if cands:
                parent = rng.choice(cands)
        fields = []
        nf = rng.randint(2, 3) if (focus == "spec" and i == 0) else rng.randint(1, 3)
        for k in range(nf):
            r = rng.random()
            if (r < 0.45 and n > 1) or (focus == "spec" and i > 0 and k == 0):
                # nested dataclass position
                p = rng.random()
                if focus == "spec" and i > 0 and k == 0:
                    j = 0
                elif focus == "kwargs" and p < 0.45:
                    j = i           # self references: the "class being compiled" shortcuts of the builders
                elif p < 0.7 and i > 0:
                    j = rng.randrange(0, i)
                elif p < 0.85:
                    j = i
                else:
                    j = rng.randrange(0, n)
                wrap = rng.choice(["plain", "opt", "list", "dict", "opt", "list"]) if j < i else rng.choice(["opt", "list", "dict"])
                if j == i and not generic and rng.random() < 0.5:
                    # typing.Self instead of the class name: no name lookup, so the class is NOT postponed; in a
                    # subclass the position denotes the subclass
                    fields.append([f"f{i}_{k}", ["dc", j, wrap, None, "Self"]])
                else:
                    fields.append([f"f{i}_{k}", ["dc", j, wrap, None]])
            elif focus == "spec" and i == 0 and k < 2:
                fields.append([f"f{i}_{k}", [["int", "optint"][k]]])     # what Config.dialect D2 / D1 of an owner would change
            else:
                fields.append([f"f{i}_{k}", [rng.choice(["int", "str", "optint", "listint", "int", "bytes", "date"])]])
        for q in range(generic):
            fields.append(["tu"[q], ["TV", q]])
        if kind == "plain" and not generic and rng.random() < 0.2:
            # an annotation that can never be resolved at run time (e.g. a TYPE_CHECKING-only import)
            fields.append([f"g{i}", ["ghost"]])
        hot = 0.6 if focus == "kwargs" else 0.3
        onf = kind == "mixin" and rng.random() < hot
        baf = kind == "mixin" and parent is None and rng.random() < hot * 0.8
        ctx = kind == "mixin" and parent is None and rng.random() < hot * 0.8
        cdial = rng.choice(["D1", "D2"]) if kind == "mixin" and rng.random() < (0.7 if focus == "spec" else 0.25) else None
        classes.append({"name": f"K{i}", "kind": kind, "mixins": mix, "dsup": dsup, "onf": onf, "baf": baf, "ctx": ctx, "cdial": cdial,
                        "generic": generic, "parent": parent, "fields": fields})
    # forward references j>i: only towards non-generic classes, wrapped (opt/list/dict); fix type args of
    # generic targets now that all classes are known
    used = {}
    for i, c in enumerate(classes):
        for f in c["fields"]:
            t = f[1]
            if t[0] == "dc":
                j = t[1]
                if classes[j]["generic"]:
                    if j >= i:          # no self/forward specialisation of generics (keeps rendered names simple)
                        t[0:4] = ["int"]
                        del t[1:]
                        continue
                    t[3] = pick_targs(rng, classes[j]["generic"], used.setdefault(j, []))
                    used[j].append(tuple(t[3]))
    # a subclass whose parent (transitively) forward-references would be postponed as well: allowed.
    if focus == "apc":
        # Config.allow_postponed_evaluation = False: an unresolved reference at the class statement raises instead of
        # postponing (unless lazy_compilation installs the stub first)
        for c in classes:
            if c["kind"] == "mixin" and rng.random() < 0.5:
                c["apc"] = False
    return {"classes": classes}


def topo_order(fam: dict) -> list[int]:
    """definition order in which as many classes as possible compile eagerly: a class after every
    class it refers to, except where a cycle (or self reference) makes that impossible."""
    cl = fam["classes"]
    n = len(cl)
    deps = {i: set() for i in range(n)}
    for i, c in enumerate(cl):
        if c["parent"] is not None:
            deps[i].add(c["parent"])
        for f in c["fields"]:
            if f[1][0] == "dc" and f[1][1] != i:
                deps[i].add(f[1][1])
    hard = {i: ({cl[i]["parent"]} if cl[i]["parent"] is not None else set()) for i in range(n)}
    # generic targets are referenced as real objects K[int] in annotations? no: all annotations are strings
    order = []
    done = set()
    while len(order) < n:
        ready = [i for i in range(n) if i not in done and deps[i] <= done]
        if not ready:
            # cycle: take the smallest index whose hard deps are done
            ready = [i for i in range(n) if i not in done and hard[i] <= done][:1]
        i = ready[0]
        order.append(i)
        done.add(i)
    return order


def random_order(fam: dict, rng) -> list[int]:
    """a random definition order that respects inheritance only (parents first)."""
    cl = fam["classes"]
    n = len(cl)
    done, order = set(), []
    while len(order) < n:
        ready = [i for i in range(n) if i not in done and (cl[i]["parent"] is None or cl[i]["parent"] in done)]
        i = rng.choice(ready)
        order.append(i)
        done.add(i)
    return order


def predict_creation(fam: dict, order: list[int], lazy: list[bool]):
    """index of the class whose class statement raises UnresolvedTypeReferenceError, or None: the first class in
    definition order that is compiled at creation (a mixin), is not lazy, has Config.allow_postponed_evaluation = False
    and names (not typing.Self) a class that is not bound yet - itself, a later one, or one that never exists
    (mirror of LazyModel.build / step Define; the model itself is compared with the real classes in Coq)"""
    cl = fam["classes"]
    done = set()
    for i in order:
        c = cl[i]
        root = c
        while root["parent"] is not None:
            root = cl[root["parent"]]
        if root["kind"] == "mixin" and not (lazy[i] and c["kind"] == "mixin") and not c.get("apc", True):
            for _, t in all_fields(fam, i):
                if t[0] == "ghost" or (t[0] == "dc" and not (len(t) > 4 and t[4] == "Self") and t[1] not in done):
                    return i
        done.add(i)
    return None


def all_fields(fam, i, target=None):
    """fields incl. inherited ones, in dataclass order; a typing.Self position denotes the class asked for"""
    if target is None:
        target = i
    c = fam["classes"][i]
    out = []
    if c["parent"] is not None:
        out.extend(all_fields(fam, c["parent"], target))
    for fname, t in c["fields"]:
        if len(t) > 4 and t[4] == "Self":
            t = [t[0], target] + list(t[2:])
        out.append([fname, t])
    return out


# ---------------------------------------------------------------------------
# rendering
# ---------------------------------------------------------------------------

def type_src(fam, t) -> str:
    if t[0] == "int":
        return "int"
    if t[0] == "str":
        return "str"
    if t[0] == "optint":
        return "Optional[int]"
    if t[0] == "listint":
        return "List[int]"
    if t[0] == "TV":
        return TVARS[t[1]]
    if t[0] == "bytes":
        return "bytes"
    if t[0] == "date":
        return "datetime.date"
    if t[0] == "ghost":
        return "Optional[Ghost]"
    j, wrap, targ = t[1], t[2], t[3]
    base = "Self" if len(t) > 4 and t[4] == "Self" else fam["classes"][j]["name"]
    if targ:
        base += "[" + ", ".join(TARGS[a][0] for a in targ) + "]"
    return {"plain": base, "opt": f"Optional[{base}]", "list": f"List[{base}]", "dict": f"Dict[str, {base}]"}[wrap]


def default_src(t) -> str | None:
    if t[0] == "ghost":
        return "None"
    if t[0] == "dc":
        return {"plain": None, "opt": "None", "list": "field(default_factory=list)", "dict": "field(default_factory=dict)"}[t[2]]
    return None


def render(fam: dict, order: list[int], lazy: list[bool]) -> str:
    out = [HEADER]
    cl = fam["classes"]
    for i in order:
        c = cl[i]
        bases = []
        if c["parent"] is not None:
            bases.append(cl[c["parent"]]["name"])
        elif c["kind"] == "mixin":
            bases.extend(MIXINS[m][1] for m in c["mixins"])
        if c["generic"]:
            bases.append("Generic[" + ", ".join(TVARS[:c["generic"]]) + "]")
        out.append("@dataclass")
        out.append(f"class {c['name']}" + (f"({', '.join(bases)})" if bases else "") + ":")
        # fields without default first (dataclass rule): our nested 'plain' and scalars have no default,
        # wrapped nested have defaults -> use kw_only to be free of ordering
        body = []
        aliased = False
        for fname, t in c["fields"]:
            d = default_src(t)
            if c.get("baf") and not aliased and t[0] in ("int", "str"):
                d = 'field(metadata={"alias": "A_%s"})' % fname
                aliased = True
            body.append(f"    {fname}: {type_src(fam, t)}" + (f" = {d}" if d else ""))
        out[-2] = "@dataclass(kw_only=True)"
        out.extend(body)
        if c["kind"] == "mixin":
            out.append("    class Config(BaseConfig):")
            out.append(f"        lazy_compilation = {bool(lazy[i])}")
            opts = ((["ADD_DIALECT_SUPPORT"] if c["dsup"] else []) + (["TO_DICT_ADD_OMIT_NONE_FLAG"] if c.get("onf") else [])
                    + (["TO_DICT_ADD_BY_ALIAS_FLAG"] if c.get("baf") else []) + (["ADD_SERIALIZATION_CONTEXT"] if c.get("ctx") else []))
            out.append(f"        code_generation_options = [{', '.join(opts)}]")
            if c.get("baf"):
                out.append("        allow_deserialization_not_by_alias = True")
            if not c.get("apc", True):
                out.append("        allow_postponed_evaluation = False")
            if c.get("cdial"):
                out.append(f"        dialect = {c['cdial']}")
            if c.get("ctx"):
                out.append("    def __post_serialize__(self, d, context=None):")
                out.append("        if context is not None:")
                out.append("            d = dict(d)")
                out.append("            d['ctx_seen'] = repr(context)")
                out.append("        return d")
        out.append("")
    return "\n".join(out) + "\n"


_counter = [0]


def load(src: str, tag: str = "m") -> types.ModuleType:
    ensure_aux()
    _counter[0] += 1
    name = f"c14fam_{tag}_{_counter[0]}"
    mod = types.ModuleType(name)
    sys.modules[name] = mod
    try:
        exec(compile(src, f"<{name}>", "exec"), mod.__dict__)
    except BaseException:
        sys.modules.pop(name, None)
        raise
    return mod


def unload(mod):
    if mod is not None:
        sys.modules.pop(mod.__name__, None)


# ---------------------------------------------------------------------------
# values and ops
# ---------------------------------------------------------------------------

def gen_value(fam, i, rng, depth=0, targ=None):
    """(python expression constructing an instance of class i, tree) where tree = [[k, subtree]...] lists the
    nested dataclass instances: k = index of the position among the dataclass-valued fields of class i"""
    c = fam["classes"][i]
    args = []
    tree = []
    k = -1
    for fname, t in all_fields(fam, i):
        if t[0] == "int":
            v = str(rng.randint(-5, 50))
        elif t[0] == "str":
            v = repr(rng.choice(["", "a", "xy", "7"]))
        elif t[0] == "optint":
            v = rng.choice(["None", str(rng.randint(0, 9))])
        elif t[0] == "listint":
            v = repr([rng.randint(0, 9) for _ in range(rng.randint(0, 2))])
        elif t[0] == "TV":
            v = targ_value_src(targ[t[1]] if targ else None, rng)
        elif t[0] == "bytes":
            v = repr(rng.choice([b"", b"ab", b"\x00\xff"]))
        elif t[0] == "date":
            v = "datetime.date(2020, 1, %d)" % rng.randint(1, 28)
        elif t[0] == "ghost":
            k += 1          # a dataclass-valued position of the model (never populated)
            continue
        else:
            k += 1
            j, wrap, ta = t[1], t[2], t[3]
            deep = depth >= 3
            if wrap == "plain":
                subs = [gen_value(fam, j, rng, depth + 1, ta)]
                v = subs[0][0]
            elif wrap == "opt":
                subs = [] if (deep or rng.random() < 0.35) else [gen_value(fam, j, rng, depth + 1, ta)]
                v = subs[0][0] if subs else "None"
            elif wrap == "list":
                subs = [gen_value(fam, j, rng, depth + 1, ta) for _ in range(0 if deep else rng.randint(0, 2))]
                v = "[" + ", ".join(x[0] for x in subs) + "]"
            else:
                subs = [gen_value(fam, j, rng, depth + 1, ta) for _ in range(0 if deep else rng.randint(0, 2))]
                v = "{" + ", ".join(f"'k{q}': " + x[0] for q, x in enumerate(subs)) + "}"
            tree.extend([k, x[1]] for x in subs)
        args.append(f"{fname}={v}")
    return f"{c['name']}({', '.join(args)})", tree


def gen_value_src(fam, i, rng, depth=0, targ=None) -> str:
    return gen_value(fam, i, rng, depth, targ)[0]


def has_plain_cycle(fam, i, seen=()) -> bool:
    """class i needs an infinite value (a 'plain' wrapped nested chain returning to itself)"""
    if i in seen:
        return True
    for _, t in all_fields(fam, i):
        if t[0] == "dc" and t[2] == "plain" and has_plain_cycle(fam, t[1], seen + (i,)):
            return True
    return False


def entry_points(fam, i):
    """[(fmt, pack_name, unpack_name)] offered by mixin class i (via its own or inherited bases)"""
    c = fam["classes"][i]
    root = c
    while root["parent"] is not None:
        root = fam["classes"][root["parent"]]
    if root["kind"] != "mixin":
        return []
    fmts = ["dict"] + [m for m in root["mixins"] if m != "dict"]
    return [(f,) + ENTRY[f] for f in fmts]


def canon(x, modname: str | None = None):
    """canonical, module-independent form of an outcome"""
    if dataclasses.is_dataclass(x) and not isinstance(x, type):
        return ["dc", type(x).__name__, [[f.name, canon(getattr(x, f.name), modname)] for f in dataclasses.fields(x)]]
    if isinstance(x, dict):
        return ["dict", [[canon(k, modname), canon(v, modname)] for k, v in x.items()]]
    if isinstance(x, (list, tuple)):
        return [type(x).__name__, [canon(v, modname) for v in x]]
    if isinstance(x, (bytes, bytearray)):
        return [type(x).__name__, bytes(x).hex()]
    if isinstance(x, enum.Enum):
        return ["enum", type(x).__module__ + "." + type(x).__qualname__, x.name]
    if isinstance(x, (int, float, str, bool)) or x is None:
        return [type(x).__name__, x]
    return ["other", type(x).__name__, re.sub(r"c14fam_\w+?_\d+", "MOD", repr(x))]


def root_cause(e: BaseException) -> BaseException:
    seen = 0
    while seen < 50:
        nxt = e.__cause__ or e.__context__
        if nxt is None:
            return e
        e = nxt
        seen += 1
    return e


def canon_exc(e: BaseException):
    rc = root_cause(e)
    msg = re.sub(r"c14fam_\w+?_\d+", "MOD", str(e))
    if isinstance(e, RecursionError) or isinstance(rc, RecursionError):
        return ["EXC", "RecursionError", ""]
    msg = re.sub(r" at 0x[0-9a-f]+", "", msg)
    rmsg = re.sub(r"c14fam_\w+?_\d+", "MOD", str(rc))[:200]
    return ["EXC", type(e).__name__, msg[:300], type(rc).__name__, rmsg]


def recursion_kind(e: BaseException) -> str:
    """'build-cycle' when the exhausted stack consists of compile-time frames of the on-demand nested
    compilation (pack_dataclass/unpack_dataclass -> add_*_method -> ...), 'redispatch' when it consists
    of generated methods calling themselves again (stub -> compile -> same stub)."""
    import traceback
    rc = e
    n = 0
    while not isinstance(rc, RecursionError) and (rc.__cause__ or rc.__context__) is not None and n < 50:
        rc = rc.__cause__ or rc.__context__
        n += 1
    names = [f.name for f in traceback.extract_tb(rc.__traceback__)]
    k = sum(1 for x in names if x in ("pack_dataclass", "unpack_dataclass"))
    return "build-cycle" if k >= 8 else "redispatch"


def run_op(mod, op_src: str, aux: dict | None = None):
    """evaluate an op expression in the family module; returns canonical outcome"""
    try:
        r = eval(op_src, mod.__dict__)
    except RecursionError as e:
        if aux is not None:
            aux["rec"] = recursion_kind(e)
        return ["EXC", "RecursionError", ""]
    except Exception as e:
        c = canon_exc(e)
        if aux is not None and c[1] == "RecursionError":
            aux["rec"] = recursion_kind(e)
        return c
    return ["OK", canon(r)]


# ---------------------------------------------------------------------------
# observation of the compilation state
# ---------------------------------------------------------------------------

def meth_kind(v) -> str:
    """'S' for a lazy/postponed stub (its body calls CodeBuilder(..., allow_postponed_evaluation=False ...)
    and re-dispatches), 'C' for a compiled method.  A dialect-supporting method has the stub lines in
    its `dialect is None` branch; it is still recognised by the keyword tuple in co_consts."""
    f = getattr(v, "__func__", v)
    code = getattr(f, "__code__", None)
    if code is None:
        return "?"
    for c in code.co_consts:
        if isinstance(c, tuple) and "allow_postponed_evaluation" in c:
            return "S"
    return "C"


def snapshot(mod, fam) -> dict:
    """{class name: {"m": {internal method name without dunder prefix: 'S'|'C'}, "c": {cache name: [dialect names]}}}"""
    out = {}
    for c in fam["classes"]:
        k = mod.__dict__.get(c["name"])
        if k is None:
            continue
        m, ca = {}, {}
        for name, v in k.__dict__.items():
            if name.startswith("__mashumaro_") and name.endswith("__") and "builder_params" not in name:
                m[name[12:-2]] = meth_kind(v)
            elif name.startswith("__dialect_") and name.endswith("_cache__"):
                ca[name[10:-8]] = sorted(d.__name__ for d in v)
        out[c["name"]] = {"m": m, "c": ca}
    return out
