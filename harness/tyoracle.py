"""Helpers shared by the C01/C02/C03 checks: correspondence reporting and the wide-grammar
schema/value stream for the direct oracles."""
from __future__ import annotations

import copy

from harness import gen, ref, tycorr, vlib


def report_corr(ctx: vlib.Ctx, name: str, cases, bad, log, want: str | None = None):
    """register the (M) correspondence; returns the failing python-side cases"""
    sel = [i for i, c in enumerate(cases) if want is None or c["kind"] == want]
    if bad is None:
        ctx.correspondence(name, len(sel), -1, log)
        ctx.not_shown("correspondence " + name, log)
        return []
    hits = [i for i in bad if want is None or cases[i]["kind"] == want]
    detail = "; ".join(f"{cases[i]['kind']} {gen.py_ann(cases[i]['t'])} {repr(cases[i].get('value', cases[i].get('input')))[:120]} -> {repr(cases[i]['out'])[:120]}" for i in hits[:4])
    ctx.correspondence(name, len(sel), len(hits), detail)
    if hits:
        ctx.not_shown("correspondence " + name, detail)
    for c in cases[:3]:
        ctx.sample({"kind": c["kind"], "type": gen.py_ann(c["t"]), "input": repr(c.get("value", c.get("input")))[:160], "impl": repr(c["out"])[:160]})
    for c in cases:
        for n in c["t"].walk():
            ctx.hist("type_constructors", n.kind)
        ctx.hist("case_kinds", c["kind"] + ":" + c["out"][0])
    return [cases[i] for i in hits]


def schema_stream(rng, n: int, wide: bool = True, unions: bool = False, literals: bool = False, any_: bool = False, mixin_rate: float = 0.3):
    """yields (fam, ns, T, typing object, SchemaGen)"""
    for i in range(n):
        o = gen.GenOpts(depth=rng.choice([1, 2, 3, 3, 4]), coq_only=not wide, named=wide, unions=unions, literals=literals, any_=any_,
                        mixin=rng.random() < mixin_rate, configs=wide)
        sg = gen.SchemaGen(rng, o)
        sg.tag = f"w{i}_"
        c = rng.random()
        if wide and c < 0.2:
            t = sg.dataclass_type(o.depth - 1)
        elif wide and c < 0.3:
            t = sg.namedtuple_type(o.depth - 1)
        elif wide and c < 0.36:
            t = sg.typeddict_type(o.depth - 1)
        else:
            t = sg.gen_type()
        if t.kind == "none":
            t = gen.T("opt", [gen.T("int")])
        fam = sg.fam
        ns = fam.build()
        yield fam, ns, t, gen.resolve(t, ns), sg


def has_kind(t: gen.T, fam: gen.Family, kinds) -> bool:
    seen = set()

    def go(x):
        for n in x.walk():
            if n.kind in kinds:
                return True
            if n.kind in ("data", "nt", "td") and n.name not in seen:
                seen.add(n.name)
                for f in fam.get(n.name).fields:
                    if go(f.ty):
                        return True
        return False
    return go(t)
