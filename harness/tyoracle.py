"""Helpers shared by the C01/C02/C03 checks: correspondence reporting and the wide-grammar
schema/value stream for the direct oracles."""
from __future__ import annotations

import copy

from harness import gen, ref, tycorr, vlib


def report_corr(ctx: vlib.Ctx, name: str, cases, bad, log, want: str | None = None):
    """register the (M) correspondence; returns the failing python-side cases"""
    sel = [i for i, c in enumerate(cases) if want is None or c["kind"] == want]
    if bad is None:
        ctx.correspondence(name, len(sel), -1, log)
        ctx.not_shown("correspondence " + name, log)
        return []
    hits = [i for i in bad if want is None or cases[i]["kind"] == want]
    detail = "; ".join(f"{cases[i]['kind']} {gen.py_ann(cases[i]['t'])} {repr(cases[i].get('value', cases[i].get('input')))[:120]} -> {repr(cases[i]['out'])[:120]}" for i in hits[:4])
    ctx.correspondence(name, len(sel), len(hits), detail)
    if hits:
        ctx.not_shown("correspondence " + name, detail)
    for c in cases[:3]:
        ctx.sample({"kind": c["kind"], "type": gen.py_ann(c["t"]), "input": repr(c.get("value", c.get("input")))[:160], "impl": repr(c["out"])[:160]})
    for c in cases:
        for n in c["t"].walk():
            ctx.hist("type_constructors", n.kind)
        ctx.hist("case_kinds", c["kind"] + ":" + c["out"][0])
    return [cases[i] for i in hits]


def schema_stream(rng, n: int, wide: bool = True, unions: bool = False, literals: bool = False, any_: bool = False, mixin_rate: float = 0.3):
    """yields (fam, ns, T, typing object, SchemaGen)"""
    for i in range(n):
        o = gen.GenOpts(depth=rng.choice([1, 2, 3, 3, 4]), coq_only=not wide, named=wide, unions=unions, literals=literals, any_=any_,
                        mixin=rng.random() < mixin_rate, configs=wide)
        sg = gen.SchemaGen(rng, o)
        sg.tag = f"w{i}_"
        c = rng.random()
        if wide and c < 0.2:
            t = sg.dataclass_type(o.depth - 1)
        elif wide and c < 0.3:
            t = sg.namedtuple_type(o.depth - 1)
        elif wide and c < 0.36:
            t = sg.typeddict_type(o.depth - 1)
        else:
            t = sg.gen_type()
        if t.kind == "none":
            t = gen.T("opt", [gen.T("int")])
        fam = sg.fam
        ns = fam.build()
        yield fam, ns, t, gen.resolve(t, ns), sg


def has_kind(t: gen.T, fam: gen.Family, kinds) -> bool:
    seen = set()

    def go(x):
        for n in x.walk():
            if n.kind in kinds:
                return True
            if n.kind in ("data", "nt", "td") and n.name not in seen:
                seen.add(n.name)
                for f in fam.get(n.name).fields:
                    if go(f.ty):
                        return True
        return False
    return go(t)


def as_dict_stream(rng, n: int):
    """NamedTuple classes (trailing defaults, nested NamedTuples, fixed tuples, Optional; at the root or inside List / Optional) under a
    dialect with namedtuple_as_dict = True, or as the field of a holder dataclass whose Config sets the option (then dialect = None).
    Yields (fam, ns, t, ty, dialect); the reference reads them with ref.NT_AS_DICT = True."""
    from mashumaro.dialect import Dialect

    class AsDict(Dialect):
        namedtuple_as_dict = True
    for i in range(n):
        sg = gen.SchemaGen(rng, gen.GenOpts(depth=2, named=True))
        sg.tag = f"ad{i}_"

        def item(d):
            c = rng.random()
            if c < 0.35 or d <= 0:
                return gen.T(rng.choice(["int", "str", "bool", "float"]))
            if c < 0.55:
                return gen.T("tuplefix", [gen.T(rng.choice(["int", "str", "bool"])) for _ in range(rng.randrange(1, 4))])
            if c < 0.8:
                return nt(d - 1)
            if c < 0.9:
                return gen.T("list", [item(d - 1)])
            return gen.T("opt", [item(d - 1)])

        def nt(d):
            spec = gen.ClassSpec("nt", sg.fresh("N"))
            for k2 in range(rng.randrange(1, 5)):
                spec.fields.append(gen.FieldSpec(f"a{k2}", item(d)))
            for f in reversed(spec.fields):
                dv = sg.simple_default(f.ty) if rng.random() < 0.8 else None
                if dv is None or (isinstance(dv[0], str) and dv[0].startswith("factory:")):
                    break
                f.default, f.default_src = dv
            sg.fam.classes.append(spec)
            return gen.T("nt", name=spec.name)
        c = rng.random()
        t = nt(2) if c < 0.7 else gen.T("list", [nt(1)]) if c < 0.85 else gen.T("opt", [nt(1)])
        fam = sg.fam
        dia = AsDict
        if rng.random() < 0.35:
            # the same option as a Config option of a holder dataclass (no dialect involved)
            holder = gen.ClassSpec("data", sg.fresh("H"), fields=[gen.FieldSpec("x", t)], mixin=True, config={"namedtuple_as_dict": True})
            fam.classes.append(holder)
            t, dia = gen.T("data", name=holder.name), None
        ns = fam.build()
        yield fam, ns, t, gen.resolve(t, ns), dia
        fam.dispose()


def key_removals(w, limit=16):
    """every variant of a wire value in which ONE key of ONE nested dict is removed, plus the variant with a surplus key"""
    out = []

    def go(x, rebuild):
        if len(out) >= limit:
            return
        if isinstance(x, list):
            for i, y in enumerate(x):
                go(y, lambda z, i=i, x=x: rebuild(x[:i] + [z] + x[i + 1:]))
        elif isinstance(x, dict):
            for k2 in x:
                out.append(rebuild({k3: y for k3, y in x.items() if k3 != k2}))
            out.append(rebuild({**x, "zz_surplus": 1}))
            for k2, y in x.items():
                go(y, lambda z, k2=k2, x=x: rebuild({**x, k2: z}))
    go(w, lambda z: z)
    return out[:limit]
