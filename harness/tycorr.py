"""(M) correspondence of the type-level Coq model (coq/theories/TyModel.v) with the real
BasicEncoder / BasicDecoder: generated schemas inside the Coq grammar, conforming values,
encoder output and foreign inputs; the model is evaluated by vm_compute with the stdlib
primitives supplied as finite tables filled from CPython."""
from __future__ import annotations

import collections
import collections.abc
import copy
import dataclasses
import enum
from base64 import decodebytes, encodebytes

from harness import gen, ref, vlib
from harness.gen import T, coq_pv, coq_sty, coq_senv
from harness.vlib import coq_str, coq_z


# per-shard budget of the vm_compute correspondence: generous on purpose (a shard takes seconds on an idle machine; hitting the limit on a
# loaded one would be a false alarm)
CORR_TIMEOUT = 3600


def subvalues(d, out=None, depth=0):
    out = [] if out is None else out
    out.append(d)
    if depth > 12:
        return out
    if isinstance(d, str):
        if len(d) > 1:
            for ch in dict.fromkeys(d):
                out.append(ch)
    elif isinstance(d, (list, tuple, set, frozenset)):
        for x in d:
            subvalues(x, out, depth + 1)
    elif isinstance(d, dict):
        for k, v in d.items():
            subvalues(k, out, depth + 1)
            subvalues(v, out, depth + 1)
    return out


def reach(t: T, fam: gen.Family):
    """leaf kinds, enum names, class names (dataclass / NamedTuple / TypedDict) reachable from t"""
    leaves, enums, dcs = set(), set(), []

    def go(x: T):
        for n in x.walk():
            if n.kind == "leaf":
                leaves.add(n.name)
            elif n.kind == "enum":
                enums.add(n.name)
            elif n.kind in ("data", "nt", "td") and n.name not in dcs:
                dcs.append(n.name)
                for f in fam.get(n.name).fields:
                    go(f.ty)
    go(t)
    return leaves, enums, dcs


def corrupt(d, rng, depth=0):
    """one foreign variant of a wire value: a position replaced / removed / extended"""
    junk = [None, 0, 1, -3, 2.5, True, "", "x", "12", "1.5", "abc", [], [1], ["a", 2], {}, {"k": 1}, "2024-01-02", "UTC+03:00"]
    r = rng.random()
    if isinstance(d, list) and d and r < 0.6:
        i = rng.randrange(len(d))
        c = rng.random()
        out = list(d)
        if c < 0.6:
            out[i] = corrupt(d[i], rng, depth + 1)
        elif c < 0.8:
            del out[i]
        else:
            out.append(rng.choice(junk))
        return out
    if isinstance(d, dict) and d and r < 0.7:
        ks = list(d)
        k = rng.choice(ks)
        c = rng.random()
        out = dict(d)
        if c < 0.55:
            out[k] = corrupt(d[k], rng, depth + 1)
        elif c < 0.75:
            del out[k]
        elif c < 0.9:
            out["zz_extra"] = rng.choice(junk)
        else:
            out[k] = None
        return out
    return rng.choice(junk)


def null_variants(w, rng, limit=3):
    """explicit nulls: one value of one mapping (any depth) replaced by None.  A present key always wins, so for a nullable
    position the result is None whatever the default, for any other position the decoder of that position decides."""
    spots = []

    def go(x, rebuild):
        if isinstance(x, dict):
            for k in x:
                if x[k] is not None:
                    spots.append(lambda k=k, x=x, rebuild=rebuild: rebuild({**x, k: None}))
                go(x[k], lambda z, k=k, x=x, rebuild=rebuild: rebuild({**x, k: z}))
        elif isinstance(x, list):
            for i, y in enumerate(x):
                go(y, lambda z, i=i, x=x, rebuild=rebuild: rebuild(x[:i] + [z] + x[i + 1:]))
    go(w, lambda z: z)
    rng.shuffle(spots)
    return [f() for f in spots[:limit]]


class Tables:
    def __init__(self):
        self.render = {}
        self.parse = {}
        self.enum_value = {}
        self.enum_of = {}
        self.b64enc = {}
        self.b64dec = {}
        self.to_int = {}
        self.to_float = {}
        self.to_str = {}

    @staticmethod
    def _hk(x):
        return coq_pv(x)

    def add_value(self, v, fam, ns):
        """tables needed to serialize v"""
        for x in walk_py(v):
            k = gen.leaf_kind(x)
            if k:
                self.render[(k, gen.leaf_text(x))] = coq_pv(ref.leaf_render(k, x))
            elif isinstance(x, enum.Enum):
                self.enum_value[(type(x).__name__, x.name)] = coq_pv(x.value)
            elif isinstance(x, (bytes, bytearray)):
                self.b64enc[bytes(x)] = encodebytes(bytes(x)).decode()

    def add_input(self, d, t: T, fam, ns):
        leaves, enums, _ = reach(t, fam)
        for x in subvalues(d):
            hk = self._hk(x)
            for k in leaves:
                if (k, hk) in self.parse:
                    continue
                try:
                    r = ref.leaf_parse(k, x)
                    self.parse[(k, hk)] = coq_str(gen.leaf_text(r))
                except ref.RefError:
                    self.parse[(k, hk)] = None
            for e in enums:
                if (e, hk) in self.enum_of:
                    continue
                try:
                    self.enum_of[(e, hk)] = coq_str(ns[e](x).name)
                except Exception:
                    self.enum_of[(e, hk)] = None
            if hk not in self.b64dec:
                try:
                    self.b64dec[hk] = coq_str(decodebytes(x.encode()))
                except Exception:
                    self.b64dec[hk] = None
            if type(x) not in (int, bool) and hk not in self.to_int:
                try:
                    self.to_int[hk] = coq_z(int(x))
                except Exception:
                    self.to_int[hk] = None
            if type(x) is not float and hk not in self.to_float:
                try:
                    self.to_float[hk] = gen.coq_fl(float(x))
                except Exception:
                    self.to_float[hk] = None
            if type(x) is not str and hk not in self.to_str:
                try:
                    self.to_str[hk] = coq_str(str(x))
                except Exception:
                    self.to_str[hk] = None

    def coq(self) -> str:
        def opt(x):
            return "None" if x is None else f"(Some {x})"
        out = []
        out.append("Definition t_render : list ((string * string) * pv) := [" +
                   "; ".join(f"(({coq_str(k)}, {coq_str(w)}), {v})" for (k, w), v in self.render.items()) + "].")
        out.append("Definition t_parse : list ((string * pv) * option string) := [" +
                   "; ".join(f"(({coq_str(k)}, {hk}), {opt(v)})" for (k, hk), v in self.parse.items()) + "].")
        out.append("Definition t_enum_value : list ((string * string) * pv) := [" +
                   "; ".join(f"(({coq_str(k)}, {coq_str(w)}), {v})" for (k, w), v in self.enum_value.items()) + "].")
        out.append("Definition t_enum_of : list ((string * pv) * option string) := [" +
                   "; ".join(f"(({coq_str(k)}, {hk}), {opt(v)})" for (k, hk), v in self.enum_of.items()) + "].")
        out.append("Definition t_b64enc : list (string * string) := [" +
                   "; ".join(f"({coq_str(k)}, {coq_str(v)})" for k, v in self.b64enc.items()) + "].")
        out.append("Definition t_b64dec : list (pv * option string) := [" +
                   "; ".join(f"({hk}, {opt(v)})" for hk, v in self.b64dec.items()) + "].")
        out.append("Definition t_int : list (pv * option Z) := [" +
                   "; ".join(f"({hk}, {opt(v)})" for hk, v in self.to_int.items()) + "].")
        out.append("Definition t_float : list (pv * option fl) := [" +
                   "; ".join(f"({hk}, {opt(v)})" for hk, v in self.to_float.items()) + "].")
        out.append("Definition t_str : list (pv * option string) := [" +
                   "; ".join(f"({hk}, {opt(v)})" for hk, v in self.to_str.items()) + "].")
        out.append("""Definition P : prims := {|
  p_render := fun k w => match tbl_ss t_render k w with Some x => x | None => VOther "render-miss" end;
  p_parse := fun k v => join (tbl_sp t_parse k v);
  p_enum_value := fun e m => tbl_ss t_enum_value e m;
  p_enum_of := fun e v => join (tbl_sp t_enum_of e v);
  p_b64enc := fun b => match tbl_s t_b64enc b with Some x => x | None => "b64-miss" end;
  p_b64dec := fun v => join (tbl_p t_b64dec v);
  p_int := fun v => join (tbl_p t_int v);
  p_float := fun v => join (tbl_p t_float v);
  p_str := fun v => join (tbl_p t_str v) |}.""")
        return "\n".join(out)


def walk_py(v, depth=0):
    yield v
    if depth > 14:
        return
    if dataclasses.is_dataclass(v) and not isinstance(v, type):
        for f in dataclasses.fields(v):
            yield from walk_py(getattr(v, f.name), depth + 1)
    elif isinstance(v, collections.ChainMap):
        for m in v.maps:
            yield from walk_py(m, depth + 1)
    elif isinstance(v, collections.abc.Mapping):       # dict and its subclasses, MappingProxyType
        for k, x in v.items():
            yield from walk_py(k, depth + 1)
            yield from walk_py(x, depth + 1)
    elif isinstance(v, (list, tuple, set, frozenset, collections.deque)):
        for x in v:
            yield from walk_py(x, depth + 1)


HEADER = """From Coq Require Import List String Ascii ZArith Bool.
From Verif Require Import Wire Core CaseLib TyModel{extra}.
Import ListNotations.
Open Scope string_scope.
Open Scope Z_scope.
Inductive tcase :=
| CEnc (E: senv) (t: sty) (v e: pv)
| CDec (E: senv) (t: sty) (d: pv) (e: option pv).
"""

OK_FUN = """Definition is_too_few (e: exn) : bool := match e with XOther s => String.eqb s "too few items" | _ => false end.
Definition ok (c: tcase) : bool :=
  match c with
  | CEnc E t v e =>
      match pk E P v (cp true t), ref_enc E P v t with
      | Ok r, Ok r' => pv_same r e && pv_same r' e
      | _, _ => false end
  | CDec E t d e =>
      (* the generated unpacker and the reading of the reference it implements ... *)
      match uk E P d (cu true t), ref_dec_l E P d t, e with
      | Ok r, Ok r', Some x => pv_same r x && pv_same r' x
      | Exn _, Exn _, None => true
      | _, _, _ => false end
      (* ... and the documented reference, which is stricter on tuples with an unpacked segment only
         (too few items: known finding C03/unpacked-tuple-short-input) *)
      && match ref_dec E P d t, e with
         | Ok r, Some x => pv_same r x
         | Exn e', None => true
         | Exn e', Some _ => is_too_few e'
         | Ok _, None => false end
  end.
"""


def truncations(w, limit=10):
    """every variant of a wire value in which ONE nested list is cut short (the outer one included)"""
    out = []

    def go(x, rebuild):
        if len(out) >= limit:
            return
        if isinstance(x, list):
            for n in range(len(x)):
                out.append(rebuild(x[:n]))
            for i, y in enumerate(x):
                go(y, lambda z, i=i, x=x: rebuild(x[:i] + [z] + x[i + 1:]))
        elif isinstance(x, dict):
            for k2, y in x.items():
                go(y, lambda z, k2=k2, x=x: rebuild({**x, k2: z}))
    go(w, lambda z: z)
    return out[:limit]


def indexed_schema(sg: gen.SchemaGen, rng) -> T:
    """positions decoded by indexing: (nested) NamedTuples with trailing defaults (scalar and fixed-tuple defaults),
    fixed tuples, TypedDicts around them -- all inside the Coq grammar"""
    def item(d):
        c = rng.random()
        if c < 0.3 or d <= 0:
            return T(rng.choice(["int", "str", "bool", "float"]))
        if c < 0.65:
            return T("tuplefix", [T(rng.choice(["int", "str", "bool"])) for _ in range(rng.randrange(1, 4))])
        if c < 0.85:
            return nt(d - 1)
        if c < 0.92:
            return td(d - 1)
        return T("opt", [item(d - 1)])

    def nt(d):
        spec = gen.ClassSpec("nt", sg.fresh("N"))
        for k2 in range(rng.randrange(1, 5)):
            spec.fields.append(gen.FieldSpec(f"a{k2}", item(d)))
        for f in reversed(spec.fields):
            dv = sg.simple_default(f.ty) if rng.random() < 0.75 else None
            if dv is None or (isinstance(dv[0], str) and dv[0].startswith("factory:")):
                break
            f.default, f.default_src = dv
        sg.fam.classes.append(spec)
        return T("nt", name=spec.name)

    def td(d):
        spec = gen.ClassSpec("td", sg.fresh("TD"), total=rng.random() < 0.6)
        for k2 in range(rng.randrange(1, 4)):
            fs = gen.FieldSpec(f"k{k2}", item(d))
            if rng.random() < 0.3:
                fs.optional = spec.total
            spec.fields.append(fs)
        sg.fam.classes.append(spec)
        return T("td", name=spec.name)
    c = rng.random()
    return nt(2) if c < 0.75 else (td(2) if c < 0.9 else T("tuplefix", [item(2) for _ in range(rng.randrange(1, 4))]))


def make_cases(rng, n_schemas: int, per_schema: int, depth: int = 3, foreign: int = 3):
    """yields python-side cases: dict(fam, t, ns, kind, value/input, outcome)"""
    from mashumaro.codecs.basic import BasicDecoder, BasicEncoder
    cases = []
    n_indexed = max(5, n_schemas // 3)
    for si in range(n_schemas + n_indexed):
        indexed = si >= n_schemas
        sg = gen.SchemaGen(rng, gen.GenOpts(depth=depth, coq_only=True, named=True, literals=True, mixin=rng.random() < 0.4))
        sg.tag = f"s{si}_"
        c = rng.random()
        if indexed:
            t = indexed_schema(sg, rng)
        elif c < 0.3:
            t = sg.dataclass_type(depth - 1)
        elif c < 0.42:
            t = sg.namedtuple_type(depth - 1)
        elif c < 0.52:
            t = sg.typeddict_type(depth - 1)
        elif c < 0.60:
            # tuples with an unpacked segment: Tuple[a, Unpack[Tuple[b, ...]], c] / Tuple[a, Unpack[Tuple[b, c]], d]
            t = sg.tupleu_type(depth - 1)
        elif c < 0.64:
            # nested constant expressions (positions that never read their input) next to reading ones
            t = T("tuplefix", [sg.const_type(), sg.scalar(), sg.const_type()][:rng.randrange(1, 4)])
        else:
            t = sg.gen_type()
        if t.kind == "none":
            t = gen.T("opt", [gen.T("int")])
        fam = sg.fam
        ns = fam.build()
        ty = gen.resolve(t, ns)
        enc = BasicEncoder(ty)
        dec = BasicDecoder(ty)
        vg = gen.ValueGen(rng, fam)
        # a mixin dataclass at the top: the same model must also describe to_dict / from_dict
        mixin_top = t.kind == "data" and fam.get(t.name).mixin
        for vi in range(1 if indexed else per_schema):
            v = vg.value(t)
            if mixin_top:
                try:
                    cases.append(dict(fam=fam, t=t, ns=ns, kind="enc", value=v, out=("ok", v.to_dict()), entry="mixin"))
                except Exception as e:
                    cases.append(dict(fam=fam, t=t, ns=ns, kind="enc", value=v, out=("exc", type(e).__name__), entry="mixin"))
            try:
                w = enc.encode(v)
            except Exception as e:  # a conforming value must serialize
                cases.append(dict(fam=fam, t=t, ns=ns, kind="enc", value=v, out=("exc", type(e).__name__)))
                continue
            cases.append(dict(fam=fam, t=t, ns=ns, kind="enc", value=v, out=("ok", w)))
            if indexed:
                # exactly one nested sequence too short: trailing defaults of THAT NamedTuple or an error, nothing else
                inputs = [w] + truncations(w)
            else:
                inputs = [w] + [corrupt(w, rng) for _ in range(foreign)] + null_variants(w, rng, 2)
                if vi == 0 and t.kind in ("nt", "td", "tuplefix", "tupleu"):
                    inputs += [rng.choice(["", "1", "12", "abc"]), rng.choice([None, 7, {}, {"k0": 1}, []])]
                if t.kind == "tupleu" and isinstance(w, list):
                    # every prefix and a longer one: lengths below head + tail are read with overlapping indices
                    inputs += [w[:n] for n in range(len(w))][:4] + [w + w[-1:]]
            for d in inputs:
                d0 = copy.deepcopy(d)
                try:
                    r = dec.decode(d)
                    out = ("ok", r)
                except Exception as e:
                    out = ("exc", type(e).__name__)
                cases.append(dict(fam=fam, t=t, ns=ns, kind="dec", input=d0, out=out))
                if mixin_top:
                    d1 = copy.deepcopy(d0)
                    try:
                        out2 = ("ok", ns[t.name].from_dict(d1))
                    except Exception as e:
                        out2 = ("exc", type(e).__name__)
                    cases.append(dict(fam=fam, t=t, ns=ns, kind="dec", input=d0, out=out2, entry="mixin"))
    return cases


def emit(cases, shard=150):
    files = []
    for si in range(0, len(cases), shard):
        chunk = cases[si:si + shard]
        tb = Tables()
        envs: dict[int, str] = {}
        env_defs = []
        lines = []
        for c in chunk:
            fam, t, ns = c["fam"], c["t"], c["ns"]
            _, _, dcs = reach(t, fam)
            if id(fam) not in envs:
                name = f"E_{len(envs)}"
                envs[id(fam)] = name
                env_defs.append(f"Definition {name} : senv := {coq_senv(fam, [x.name for x in fam.classes if x.kind in ('data', 'nt', 'td')])}.")
            en = envs[id(fam)]
            if c["kind"] == "enc":
                tb.add_value(c["value"], fam, ns)
                if c["out"][0] == "ok":
                    lines.append(f"CEnc {en} {coq_sty(t)} {coq_pv(c['value'])} {coq_pv(c['out'][1])}")
                else:
                    lines.append(f"CEnc {en} {coq_sty(t)} {coq_pv(c['value'])} (VOther \"impl-raised\")")
            else:
                tb.add_input(c["input"], t, fam, ns)
                # defaults may contain leaves/enums? (simple defaults only) ; results need no tables
                if c["out"][0] == "ok":
                    lines.append(f"CDec {en} {coq_sty(t)} {coq_pv(c['input'])} (Some {coq_pv(c['out'][1])})")
                else:
                    lines.append(f"CDec {en} {coq_sty(t)} {coq_pv(c['input'])} None")
        txt = HEADER.format(extra="") + tb.coq() + "\n" + "\n".join(env_defs) + "\n" + OK_FUN
        txt += "Definition cases : list tcase :=\n  [" + ";\n   ".join(lines) + "].\n"
        txt += "Eval vm_compute in (bad_idx ok cases).\n"
        files.append(txt)
    return files


def run(ctx: vlib.Ctx, name: str, n_schemas: int, per_schema: int, depth=3, foreign=3):
    """returns (cases, bad indices or None, log)"""
    cases = make_cases(ctx.rng, n_schemas, per_schema, depth, foreign)
    br = vlib.coq_make(["theories/TyModel.vo", "theories/CaseLib.vo", "theories/Wire.vo"])
    if not br.ok:
        return cases, None, "model does not build: " + (br.error or "")
    files = emit(cases)
    res = vlib.coq_eval_many([(f"{name}_{i}", txt) for i, txt in enumerate(files)], timeout=CORR_TIMEOUT, jobs=8)
    bad = []
    shard = 150
    for n, (ok, out) in enumerate(res):
        if not ok:
            return cases, None, out[-3000:]
        idx = vlib.parse_nat_list(out)
        if idx is None:
            return cases, None, "unparsable coq output: " + out[-1500:]
        bad.extend(n * shard + i for i in idx)
    return cases, bad, ""


# ---------------------------------------------------------------------------
# the as_dict form of a NamedTuple class at the top of a codec (coq/theories/TyNtDict.v)
# ---------------------------------------------------------------------------

ND_HEADER = """Inductive ncase :=
| NEnc (E: senv) (c: string) (glob: bool) (v e: pv)
| NDec (E: senv) (c: string) (glob: bool) (d: pv) (e: option pv).
"""

ND_OK_FUN = """Definition is_too_few (e: exn) : bool := match e with XOther s => String.eqb s "too few items" | _ => false end.
(* the global option describes the classes whose items reach no other NamedTuple *)
Definition dom (E: senv) (c: string) (glob: bool) : bool :=
  negb glob || match sfind E KNamed c with Some k => forallb (fun f => nt_free E f.(sf_ty)) k.(sc_fields) | None => false end.
Definition ok (c: ncase) : bool :=
  match c with
  | NEnc E c g v e =>
      dom E c g &&
      match pk_nd E P v c, ref_enc_nd E P v c with
      | Ok r, Ok r' => pv_same r e && pv_same r' e
      | _, _ => false end
  | NDec E c g d e =>
      dom E c g &&
      match uk_nd E P d c, ref_dec_nd_l E P d c, e with
      | Ok r, Ok r', Some x => pv_same r x && pv_same r' x
      | Exn _, Exn _, None => true
      | _, _, _ => false end
      && match ref_dec_nd E P d c, e with
         | Ok r, Some x => pv_same r x
         | Exn e', None => true
         | Exn e', Some _ => is_too_few e'
         | Ok _, None => false end
  end.
"""


def nd_schema(sg: gen.SchemaGen, rng, flat: bool) -> T:
    """a NamedTuple class with trailing defaults whose item types come from the Coq grammar
    (flat: no NamedTuple below it, so that the global option describes the same behaviour)"""
    def item():
        for _ in range(20):
            c = rng.random()
            if c < 0.25:
                ft = T(rng.choice(["int", "str", "bool", "float"]))
            elif c < 0.4:
                ft = T("tuplefix", [T(rng.choice(["int", "str", "bool"])) for _ in range(rng.randrange(1, 4))])
            elif c < 0.5:
                ft = sg.const_type()
            elif c < 0.6 and not flat:
                ft = sg.namedtuple_type(1)
            else:
                ft = sg.gen_type(rng.choice([0, 1, 1, 2]))
            if not flat or not _reaches_nt(ft, sg.fam):
                return ft
        return T("int")
    spec = gen.ClassSpec("nt", sg.fresh("N"))
    for k2 in range(rng.randrange(1, 5)):
        spec.fields.append(gen.FieldSpec(f"a{k2}", item()))
    for f in reversed(spec.fields):
        dv = sg.simple_default(f.ty) if rng.random() < 0.7 else None
        if dv is None or (isinstance(dv[0], str) and dv[0].startswith("factory:")):
            break
        f.default, f.default_src = dv
    sg.fam.classes.append(spec)
    return T("nt", name=spec.name)


def _reaches_nt(t: T, fam) -> bool:
    seen = set()

    def go(x):
        for n in x.walk():
            if n.kind == "nt":
                return True
            if n.kind in ("data", "td") and n.name not in seen:
                seen.add(n.name)
                if any(go(f.ty) for f in fam.get(n.name).fields):
                    return True
        return False
    return go(t)


def nd_inputs(w, names, rng, foreign: int):
    """encoder output; every key removed; a surplus key; only the keys given; foreign positions; one nested list cut short;
    inputs that are not dicts (membership / substring tests of the defaulted fields, TypeError otherwise)"""
    out = [w]
    if isinstance(w, dict):
        out += [{k: v for k, v in w.items() if k != k0} for k0 in w]
        out.append({**w, "zz_surplus": 1})
        out.append(dict(reversed(list(w.items()))))
        out.append({})
    out += [corrupt(w, rng) for _ in range(foreign)] + null_variants(w, rng, 2) + truncations(w, 4)
    out += [[], list(names), names[-1:], "".join(names), names[-1], "", rng.choice([None, 7, 2.5, True])]
    return out


def make_nd_cases(rng, n_schemas: int, foreign: int = 3):
    from mashumaro.codecs.basic import BasicDecoder, BasicEncoder
    from mashumaro.dialect import Dialect
    cases = []
    for si in range(n_schemas):
        sg = gen.SchemaGen(rng, gen.GenOpts(depth=2, coq_only=True, named=True, literals=True))
        sg.tag = f"nd{si}_"
        glob = rng.random() < 0.4
        t = nd_schema(sg, rng, flat=glob)
        fam = sg.fam
        ns = fam.build()
        ty = gen.resolve(t, ns)
        if glob:
            dia = type("AsDictAll", (Dialect,), {"namedtuple_as_dict": True})
        else:
            dia = type("AsDictOne", (Dialect,), {"serialization_strategy": {ty: {"serialize": "as_dict", "deserialize": "as_dict"}}})
        enc = BasicEncoder(ty, default_dialect=dia)
        dec = BasicDecoder(ty, default_dialect=dia)
        names = [f.name for f in fam.get(t.name).fields]
        vg = gen.ValueGen(rng, fam)
        for vi in range(2):
            v = vg.value(t)
            try:
                w = enc.encode(v)
            except Exception as e:
                cases.append(dict(fam=fam, t=t, ns=ns, kind="enc", value=v, out=("exc", type(e).__name__), glob=glob))
                continue
            cases.append(dict(fam=fam, t=t, ns=ns, kind="enc", value=v, out=("ok", w), glob=glob))
            for d in (nd_inputs(w, names, rng, foreign) if vi == 0 else [w, corrupt(w, rng)]):
                d0 = copy.deepcopy(d)
                try:
                    out = ("ok", dec.decode(d))
                except Exception as e:
                    out = ("exc", type(e).__name__)
                cases.append(dict(fam=fam, t=t, ns=ns, kind="dec", input=d0, out=out, glob=glob))
    return cases


def emit_nd(cases, shard=150):
    files = []
    for si in range(0, len(cases), shard):
        chunk = cases[si:si + shard]
        tb = Tables()
        envs: dict[int, str] = {}
        env_defs = []
        lines = []
        for c in chunk:
            fam, t, ns = c["fam"], c["t"], c["ns"]
            if id(fam) not in envs:
                name = f"E_{len(envs)}"
                envs[id(fam)] = name
                env_defs.append(f"Definition {name} : senv := {coq_senv(fam, [x.name for x in fam.classes if x.kind in ('data', 'nt', 'td')])}.")
            en = envs[id(fam)]
            g = "true" if c["glob"] else "false"
            if c["kind"] == "enc":
                tb.add_value(c["value"], fam, ns)
                e = coq_pv(c["out"][1]) if c["out"][0] == "ok" else '(VOther "impl-raised")'
                lines.append(f"NEnc {en} {coq_str(t.name)} {g} {coq_pv(c['value'])} {e}")
            else:
                tb.add_input(c["input"], t, fam, ns)
                e = f"(Some {coq_pv(c['out'][1])})" if c["out"][0] == "ok" else "None"
                lines.append(f"NDec {en} {coq_str(t.name)} {g} {coq_pv(c['input'])} {e}")
        txt = HEADER.format(extra=" TyNtDict") + ND_HEADER + tb.coq() + "\n" + "\n".join(env_defs) + "\n" + ND_OK_FUN
        txt += "Definition cases : list ncase :=\n  [" + ";\n   ".join(lines) + "].\n"
        txt += "Eval vm_compute in (bad_idx ok cases).\n"
        files.append(txt)
    return files


def run_nd(ctx: vlib.Ctx, name: str, n_schemas: int, foreign: int = 3):
    """(M) correspondence of TyNtDict.v (pk_nd / ref_enc_nd / uk_nd / ref_dec_nd) with BasicEncoder / BasicDecoder under a dialect
    that selects the as_dict form (class-specific serialization strategy, or the global option on NamedTuple-free items)"""
    cases = make_nd_cases(ctx.rng, n_schemas, foreign)
    br = vlib.coq_make(["theories/TyNtDict.vo", "theories/CaseLib.vo", "theories/Wire.vo"])
    if not br.ok:
        return cases, None, "model does not build: " + (br.error or "")
    files = emit_nd(cases)
    res = vlib.coq_eval_many([(f"{name}_{i}", txt) for i, txt in enumerate(files)], timeout=CORR_TIMEOUT, jobs=8)
    bad = []
    for n, (ok, out) in enumerate(res):
        if not ok:
            return cases, None, out[-3000:]
        idx = vlib.parse_nat_list(out)
        if idx is None:
            return cases, None, "unparsable coq output: " + out[-1500:]
        bad.extend(n * 150 + i for i in idx)
    return cases, bad, ""


# ---------------------------------------------------------------------------
# kernel K45a (TypedDict helper emission): translation vs the helpers the real generator produces
# ---------------------------------------------------------------------------

def k45a_validate(ctx: vlib.Ctx, side: str):
    """side = 'pack' | 'unpack': random TypedDict classes (total / total=False, Required / NotRequired on single keys); the helper text is
    captured at its exec and read back as a list of TLReq / TLOpt statements; Coq compares it with the translated loop."""
    import builtins
    import re
    import mashumaro.core.meta.types.pack as _pack
    import mashumaro.core.meta.types.unpack as _unpack
    from mashumaro.codecs.basic import BasicDecoder, BasicEncoder
    if not ctx.kernel_report.get("K45a", {}).get("ok"):
        return
    rng = ctx.rng
    mod = _pack if side == "pack" else _unpack
    marker = f"def __{side}_typed_dict_"
    cases, info = [], []
    for i in range(ctx.budget(40, 300)):
        n = rng.randrange(0, 6)
        total = rng.random() < 0.6
        names = [f"k{j}" for j in range(n)]
        marks = [rng.choice(["", "", "Required", "NotRequired"]) for _ in names]
        src = "from typing import TypedDict, Required, NotRequired\nclass TD(TypedDict" + ("" if total else ", total=False") + "):\n"
        src += "".join(f"    {nm}: " + (f"{mk}[int]" if mk else "int") + "\n" for nm, mk in zip(names, marks)) or "    pass\n"
        ns = gen.build_module(src)
        got = {"helper": None}

        def rec(code, g=None, l=None):
            if isinstance(code, str) and marker in code:
                got["helper"] = code
            return builtins.exec(code, g, l)
        old = mod.__dict__.get("exec")
        mod.exec = rec
        try:
            (BasicEncoder if side == "pack" else BasicDecoder)(ns["TD"])
        except Exception as e:
            ctx.not_shown("kernel K45a validation", f"{src}: {type(e).__name__}: {e}"[:300])
            continue
        finally:
            if old is None:
                del mod.exec
            else:
                mod.exec = old
        if not got["helper"]:
            ctx.not_shown("kernel K45a validation", f"no TypedDict helper compiled for {src}"[:300])
            continue
        lines = [x.strip() for x in got["helper"].splitlines()]
        body, pend, okshape = [], None, ("d = {}" in lines and "return d" in lines)
        for ln in lines:
            m1 = re.match(r"key_value = value\.get\('(k\d+)', MISSING\)$", ln)
            m2 = re.match(r"d\['(k\d+)'\] = ", ln)
            if m1:
                pend = m1.group(1)
            elif ln == "if key_value is not MISSING:":
                continue
            elif m2:
                if pend is None:
                    body.append(f"TLReq {coq_str(m2.group(1))}")
                elif pend == m2.group(1):
                    body.append(f"TLOpt {coq_str(m2.group(1))}")
                    pend = None
                else:
                    okshape = False
        req = sorted(ns["TD"].__required_keys__)
        opt = sorted(ns["TD"].__optional_keys__)
        z = lambda xs: "[" + "; ".join(coq_str(x) for x in xs) + "]"
        code = "[" + "; ".join(body) + "]" if okshape else '[TLReq "unrecognised helper"]'
        cases.append(f"(({z(names)}, ({z(req)}, {z(opt)})), {code})")
        info.append((names, req, opt, code))
        ctx.count(("k45a", side, total, tuple(marks)))
    defs = ("Definition line_eqb (a b: td_line) : bool := match a, b with TLReq x, TLReq y | TLOpt x, TLOpt y => String.eqb x y | _, _ => false end.\n"
            "Fixpoint leqb (a b: list td_line) : bool := match a, b with [], [] => true | x :: r, y :: s => line_eqb x y && leqb r s | _, _ => false end.\n"
            "Definition smem (l: list string) (n: string) : bool := existsb (String.eqb n) l.\n")
    okf = f"fun c => match c with ((names, (req, opt)), code) => leqb (k45a_{side}_lines names (smem req) (smem opt)) code end"
    bad, log = vlib.coq_bad_idx(f"k45a_{side}", "Core TyModel TdEmit", "From VerifGen Require Import K45a.", defs, cases, okf,
                                "(list string * (list string * list string)) * list td_line", shard=400, timeout=CORR_TIMEOUT, needs=["gen/K45a.vo", "theories/TdEmit.vo"])
    name = f"K45a-translation-vs-generated-{side}-helper"
    if bad is None:
        ctx.correspondence(name, len(cases), -1, log)
        ctx.not_shown("translation validation K45a", log)
    else:
        ctx.correspondence(name, len(cases), len(bad), str([info[i] for i in bad[:4]])[:600])
        if bad:
            ctx.not_shown("translation validation K45a", str([info[i] for i in bad[:4]])[:600])


def k45b_validate(ctx: vlib.Ctx):
    """kernel K45b (expression returned by pack_named_tuple) vs the encoder source the real generator produces for random
    NamedTuple classes of int fields (item packer = the identity, so the display is visible verbatim) in both forms"""
    import builtins
    import re
    import mashumaro.core.meta.code.builder as _builder
    from mashumaro.codecs.basic import BasicEncoder
    from mashumaro.dialect import Dialect
    if not ctx.kernel_report.get("K45b", {}).get("ok"):
        return
    rng = ctx.rng
    cases, info = [], []
    for i in range(ctx.budget(30, 200)):
        n = rng.randrange(1, 6)
        names = [f"f{j}" for j in range(n)]
        src = "from typing import NamedTuple\nclass N(NamedTuple):\n" + "".join(f"    {nm}: int\n" for nm in names)
        ns = gen.build_module(src)
        as_dict = rng.random() < 0.5
        dia = type("D", (Dialect,), {"namedtuple_as_dict": as_dict})
        got = []

        def rec(code, g=None, l=None):
            if isinstance(code, str):
                got.append(code)
            return builtins.exec(code, g, l)
        old = _builder.__dict__.get("exec")
        _builder.exec = rec
        try:
            BasicEncoder(ns["N"], default_dialect=dia)
        except Exception as e:
            ctx.not_shown("kernel K45b validation", f"{src}: {type(e).__name__}: {e}"[:300])
            continue
        finally:
            if old is None:
                del _builder.exec
            else:
                _builder.exec = old
        text = "\n".join(got)
        md = re.search(r"\{((?:'f\d+': value\[\d+\](?:, )?)+)\}", text)
        ml = re.search(r"\[((?:value\[\d+\](?:, )?)+)\]", text)
        z = lambda xs: "[" + "; ".join(xs) + "]"
        if md and not ml:
            pairs = re.findall(r"'(f\d+)': value\[(\d+)\]", md.group(1))
            code = "NPDict " + z(coq_str(k) for k, _ in pairs) + " " + z(f"IPos {int(j)}" for _, j in pairs)
        elif ml and not md:
            js = re.findall(r"value\[(\d+)\]", ml.group(1))
            code = "NPList " + z(f"IPos {int(j)}" for j in js)
        else:
            code = "NPList []"       # unrecognised: will not match
        cases.append(f"(({'true' if as_dict else 'false'}, {z(coq_str(x) for x in names)}), {code})")
        info.append((as_dict, names, code))
        ctx.count(("k45b", as_dict, n))
    defs = ("Definition idx_eqb (a b: nt_idx) : bool := match a, b with IName x, IName y => String.eqb x y | IPos x, IPos y => Nat.eqb x y | _, _ => false end.\n"
            "Fixpoint leqb {A} (e: A -> A -> bool) (a b: list A) : bool := match a, b with [], [] => true | x :: r, y :: s => e x y && leqb e r s | _, _ => false end.\n"
            "Definition pcode_eqb (a b: nt_pack_code) : bool := match a, b with NPList x, NPList y => leqb idx_eqb x y "
            "| NPDict k x, NPDict k' y => leqb String.eqb k k' && leqb idx_eqb x y | _, _ => false end.\n")
    okf = "fun c => match c with ((ad, names), code) => pcode_eqb (k45b_pack ad names) code end"
    bad, log = vlib.coq_bad_idx("k45b_pack", "Core TyModel NtEmit", "From VerifGen Require Import K45b.", defs, cases, okf,
                                "(bool * list string) * nt_pack_code", shard=400, timeout=CORR_TIMEOUT, needs=["gen/K45b.vo", "theories/NtEmit.vo"])
    name = "K45b-translation-vs-generated-source"
    if bad is None:
        ctx.correspondence(name, len(cases), -1, log)
        ctx.not_shown("translation validation K45b", log)
    else:
        ctx.correspondence(name, len(cases), len(bad), str([info[i] for i in bad[:4]])[:600])
        if bad:
            ctx.not_shown("translation validation K45b", str([info[i] for i in bad[:4]])[:600])


# ---------------------------------------------------------------------------
# generic dataclasses: fields annotated by type variables (coq/theories/TyTypeVar.v: tv_sty), unspecialised and specialised
# ---------------------------------------------------------------------------

TV_DECL = {"T": "TypeVar('T')", "B": "TypeVar('B', bound=int)", "S": "TypeVar('S', bound=str)", "L": "TypeVar('L', bound=List[int])"}
# TyTypeVar.tv_sty; L: a bound whose packer is not the identity (value.copy()), so an elided None test is visible (fix fc913d1)
TV_UNSPEC = {"T": ("any",), "B": ("opt", ("int",)), "S": ("opt", ("str",)), "L": ("opt", ("list", ("int",)))}
TV_ARGS = {"T": [("int",), ("opt", ("int",)), ("str",), ("list", ("int",)), ("opt", ("list", ("str",))), ("any",)],
           "B": [("int",), ("bool",)], "S": [("str",)], "L": [("list", ("int",))]}


def tv_ann(t) -> str:
    k = t[0]
    return {"any": "Any", "int": "int", "str": "str", "bool": "bool"}.get(k) or (
        t[1] if k == "tv" else f"Optional[{tv_ann(t[1])}]" if k == "opt" else f"List[{tv_ann(t[1])}]" if k == "list" else f"Dict[str, {tv_ann(t[1])}]")


def tv_subst(t, sub):
    k = t[0]
    if k == "tv":
        return sub[t[1]]
    if k in ("opt", "list", "dict"):
        return (k, tv_subst(t[1], sub))
    return t


def tv_coq(t) -> str:
    k = t[0]
    return {"any": "SAny", "int": "SIntT", "str": "SStrT", "bool": "SBoolT"}.get(k) or (
        f"(SOpt {tv_coq(t[1])})" if k == "opt" else f"(SList {tv_coq(t[1])})" if k == "list" else f"(SDict SStrT {tv_coq(t[1])})")


def tv_value(t, rng, d=0):
    k = t[0]
    if k == "any":
        return rng.choice([None, 0, -3, "s", True, 2.5, [1, "a"], {"k": None}])
    if k == "int":
        return rng.choice([0, 1, -7, 2 ** 40])
    if k == "str":
        return rng.choice(["", "x", "12", "None"])
    if k == "bool":
        return rng.random() < 0.5
    if k == "opt":
        return None if rng.random() < 0.35 else tv_value(t[1], rng, d + 1)
    if k == "list":
        return [tv_value(t[1], rng, d + 1) for _ in range(rng.randrange(0, 3))]
    return {f"k{j}": tv_value(t[1], rng, d + 1) for j in range(rng.randrange(0, 3))}


def make_tv_cases(rng, n_schemas: int, foreign: int = 2):
    from mashumaro.codecs.basic import BasicDecoder, BasicEncoder
    cases = []
    pool = [("tv", "T"), ("tv", "B"), ("tv", "S"), ("tv", "L"), ("tv", "L"), ("list", ("tv", "B")), ("list", ("tv", "T")), ("opt", ("tv", "T")), ("dict", ("tv", "B")),
            ("opt", ("list", ("tv", "S"))), ("int",), ("opt", ("str",))]
    for si in range(n_schemas):
        fields = []
        for j in range(rng.randrange(1, 5)):
            t = rng.choice(pool)
            dflt = rng.choice([None, None, "None"]) if t[0] != "int" else rng.choice([None, "0"])
            fields.append([f"f{j}", t, dflt])
        fields.sort(key=lambda f: f[2] is not None)        # defaults last
        used = sorted({n[1] for _, t, _ in fields for n in _tv_walk(t)})
        src = ("from dataclasses import dataclass\nfrom typing import Any, Dict, Generic, List, Optional, TypeVar\n"
               + "".join(f"{v} = {TV_DECL[v]}\n" for v in used)
               + "@dataclass\nclass G" + (f"(Generic[{', '.join(used)}])" if used else "") + ":\n"
               + "".join(f"    {nm}: {tv_ann(t)}" + (f" = {d}" if d is not None else "") + "\n" for nm, t, d in fields))
        ns = gen.build_module(src)
        specialise = bool(used) and rng.random() < 0.5
        sub = {v: (rng.choice(TV_ARGS[v]) if specialise else TV_UNSPEC[v]) for v in used}
        ty = eval("G[" + ", ".join(tv_ann(sub[v]) for v in used) + "]", dict(ns)) if specialise else ns["G"]
        ftypes = [tv_subst(t, sub) for _, t, _ in fields]
        env = ("[ {| sc_kind := KData; sc_name := \"G\"; sc_fields := [" + "; ".join(
            f"{{| sf_name := {coq_str(nm)}; sf_ty := {tv_coq(ft)}; sf_default := {'None' if d is None else '(Some VNone)' if d == 'None' else '(Some (VInt 0))'}; sf_opt := false |}}"
            for (nm, _, d), ft in zip(fields, ftypes)) + "] |} ]")
        try:
            enc, dec = BasicEncoder(ty), BasicDecoder(ty)
        except Exception as e:
            cases.append(dict(env=env, kind="build", src=src, spec=specialise, out=("exc", f"{type(e).__name__}: {e}"[:200])))
            continue
        for vi in range(2):
            v = ns["G"](*[tv_value(ft, rng) for ft in ftypes])
            try:
                w = enc.encode(v)
            except Exception as e:
                cases.append(dict(env=env, kind="enc", value=v, src=src, spec=specialise, out=("exc", type(e).__name__)))
                continue
            cases.append(dict(env=env, kind="enc", value=v, src=src, spec=specialise, out=("ok", w)))
            inputs = [w] + [{k: x for k, x in w.items() if k != k0} for k0 in w] + [corrupt(w, rng) for _ in range(foreign)] + null_variants(w, rng, 3)
            for d in inputs:
                d0 = copy.deepcopy(d)
                try:
                    out = ("ok", dec.decode(d))
                except Exception as e:
                    out = ("exc", type(e).__name__)
                cases.append(dict(env=env, kind="dec", input=d0, src=src, spec=specialise, out=out))
    return cases


def _tv_walk(t):
    if t[0] == "tv":
        yield t
    elif t[0] in ("opt", "list", "dict"):
        yield from _tv_walk(t[1])


def emit_tv(cases, shard=150):
    files = []
    dummy_fam = gen.Family()
    for si in range(0, len(cases), shard):
        chunk = cases[si:si + shard]
        tb = Tables()
        lines = []
        for c in chunk:
            if c["kind"] == "enc":
                e = coq_pv(c["out"][1]) if c["out"][0] == "ok" else '(VOther "impl-raised")'
                lines.append(f"CEnc {c['env']} (SData \"G\") {coq_pv(c['value'])} {e}")
            elif c["kind"] == "dec":
                tb.add_input(c["input"], T("int"), dummy_fam, {})
                e = f"(Some {coq_pv(c['out'][1])})" if c["out"][0] == "ok" else "None"
                lines.append(f"CDec {c['env']} (SData \"G\") {coq_pv(c['input'])} {e}")
            else:
                lines.append(f"CEnc [] SIntT VNone (VOther {coq_str('codec does not build')})")      # never agrees
        txt = HEADER.format(extra="") + tb.coq() + "\n" + OK_FUN
        txt += "Definition cases : list tcase :=\n  [" + ";\n   ".join(lines) + "].\n"
        txt += "Eval vm_compute in (bad_idx ok cases).\n"
        files.append(txt)
    return files


def run_tv(ctx: vlib.Ctx, name: str, n_schemas: int, foreign: int = 2):
    """(M) correspondence for dataclasses whose fields are annotated by type variables (unspecialised: TyTypeVar.tv_sty;
    specialised: the argument, incl. Optional[...] arguments -- fix 4da7e9e), against BasicEncoder / BasicDecoder of G / G[...]"""
    cases = make_tv_cases(ctx.rng, n_schemas, foreign)
    br = vlib.coq_make(["theories/TyModel.vo", "theories/CaseLib.vo", "theories/Wire.vo"])
    if not br.ok:
        return cases, None, "model does not build: " + (br.error or "")
    res = vlib.coq_eval_many([(f"{name}_{i}", txt) for i, txt in enumerate(emit_tv(cases))], timeout=CORR_TIMEOUT, jobs=8)
    bad = []
    for n, (ok, out) in enumerate(res):
        if not ok:
            return cases, None, out[-3000:]
        idx = vlib.parse_nat_list(out)
        if idx is None:
            return cases, None, "unparsable coq output: " + out[-1500:]
        bad.extend(n * 150 + i for i in idx)
    return cases, bad, ""


# ---------------------------------------------------------------------------
# round 7: directed schemas (inside the Coq grammar) for three dimensions the random stream reaches too rarely:
#   (L) Literal types that list an int AND the bool comparing equal to it (0/False, 1/True), in both orders, at depth
#   (N) Optional dataclass fields whose default is falsy but not None (0, "", False, 0.0, a tuple of them) with an explicit null on the wire
#   (H) a nullable holder field -> NamedTuple -> Optional item holding None (and the same NamedTuple below List[Optional[...]])
# ---------------------------------------------------------------------------

def directed_schema(sg: gen.SchemaGen, rng):
    """returns (type tree, holder dataclass name, literal type, literal field name)"""
    pairs = rng.choice([[(0, False)], [(1, True)], [(0, False), (1, True)]])
    ints, bools = [p[0] for p in pairs], [p[1] for p in pairs]
    extra = rng.sample([2, "a", "", None, "1", "True", -1], rng.randrange(0, 3))
    members = (ints + extra + bools) if rng.random() < 0.65 else (bools + extra + ints)
    if rng.random() < 0.3:
        rng.shuffle(members)
    lit = T("lit", extra=members)

    def wrap(x):
        c = rng.random()
        if c < 0.2:
            return x
        if c < 0.4:
            return T("opt", [x])
        if c < 0.6:
            return T("list", [x])
        if c < 0.8:
            return T("dict", [T("str"), T("list", [T("opt", [x])])])
        return T("tuplefix", [T("int"), x])

    # (H) NamedTuple with Optional items, possibly holding another NamedTuple
    inner = None
    if rng.random() < 0.5:
        inner = gen.ClassSpec("nt", sg.fresh("N"))
        inner.fields.append(gen.FieldSpec("a0", T("str")))
        inner.fields.append(gen.FieldSpec("a1", T("opt", [T(rng.choice(["str", "int", "bool"]))])))
        sg.fam.classes.append(inner)
    nt = gen.ClassSpec("nt", sg.fresh("N"))
    nt.fields.append(gen.FieldSpec("a0", T(rng.choice(["str", "int"]))))
    item = rng.choice([T("str"), T("int"), T("bool"), T("leaf", name="date"), T("float"), lit, T("list", [T("int")])])
    nt.fields.append(gen.FieldSpec("a1", T("opt", [item])))
    if inner is not None:
        nt.fields.append(gen.FieldSpec("a2", T("opt", [T("nt", name=inner.name)])))
    if rng.random() < 0.5:
        nt.fields.append(gen.FieldSpec("a3", T("opt", [T(rng.choice(["int", "str"]))]), None, "None"))
    sg.fam.classes.append(nt)
    ntT = lambda: T("nt", name=nt.name)

    d = gen.ClassSpec("data", sg.fresh("D"), mixin=rng.random() < 0.6)
    d.fields.append(gen.FieldSpec("l", wrap(lit)))
    d.fields.append(gen.FieldSpec("h", T("opt", [ntT()])))                       # nullable at field level, no default
    d.fields.append(gen.FieldSpec("p", ntT()))                                   # control: not nullable
    d.fields.append(gen.FieldSpec("q", T("list", [T("opt", [ntT()])])))          # control: nullable below a list
    falsy = [("int", 0), ("str", ""), ("bool", False), ("float", 0.0), ("int", 1), ("str", "x"), ("bool", True), ("float", 1.5)]
    rng.shuffle(falsy)
    for i, (k, dv) in enumerate(falsy[:rng.randrange(3, 7)]):
        d.fields.append(gen.FieldSpec(f"n{i}", T("opt", [T(k)]), dv, repr(dv)))
    if rng.random() < 0.6:
        tt = T("tuplefix", [T("int"), T("str")])
        dv = rng.choice([(0, ""), (0, "x")])
        d.fields.append(gen.FieldSpec("nt_", T("opt", [tt]), dv, repr(dv)))
    d.fields.append(gen.FieldSpec("g", T("opt", [ntT()]), None, "None"))           # nullable by Optional and default None
    d.fields.append(gen.FieldSpec("z", T("opt", [T("int")]), None, "None"))
    sg.fam.classes.append(d)
    dT = T("data", name=d.name)
    c = rng.random()
    t = dT if c < 0.5 else T("list", [dT]) if c < 0.7 else T("dict", [T("str"), T("list", [dT])]) if c < 0.85 else T("opt", [dT])
    return t, d.name, lit, nt.name


def _directed_inputs(w, dname_fields, rng):
    """every single-position variant of a wire value in which (a) the value of one key of one mapping is null, (b) one item of one
    list is null -- the explicit nulls of (N) and (H) at every depth -- plus bools at one int position"""
    out = []

    def go(x, rebuild):
        if len(out) > 60:
            return
        if isinstance(x, dict):
            for k in x:
                if x[k] is not None:
                    out.append(rebuild({**x, k: None}))
                go(x[k], lambda z, k=k, x=x, rebuild=rebuild: rebuild({**x, k: z}))
        elif isinstance(x, list):
            for i, y in enumerate(x):
                if y is not None:
                    out.append(rebuild(x[:i] + [None] + x[i + 1:]))
                if type(y) is int and y in (0, 1):
                    out.append(rebuild(x[:i] + [bool(y)] + x[i + 1:]))
                go(y, lambda z, i=i, x=x, rebuild=rebuild: rebuild(x[:i] + [z] + x[i + 1:]))
        elif type(x) is int and x in (0, 1):
            out.append(rebuild(bool(x)))
        elif type(x) is bool:
            out.append(rebuild(int(x)))
    go(w, lambda z: z)
    return out


def make_directed_cases(rng, n_schemas: int, per_schema: int = 3, limit: int = 24):
    """python-side cases of the directed schemas; every case also carries its codec ("enc"/"dec" objects) for the direct oracles"""
    from mashumaro.codecs.basic import BasicDecoder, BasicEncoder
    cases = []
    for si in range(n_schemas):
        sg = gen.SchemaGen(rng, gen.GenOpts(depth=2, coq_only=True, named=True, literals=True))
        sg.tag = f"r7_{si}_"
        t, dname, lit, ntname = directed_schema(sg, rng)
        fam = sg.fam
        ns = fam.build()
        ty = gen.resolve(t, ns)
        enc, dec = BasicEncoder(ty), BasicDecoder(ty)
        vg = gen.ValueGen(rng, fam)
        mixin_top = t.kind == "data" and fam.get(t.name).mixin
        base = dict(fam=fam, t=t, ns=ns, enc_o=enc, dec_o=dec)

        def outcome(f):
            try:
                return ("ok", f())
            except Exception as e:
                return ("exc", type(e).__name__)
        vals = [vg.value(t) for _ in range(per_schema)]
        # every member of the Literal at its position, and a NamedTuple whose Optional items are all None, in a holder built by hand
        dT = T("data", name=dname)
        for m in lit.extra:
            hv = vg.value(dT)
            lt = fam.get(dname).fields[0].ty
            lv = {"lit": m, "opt": m, "list": [m, m], "dict": {"k": [m, None]}, "tuplefix": (7, m)}[lt.kind]
            hv = dataclasses.replace(hv, l=lv)
            ntc = ns[ntname]
            hv = dataclasses.replace(hv, h=ntc(*[(None if f.ty.kind == "opt" else getattr(hv.p, f.name)) for f in fam.get(ntname).fields]))
            vals.append(hv if t.kind == "data" else [hv] if t.kind == "list" else {"k": [hv]} if t.kind == "dict" else hv)
        for v in vals:
            if mixin_top:
                cases.append(dict(base, kind="enc", value=v, out=outcome(lambda: v.to_dict()), entry="mixin"))
            o = outcome(lambda: enc.encode(v))
            cases.append(dict(base, kind="enc", value=v, out=o))
            if o[0] != "ok":
                continue
            w = o[1]
            extra = _directed_inputs(w, None, rng)
            rng.shuffle(extra)
            for d in [w] + extra[:limit]:
                d0 = copy.deepcopy(d)
                cases.append(dict(base, kind="dec", input=d0, out=outcome(lambda: dec.decode(copy.deepcopy(d0)))))
                if mixin_top:
                    cases.append(dict(base, kind="dec", input=d0, out=outcome(lambda: ns[t.name].from_dict(copy.deepcopy(d0))), entry="mixin"))
    return cases


def run_directed(ctx: vlib.Ctx, name: str, n_schemas: int):
    """returns (cases, bad indices or None, log) like run()"""
    cases = make_directed_cases(ctx.rng, n_schemas)
    br = vlib.coq_make(["theories/TyModel.vo", "theories/CaseLib.vo", "theories/Wire.vo"])
    if not br.ok:
        return cases, None, "model does not build: " + (br.error or "")
    files = emit(cases)
    res = vlib.coq_eval_many([(f"{name}_{i}", txt) for i, txt in enumerate(files)], timeout=CORR_TIMEOUT, jobs=4)
    bad = []
    for n, (ok, out) in enumerate(res):
        if not ok:
            return cases, None, out[-3000:]
        idx = vlib.parse_nat_list(out)
        if idx is None:
            return cases, None, "unparsable coq output: " + out[-1500:]
        bad.extend(n * 150 + i for i in idx)
    return cases, bad, ""
