"""C15, format family: the format mixins (to_msgpack / to_jsonb / to_json / to_yaml / to_toml and their from_*),
the format Encoder/Decoder objects and the one-shot format functions must agree for the same type, dialect and
value - in particular for USER dialects that redefine the (de)serialization of the very types the format's own
built-in dialect mentions (bytes/bytearray for msgpack, datetime/date/time/UUID for orjson and toml), and for
options the built-in dialect sets (omit_none for toml, no_copy_collections).

Outside the Coq model (format libraries, strategies with user code): oracle only."""
from __future__ import annotations

import dataclasses
import datetime
import uuid

from harness import c15lib as L

FORMATS = {
    # name: (mixin import, mixin class, to-method, from-method, codec module, Encoder, Decoder, one-shot enc, one-shot dec)
    "msgpack": ("mashumaro.mixins.msgpack", "DataClassMessagePackMixin", "to_msgpack", "from_msgpack",
                "mashumaro.codecs.msgpack", "MessagePackEncoder", "MessagePackDecoder", "msgpack_encode", "msgpack_decode"),
    "orjson": ("mashumaro.mixins.orjson", "DataClassORJSONMixin", "to_jsonb", "from_json",
               "mashumaro.codecs.orjson", "ORJSONEncoder", "ORJSONDecoder", "json_encode", "json_decode"),
    "json": ("mashumaro.mixins.json", "DataClassJSONMixin", "to_json", "from_json",
             "mashumaro.codecs.json", "JSONEncoder", "JSONDecoder", "json_encode", "json_decode"),
    "yaml": ("mashumaro.mixins.yaml", "DataClassYAMLMixin", "to_yaml", "from_yaml",
             "mashumaro.codecs.yaml", "YAMLEncoder", "YAMLDecoder", "yaml_encode", "yaml_decode"),
    "toml": ("mashumaro.mixins.toml", "DataClassTOMLMixin", "to_toml", "from_toml",
             "mashumaro.codecs.toml", "TOMLEncoder", "TOMLDecoder", "toml_encode", "toml_decode"),
}

# leaf types: python source, value generator
LEAVES = ["int", "str", "bool", "date", "datetime", "time", "UUID", "bytes", "bytearray"]

# user strategies per leaf type: (serialize source, deserialize source) - all reversible
STRATEGIES = {
    "bytes": [("bytes.hex", "bytes.fromhex"), ("_b_list", "bytes")],
    "bytearray": [("_ba_hex", "bytearray.fromhex"), ("_b_list", "bytearray")],
    "date": [("date.toordinal", "date.fromordinal"), ("_iso_d", "_uniso_d")],
    "datetime": [("_iso_dt", "_uniso_dt")],
    "time": [("_iso_t", "_uniso_t")],
    "UUID": [("_uuid_hex", "_uuid_unhex"), ("_uuid_int", "_uuid_unint")],
    "int": [("str", "int")],
    "str": [("_rev", "_rev")],
}

HEADER = """from dataclasses import dataclass, field
from datetime import date, datetime, time
from typing import Dict, List, Optional, Tuple, Union
from uuid import UUID
from mashumaro import DataClassDictMixin, pass_through
from mashumaro.config import BaseConfig, ADD_DIALECT_SUPPORT
from mashumaro.dialect import Dialect
from {mixin_mod} import {mixin}


def _b_list(b): return list(b)
def _ba_hex(b): return bytes(b).hex()
def _iso_d(d): return "D:" + d.isoformat()
def _uniso_d(s): return date.fromisoformat(s[2:])
def _iso_dt(d): return "DT:" + d.isoformat()
def _uniso_dt(s): return datetime.fromisoformat(s[3:])
def _iso_t(d): return "T:" + d.isoformat()
def _uniso_t(s): return time.fromisoformat(s[2:])
def _uuid_hex(u): return u.hex
def _uuid_unhex(s): return UUID(hex=s)
def _uuid_int(u): return str(u.int)
def _uuid_unint(s): return UUID(int=int(s))
def _rev(s): return s[::-1]

"""


class FScenario:
    def __init__(self):
        self.fmt = None
        self.classes = []       # (name, mixin: bool, [(fname, alias, ty)])   ty: ('leaf', name) | ('list', t) | ('dict', t) | ('opt', t) | ('data', name)
        self.placement = None   # None | "call" | "config"
        self.dialect_src = ""
        self.dialect_desc = {}
        self.by_alias = {}


def py_ty(t):
    k = t[0]
    if k == "leaf":
        return t[1]
    if k == "list":
        return f"List[{py_ty(t[1])}]"
    if k == "dict":
        return f"Dict[str, {py_ty(t[1])}]"
    if k == "dictk":
        return f"Dict[{t[1]}, {py_ty(t[2])}]"
    if k == "tuple":
        return "Tuple[" + ", ".join(py_ty(x) for x in t[1]) + "]"
    if k == "opt":
        return f"Optional[{py_ty(t[1])}]"
    return t[1]


def gen_ty(rng, names, depth, native):
    ch = ["leaf"] * 5 + (["data"] * 2 if names else []) + (["list", "dict", "dictk", "tuple", "opt"] if depth > 0 else [])
    k = rng.choice(ch)
    if k == "dictk":
        # mapping keys other than str: what the format's own parser accepts as a key differs per format/option
        return ("dictk", rng.choice(["int", "int", "date", "bool", "UUID"]), gen_ty(rng, names, depth - 1, native))
    if k == "tuple":
        return ("tuple", [gen_ty(rng, names, depth - 1, native) for _ in range(rng.randint(1, 3))])
    if k == "leaf":
        # the format's native types are drawn more often
        return ("leaf", rng.choice(LEAVES + list(native) * 3))
    if k == "data":
        return ("data", rng.choice(names))
    return (k, gen_ty(rng, names, depth - 1, native))


NATIVE = {"msgpack": ["bytes", "bytearray"], "orjson": ["datetime", "date", "time", "UUID"],
          "toml": ["datetime", "date", "time"], "json": [], "yaml": []}


def gen_fscenario(rng, fmt) -> FScenario:
    sc = FScenario()
    sc.fmt = fmt
    native = NATIVE[fmt]
    n = rng.randint(1, 3)
    for i in range(n):
        names = [c[0] for c in sc.classes]
        fields = []
        for fn in rng.sample(["x", "y", "z", "u", "w"], rng.randint(1, 4)):
            alias = "a_" + fn if rng.random() < 0.3 else None
            fields.append((fn, alias, gen_ty(rng, names, 2, native)))
        if native and not any(t[0] == "leaf" and t[1] in native for (_, _, t) in fields):
            # every class holds at least one of the format's native types (directly or in a container)
            inner = ("leaf", rng.choice(native))
            fields.append(("v", None, rng.choice([inner, inner, ("list", inner), ("opt", inner), ("dict", inner)])))
        sc.classes.append((f"F{i}", rng.random() < 0.7 or i == n - 1, fields))
    sc.placement = rng.choice([None, "call", "call", "config", "config"])
    if sc.placement:
        types = rng.sample(list(STRATEGIES), rng.randint(1, 3))
        # bias towards the types the format dialect itself mentions
        for t in native:
            if t in STRATEGIES and rng.random() < 0.6 and t not in types:
                types.append(t)
        if native and not (set(types) & set(native)) and rng.random() < 0.85:
            types.append(rng.choice([t for t in native if t in STRATEGIES]))
        lines = []
        for t in types:
            form = rng.random()
            ser, de = rng.choice(STRATEGIES[t])
            if form < 0.7:
                lines.append(f"{t}: {{'serialize': {ser}, 'deserialize': {de}}}")
            elif form < 0.85:
                lines.append(f"{t}: {{'serialize': {ser}}}")
            else:
                lines.append(f"{t}: pass_through")
            sc.dialect_desc[t] = (ser, de, form)
        body = "    serialization_strategy = {" + ", ".join(lines) + "}\n"
        for opt, vals in (("omit_none", ["True", "False"]), ("serialize_by_alias", ["True", "False"]),
                          ("no_copy_collections", ["()", "(list,)", "(list, dict)"])):
            if rng.random() < 0.35:
                body += f"    {opt} = {rng.choice(vals)}\n"
                sc.dialect_desc[opt] = True
        sc.dialect_src = "class X(Dialect):\n" + body + "\n"
    return sc


def fsrc(sc: FScenario) -> str:
    f = FORMATS[sc.fmt]
    s = HEADER.format(mixin_mod=f[0], mixin=f[1]) + sc.dialect_src
    for (name, mixin, fields) in sc.classes:
        s += f"@dataclass\nclass {name}" + (f"({f[1]})" if mixin else "") + ":\n"
        for (fn, alias, ft) in fields:
            s += f"    {fn}: {py_ty(ft)}" + (f" = field(metadata={{'alias': {alias!r}}})" if alias else "") + "\n"
        if sc.placement == "call":
            s += "    class Config(BaseConfig):\n        code_generation_options = [ADD_DIALECT_SUPPORT]\n"
        elif sc.placement == "config":
            s += "    class Config(BaseConfig):\n        dialect = X\n"
        s += "\n"
    return s


def gen_leaf(rng, name):
    if name == "int":
        return rng.randint(-5, 1000)
    if name == "str":
        return "".join(rng.choice("abcxyz") for _ in range(rng.randint(0, 4)))
    if name == "bool":
        return rng.random() < 0.5
    if name == "date":
        return datetime.date(rng.randint(1990, 2035), rng.randint(1, 12), rng.randint(1, 28))
    if name == "datetime":
        return datetime.datetime(rng.randint(1990, 2035), rng.randint(1, 12), rng.randint(1, 28), rng.randint(0, 23), rng.randint(0, 59), rng.randint(0, 59))
    if name == "time":
        return datetime.time(rng.randint(0, 23), rng.randint(0, 59), rng.randint(0, 59))
    if name == "UUID":
        return uuid.UUID(int=rng.getrandbits(128))
    if name == "bytes":
        return bytes(rng.randrange(256) for _ in range(rng.randint(0, 4)))
    if name == "bytearray":
        return bytearray(rng.randrange(256) for _ in range(rng.randint(0, 4)))
    raise ValueError(name)


def gen_val(rng, sc, mod, t):
    k = t[0]
    if k == "leaf":
        return gen_leaf(rng, t[1])
    if k == "list":
        return [gen_val(rng, sc, mod, t[1]) for _ in range(rng.randint(0, 2))]
    if k == "dict":
        return {kk: gen_val(rng, sc, mod, t[1]) for kk in rng.sample(["a", "b"], rng.randint(0, 2))}
    if k == "dictk":
        return {gen_leaf(rng, t[1]): gen_val(rng, sc, mod, t[2]) for _ in range(rng.randint(0, 2))}
    if k == "tuple":
        return tuple(gen_val(rng, sc, mod, x) for x in t[1])
    if k == "opt":
        return None if rng.random() < 0.3 else gen_val(rng, sc, mod, t[1])
    fields = [c for c in sc.classes if c[0] == t[1]][0][2]
    return getattr(mod, t[1])(**{fn: gen_val(rng, sc, mod, ft) for (fn, _, ft) in fields})


def _loads():
    import json
    import msgpack
    import orjson
    import yaml
    return {"msgpack": lambda b: msgpack.unpackb(b, raw=False), "orjson": orjson.loads, "json": json.loads,
            "yaml": yaml.safe_load}


LOADS = _loads()


def _dumps():
    import json
    import msgpack
    import orjson
    import tomli_w
    import yaml
    return {
        "msgpack": [lambda o: msgpack.packb(o, use_bin_type=True), lambda o: msgpack.packb(o, use_bin_type=False)],
        "orjson": [lambda o: orjson.dumps(o, option=orjson.OPT_NON_STR_KEYS)],
        "json": [lambda o: json.dumps(o), lambda o: json.dumps(o, indent=1)],
        "yaml": [lambda o: yaml.safe_dump(o), lambda o: yaml.safe_dump(o, default_flow_style=True)],
        "toml": [lambda o: tomli_w.dumps(o)],
    }


DUMPS = _dumps()


def parse_lenient(fmt, wire):
    import msgpack
    import tomllib
    if fmt == "msgpack":
        return msgpack.unpackb(wire, raw=False, strict_map_key=False)
    if fmt == "toml":
        return tomllib.loads(wire if isinstance(wire, str) else wire.decode())
    return LOADS[fmt](wire)


def perturb(rng, o, depth=0):
    """a foreign document of the same format: other key types, other scalar types, missing/extra entries"""
    if isinstance(o, dict):
        out = {}
        for k, v in o.items():
            r = rng.random()
            if r < 0.1:
                continue
            if r < 0.3 and isinstance(k, str) and k.lstrip("-").isdigit():
                k = int(k)
            elif r < 0.3 and isinstance(k, int) and not isinstance(k, bool):
                k = str(k)
            out[k] = perturb(rng, v, depth + 1) if rng.random() < 0.6 else v
        if rng.random() < 0.35:
            out[rng.choice([1, 0, 7, "zz", "1"])] = rng.choice([1, "x", None, [], {}])
        return out
    if isinstance(o, list):
        return [perturb(rng, x, depth + 1) if rng.random() < 0.5 else x for x in o]
    r = rng.random()
    if r < 0.6:
        return o
    if isinstance(o, bool):
        return rng.choice([0, "true", None])
    if isinstance(o, int):
        return rng.choice([str(o), float(o), None, {1: o}])
    if isinstance(o, str):
        return rng.choice([o + "x", 5, None, [o], {1: o}])
    return rng.choice([None, 1, "s"])


def leaves_of(sc, t, seen=None):
    seen = set() if seen is None else seen
    k = t[0]
    if k == "leaf":
        return {t[1]}
    if k in ("list", "dict", "opt"):
        return leaves_of(sc, t[1], seen)
    if k == "dictk":
        return {t[1]} | leaves_of(sc, t[2], seen)
    if k == "tuple":
        out = set()
        for x in t[1]:
            out |= leaves_of(sc, x, seen)
        return out
    if t[1] in seen:
        return set()
    seen.add(t[1])
    out = set()
    for (_, _, ft) in [c for c in sc.classes if c[0] == t[1]][0][2]:
        out |= leaves_of(sc, ft, seen)
    return out


def one_direction_types(sc):
    """types for which the user dialect gives a dict strategy with 'serialize' only while the format's built-in
    dialect has an entry for the same type (then Dialect.merge replaces that entry wholesale, whereas the lookup
    chain of the mixin path still falls through to it for the missing direction)"""
    return {t for t, d in sc.dialect_desc.items()
            if isinstance(d, tuple) and 0.7 <= d[2] < 0.85 and t in NATIVE[sc.fmt]}


def outcome(fn):
    try:
        return ("ok", fn())
    except RecursionError:
        raise
    except Exception as e:  # noqa
        return ("err", type(e).__name__)


def show(x):
    return repr(x)[:300]


def run_format_family(ctx, budget):
    """returns nothing; reports through ctx.fail"""
    import importlib
    fmts = list(FORMATS)
    for n in range(budget):
        fmt = fmts[n % len(fmts)]
        f = FORMATS[fmt]
        sc = gen_fscenario(ctx.rng, fmt)
        src = fsrc(sc)
        mod = L.load_module(src, f"fmt{fmt}{n}")
        try:
            codec = importlib.import_module(f[4])
            Enc, Dec, one_enc, one_dec = (getattr(codec, f[5]), getattr(codec, f[6]), getattr(codec, f[7]), getattr(codec, f[8]))
            X = getattr(mod, "X", None)
            call_kw = {"dialect": X} if sc.placement == "call" else {}
            codec_kw = {"default_dialect": X} if sc.placement == "call" else {}
            ctx.hist("format_scenario", f"{fmt}:{sc.placement}")
            for t in sc.dialect_desc:
                ctx.hist("format_dialect_touches", f"{fmt}:{t}" + (":native" if t in NATIVE[fmt] else ""))
            for (name, mixin, fields) in sc.classes:
                if not mixin:
                    continue
                D = getattr(mod, name)
                for _ in range(2):
                    x = gen_val(ctx.rng, sc, mod, ("data", name))
                    eps = {
                        f"x.{f[2]}({'dialect=X' if call_kw else ''})": lambda: getattr(x, f[2])(**call_kw),
                        f"{f[5]}(D{', default_dialect=X' if codec_kw else ''}).encode(x)": lambda: Enc(D, **codec_kw).encode(x),
                    }
                    if not codec_kw:
                        eps[f"{f[7]}(x, D)"] = lambda: one_enc(x, D)
                    outs = {k: outcome(v) for k, v in eps.items() if v is not None}
                    ctx.count(("fmt-enc", fmt, n, name, show(x)), n=len(outs))
                    names = list(outs)
                    ref = names[0]
                    failed = False
                    for k in names[1:]:
                        if outs[k] != outs[ref]:
                            ctx.fail(f"{fmt}: entry points disagree for the same type, dialect and value: {ref} = {show(outs[ref])} but {k} = {show(outs[k])}",
                                     {"entry": "format-family", "source": src, "format": fmt, "class": name, "placement": sc.placement,
                                      "value": repr(x), "a": ref, "b": k, "observed_a": show(outs[ref]), "observed_b": show(outs[k]),
                                      "expected": "identical results"},
                                     {"kind": "format-family"})
                            failed = True
                            break
                    if failed or outs[ref][0] != "ok":
                        continue
                    wire = outs[ref][1]
                    if fmt != "toml":       # a TOML document is a table: no top-level list
                        from typing import Dict, List
                        loads = LOADS[fmt]
                        comp = outcome(lambda: (loads(Enc(List[D], **codec_kw).encode([x]))[0],
                                                loads(Enc(Dict[str, D], **codec_kw).encode({"k": x}))["k"]))
                        one = outcome(lambda: loads(wire))
                        ctx.count(("fmt-comp", fmt, n, name), n=2)
                        if one[0] == "ok" and comp != ("ok", (one[1], one[1])):
                            ctx.fail(f"{fmt}: composite codec is not elementwise: {f[5]}(List[D]) / (Dict[str,D]) give {show(comp)} but the element codec gives {show(one)}",
                                     {"entry": "format-family", "source": src, "format": fmt, "class": name, "placement": sc.placement,
                                      "value": repr(x), "a": "composite", "b": "element", "observed_a": show(comp), "observed_b": show(one),
                                      "expected": "identical results"},
                                     {"kind": "format-family"})
                            continue
                    dps = {
                        f"D.{f[3]}(b{', dialect=X' if call_kw else ''})": lambda: getattr(D, f[3])(wire, **call_kw),
                        f"{f[6]}(D{', default_dialect=X' if codec_kw else ''}).decode(b)": lambda: Dec(D, **codec_kw).decode(wire),
                    }
                    if not codec_kw:
                        dps[f"{f[8]}(b, D)"] = lambda: one_dec(wire, D)
                    douts = {k: outcome(v) for k, v in dps.items()}
                    ctx.count(("fmt-dec", fmt, n, name, show(wire)), n=len(douts))
                    dn = list(douts)
                    # foreign documents: every decoding entry point must parse the same bytes the same way
                    base = outcome(lambda: parse_lenient(fmt, wire))
                    if base[0] == "ok" and all(douts[k] == douts[dn[0]] for k in dn):
                        for _ in range(3):
                            doc = perturb(ctx.rng, base[1])
                            for dump in DUMPS[fmt]:
                                fw = outcome(lambda: dump(doc))
                                if fw[0] != "ok":
                                    continue
                                fwire = fw[1]
                                fps = {
                                    f"D.{f[3]}(b{', dialect=X' if call_kw else ''})": lambda: getattr(D, f[3])(fwire, **call_kw),
                                    f"{f[6]}(D{', default_dialect=X' if codec_kw else ''}).decode(b)": lambda: Dec(D, **codec_kw).decode(fwire),
                                }
                                if not codec_kw:
                                    fps[f"{f[8]}(b, D)"] = lambda: one_dec(fwire, D)
                                fouts = {k: outcome(v) for k, v in fps.items()}
                                ctx.count(("fmt-foreign", fmt, n, name, show(fwire)), n=len(fouts))
                                ctx.hist("format_foreign_doc", fmt + ":" + list(fouts.values())[0][0])
                                fn_ = list(fouts)
                                for k in fn_[1:]:
                                    if fouts[k] != fouts[fn_[0]]:
                                        sig = {"kind": "format-family"}
                                        if sc.placement == "call" and (one_direction_types(sc) & leaves_of(sc, ("data", name))):
                                            sig = {"kind": "format-dialect-one-direction"}
                                        ctx.fail(f"{fmt}: decoding entry points parse the same document differently: {fn_[0]} = {show(fouts[fn_[0]])} "
                                                 f"but {k} = {show(fouts[k])} on {show(fwire)}",
                                                 {"entry": "format-family", "source": src, "format": fmt, "class": name, "placement": sc.placement,
                                                  "value": repr(x), "wire": repr(fwire), "a": fn_[0], "b": k, "observed_a": show(fouts[fn_[0]]),
                                                  "observed_b": show(fouts[k]), "expected": "identical results"},
                                                 sig)
                                        break
                    for k in dn[1:]:
                        if douts[k] != douts[dn[0]]:
                            sig = {"kind": "format-family"}
                            if sc.placement == "call" and (one_direction_types(sc) & leaves_of(sc, ("data", name))):
                                sig = {"kind": "format-dialect-one-direction"}
                            ctx.fail(f"{fmt}: decoding entry points disagree: {dn[0]} = {show(douts[dn[0]])} but {k} = {show(douts[k])}",
                                     {"entry": "format-family", "source": src, "format": fmt, "class": name, "placement": sc.placement,
                                      "value": repr(x), "a": dn[0], "b": k, "observed_a": show(douts[dn[0]]), "observed_b": show(douts[k]),
                                      "expected": "identical results"},
                                     sig)
                            break
        finally:
            L.unload_module(mod)


def replay_format(rep) -> int:
    """re-run the recorded class of the recorded module with fresh values (the module source is self-contained)"""
    import importlib
    import random
    src, fmt, name = rep["source"], rep["format"], rep["class"]
    f = FORMATS[fmt]
    mod = L.load_module(src, "fmtreplay")
    try:
        codec = importlib.import_module(f[4])
        Enc, Dec = getattr(codec, f[5]), getattr(codec, f[6])
        X = getattr(mod, "X", None)
        call_kw = {"dialect": X} if rep["placement"] == "call" else {}
        codec_kw = {"default_dialect": X} if rep["placement"] == "call" else {}
        D = getattr(mod, name)
        x = eval(rep["value"], dict(mod.__dict__, datetime=datetime, UUID=uuid.UUID, bytearray=bytearray))
        if rep.get("wire"):
            fwire = eval(rep["wire"])
            c = outcome(lambda: getattr(D, f[3])(fwire, **call_kw))
            d = outcome(lambda: Dec(D, **codec_kw).decode(fwire))
            print("mixin decode:", show(c)); print("codec decode:", show(d))
            return 1 if c != d else 0
        a = outcome(lambda: getattr(x, f[2])(**call_kw))
        b = outcome(lambda: Enc(D, **codec_kw).encode(x))
        print("mixin:", show(a)); print("codec:", show(b))
        rc = 1 if a != b else 0
        if a[0] == "ok" and not rc:
            c = outcome(lambda: getattr(D, f[3])(a[1], **call_kw))
            d = outcome(lambda: Dec(D, **codec_kw).decode(a[1]))
            print("mixin decode:", show(c)); print("codec decode:", show(d))
            rc = 1 if c != d else 0
        return rc
    finally:
        L.unload_module(mod)
