"""C04 support: schema/value generators, the per-format representable-subset predicate,
the format parsers (the formats' own libraries = oracles), the relation ~_F between a parsed
document and the basic form, and the property check on the real implementation.

Nothing here imports mashumaro at module import time (VERIF_REPO decides which tree is used)."""
from __future__ import annotations

import base64
import dataclasses
import datetime as dt
import decimal
import enum
import ipaddress
import math
import sys
import types
import uuid

FORMATS = ["json", "orjson", "yaml", "msgpack", "toml"]
I64_MIN, I64_MAX = -2 ** 63, 2 ** 63 - 1

HEADER = """import datetime, decimal, enum, ipaddress, uuid
from dataclasses import dataclass, field
from typing import (Annotated, Any, Dict, Final, FrozenSet, List, Literal, Mapping, NamedTuple, Optional, Self, Sequence, Set,
                    Tuple, TypedDict, Union)
from mashumaro import DataClassDictMixin
from mashumaro.config import ADD_DIALECT_SUPPORT, BaseConfig
from mashumaro.dialect import Dialect
from mashumaro.types import Discriminator
from mashumaro.mixins.json import DataClassJSONMixin
from mashumaro.mixins.orjson import DataClassORJSONMixin
from mashumaro.mixins.yaml import DataClassYAMLMixin
from mashumaro.mixins.msgpack import DataClassMessagePackMixin
from mashumaro.mixins.toml import DataClassTOMLMixin


# user dialects (call-time `dialect=` / codec `default_dialect=`): lossless strategy pairs; some touch the
# types a format dialect declares native (bytes, bytearray, datetime, date), some do not
class XD_empty(Dialect):
    pass


class XD_date(Dialect):
    serialization_strategy = {datetime.date: {"serialize": datetime.date.toordinal, "deserialize": datetime.date.fromordinal}}


class XD_bytes(Dialect):
    serialization_strategy = {bytes: {"serialize": bytes.hex, "deserialize": bytes.fromhex}}


def _ba_hex(b):
    return bytes(b).hex()


class XD_bytearray(Dialect):
    serialization_strategy = {bytearray: {"serialize": _ba_hex, "deserialize": bytearray.fromhex}}


class XD_datetime(Dialect):
    serialization_strategy = {datetime.datetime: {"serialize": datetime.datetime.isoformat,
                                                  "deserialize": datetime.datetime.fromisoformat}}


class XD_uuid_decimal(Dialect):
    serialization_strategy = {uuid.UUID: {"serialize": lambda u: u.hex, "deserialize": lambda s: uuid.UUID(hex=s)},
                              decimal.Decimal: {"serialize": lambda d: [str(d)], "deserialize": lambda l: decimal.Decimal(l[0])}}
"""

USER_DIALECTS = ["XD_empty", "XD_date", "XD_bytes", "XD_bytearray", "XD_datetime", "XD_uuid_decimal"]
NATIVE_LEAVES = ["bytes", "bytearray", "date", "datetime", "time"]


# ---------------------------------------------------------------------------
# type descriptors
# ---------------------------------------------------------------------------

class T:
    __slots__ = ("kind", "args", "name")

    def __init__(self, kind, *args, name=None):
        self.kind = kind
        self.args = args
        self.name = name

    def __repr__(self):
        return ann(self)


SCALAR_LEAVES = ["int", "float", "bool", "str", "bytes", "bytearray", "datetime", "date", "time", "timedelta",
                 "uuid", "decimal", "ipv4"]
LEAF_ANN = {"int": "int", "float": "float", "bool": "bool", "str": "str", "bytes": "bytes", "bytearray": "bytearray",
            "datetime": "datetime.datetime", "date": "datetime.date", "time": "datetime.time",
            "timedelta": "datetime.timedelta", "uuid": "uuid.UUID", "decimal": "decimal.Decimal",
            "ipv4": "ipaddress.IPv4Address", "none": "None"}
SMALL_LEAVES = ["int", "float", "bool", "str", "bytes", "bytearray", "datetime", "date", "time", "uuid", "decimal"]
HASHABLE_LEAVES = ["int", "str", "date", "uuid", "bytes", "time", "bool"]
KEY_LEAVES = ["str", "str", "str", "str", "int", "date", "uuid"]


def ann(t: T) -> str:
    k = t.kind
    if k in LEAF_ANN:
        return LEAF_ANN[k]
    if k in ("enum", "dc", "nt", "td"):
        return t.name
    if k == "lit":
        return "Literal[" + ", ".join(repr(x) for x in t.args[0]) + "]"
    if k == "list":
        return f"List[{ann(t.args[0])}]"
    if k == "seq":
        return f"Sequence[{ann(t.args[0])}]"
    if k == "tuplevar":
        return f"Tuple[{ann(t.args[0])}, ...]"
    if k == "tuplefix":
        return "Tuple[" + ", ".join(ann(x) for x in t.args[0]) + "]"
    if k == "set":
        return f"Set[{ann(t.args[0])}]"
    if k == "frozenset":
        return f"FrozenSet[{ann(t.args[0])}]"
    if k == "dict":
        return f"Dict[{ann(t.args[0])}, {ann(t.args[1])}]"
    if k == "mapping":
        return f"Mapping[{ann(t.args[0])}, {ann(t.args[1])}]"
    if k == "opt":
        sp = t.args[1] if len(t.args) > 1 else None      # the spelling of the same type
        if sp == "annotated":
            return f'Annotated[Optional[{ann(t.args[0])}], "meta"]'
        if sp == "final":
            return f"Final[Optional[{ann(t.args[0])}]]"
        if sp == "union":
            return f"Union[{ann(t.args[0])}, None]"
        return f"Optional[{ann(t.args[0])}]"
    if k == "union":
        return "Union[" + ", ".join(ann(x) for x in t.args[0]) + "]"
    if k == "any":
        return "Any"
    if k == "dunion":
        return "Annotated[Union[" + ", ".join(ann(x) for x in t.args[0]) + f'], Discriminator(field="{t.args[1]}", include_supertypes=True)]'
    if k == "dbase":
        return t.name
    if k == "selfopt":
        return "Optional[Self]" if t.args and t.args[0] else f'Optional["{t.name}"]'
    if k == "selflist":
        return "List[Self]" if t.args and t.args[0] else f'List["{t.name}"]'
    raise ValueError(k)


def kinds(t: T, acc=None) -> set:
    acc = set() if acc is None else acc
    acc.add(t.kind)
    for a in t.args:
        if isinstance(a, T):
            kinds(a, acc)
        elif isinstance(a, (list, tuple)):
            for x in a:
                if isinstance(x, T):
                    kinds(x, acc)
    return acc


def kinds_deep(t: T, S, acc=None, seen=None) -> set:
    """type kinds reachable from t, descending into generated classes"""
    acc = set() if acc is None else acc
    seen = set() if seen is None else seen
    for k in [t]:
        acc.add(k.kind)
        if k.name and k.name not in seen and k.kind in ("dc", "nt", "td"):
            seen.add(k.name)
            for _, ft, d in S.classes[k.name]["fields"]:
                kinds_deep(ft, S, acc, seen)
                if k.kind == "dc" and ft.kind in ("opt", "selfopt"):
                    acc.add("optional-field-default-" + ("none" if d == "None" else ("missing" if d is None else "other")))
        for a in k.args:
            if isinstance(a, T):
                kinds_deep(a, S, acc, seen)
            elif isinstance(a, (list, tuple)):
                for x in a:
                    if isinstance(x, T):
                        kinds_deep(x, S, acc, seen)
    return acc


# ---------------------------------------------------------------------------
# schema (module) generator
# ---------------------------------------------------------------------------

def respell(t: T, r, allow_final=False) -> T:
    """the same Optional type under another annotation spelling"""
    if t.kind != "opt" or len(t.args) > 1:
        return t
    x = r.random()
    if x < 0.16:
        return T("opt", t.args[0], "annotated")
    if x < 0.22:
        return T("opt", t.args[0], "union")
    if allow_final and x < 0.36:
        return T("opt", t.args[0], "final")
    return t


class Schema:
    """A generated module: enums, named tuples, typed dicts, dataclasses (source text) + descriptors."""

    def __init__(self, rng, jsonkind: str, small: bool = False, dialect_mode: bool = False):
        self.rng = rng
        self.dialect_mode = dialect_mode   # every dataclass enables ADD_DIALECT_SUPPORT
        self.small = small                 # grammar of the Coq model (Format.v) only
        self.jsonkind = jsonkind           # which JSON mixin root classes carry: "json" | "orjson"
        self.defs: list[str] = []
        self.n = 0
        self.classes: dict[str, dict] = {}  # name -> {"kind","fields":[(fname,T,default_kind)], "bases":[...]}

    def fresh(self, p):
        self.n += 1
        return f"{p}{self.n}"

    def all_mixins(self):
        j = "DataClassJSONMixin" if self.jsonkind == "json" else "DataClassORJSONMixin"
        return [j, "DataClassYAMLMixin", "DataClassMessagePackMixin", "DataClassTOMLMixin"]

    # -- leaves with class definitions
    def new_enum(self) -> T:
        r = self.rng
        name = self.fresh("E")
        style = r.choice(["str", "int", "intenum"])
        if style == "str":
            members = [("A", "'a'"), ("B", "'b b'"), ("C", "'\\u00e9'")]
            base = "enum.Enum"
        elif style == "int":
            members = [("A", "1"), ("B", "-2"), ("C", "0")]
            base = "enum.Enum"
        else:
            members = [("A", "1"), ("B", "2"), ("C", "70000")]
            base = "enum.IntEnum"
        self.defs.append(f"class {name}({base}):\n" + "".join(f"    {m} = {v}\n" for m, v in members))
        self.classes[name] = {"kind": "enum", "style": style, "members": [m for m, _ in members]}
        return T("enum", name=name)

    def new_nt(self, depth) -> T:
        r = self.rng
        name = self.fresh("N")
        fields = []
        for i in range(r.randint(1, 3)):
            fields.append((f"n{i}", self.gen_type(depth - 1, allow_classes=False), None))
        if r.random() < 0.4:
            fields.append(("nd", T("opt", T("int")), "None"))
        body = "".join(f"    {f}: {ann(t)}" + (f" = {d}" if d else "") + "\n" for f, t, d in fields)
        self.defs.append(f"class {name}(NamedTuple):\n{body}")
        self.classes[name] = {"kind": "nt", "fields": fields}
        return T("nt", name=name)

    def new_td(self, depth) -> T:
        r = self.rng
        name = self.fresh("D")
        fields = [(f"t{i}", self.gen_type(depth - 1, allow_classes=False), None) for i in range(r.randint(1, 3))]
        body = "".join(f"    {f}: {ann(t)}\n" for f, t, _ in fields)
        self.defs.append(f"class {name}(TypedDict):\n{body}")
        self.classes[name] = {"kind": "td", "fields": fields}
        return T("td", name=name)

    def new_dc(self, depth, root=False, prefix="f", base: str | None = None, tag=None, discr_field=None,
               force_native=False, need_mixin=False, force_self=False, wrapped_opts=False) -> T:
        """tag = (field name, literal): adds `field: Literal[lit] = lit`; discr_field: class-level
        Config.discriminator on that field (include_subtypes); force_native: one field of a type that some
        format dialect declares native"""
        r = self.rng
        name = self.fresh("R" if root else "C")
        fields = []
        nf = r.randint(2, 6) if root else r.randint(1, 4)
        for i in range(nf):
            t = respell(self.gen_type(depth - 1), r, allow_final=True)
            fields.append([f"{prefix}{name.lower()}_{i}", t, None])
        if force_native:
            fields.append([f"{prefix}{name.lower()}_nat", T(r.choice(NATIVE_LEAVES)), None])
        if tag is not None:
            fields.append([tag[0], T("lit", [tag[1]]), repr(tag[1])])
        if base is None and discr_field is None and (force_self or r.random() < (0.15 if self.small else 0.10)):
            # a field referring to the class itself: by name (forward reference, always the declaring class) or
            # by typing.Self (the class of the instance: a subclass nests instances of the subclass)
            use_self = (force_self is True) or (force_self != "name" and r.random() < 0.5)
            if r.random() < 0.6:
                fields.append([f"{prefix}{name.lower()}_self", T("selfopt", use_self, name=name), "None"])
            else:
                fields.append([f"{prefix}{name.lower()}_self", T("selflist", use_self, name=name), "field(default_factory=list)"])
        # defaults: Optional fields mostly default to None; a few stay required, a few get a non-None default
        for f in fields:
            t = f[1]
            if discr_field is not None:     # a discriminator base keeps only required fields
                continue
            if t.kind == "opt":
                x = r.random()
                if x < 0.72:
                    f[2] = "None"
                elif x < 0.80 and t.args[0].kind == "int" and not self.small:
                    f[2] = "7"
            elif self.small:
                pass
            elif t.kind == "int" and r.random() < 0.2:
                f[2] = "3"
            elif t.kind == "list" and r.random() < 0.2:
                f[2] = "field(default_factory=list)"
        if wrapped_opts and base is None and discr_field is None:
            # required nullable fields under the other spellings of Optional (is_field_nullable must see through them)
            fields.append([f"{prefix}{name.lower()}_wa", T("opt", T("int"), "annotated"), None])
            fields.append([f"{prefix}{name.lower()}_wf", T("opt", T("str"), "final"), None])
            fields.append([f"{prefix}{name.lower()}_wu", T("opt", T("date"), "union"), None])
        inherited = []
        bases = []
        if base is not None:
            inherited = list(self.classes[base]["fields"])
            bases.append(base)
            if any(d for _, _, d in inherited):
                for f in fields:           # after a defaulted parent field every new field needs a default
                    if f[2] is None:
                        if f[1].kind == "opt":
                            f[2] = "None"
                        elif f[1].kind in ("int", "str", "bool", "float") and r.random() < 0.7:
                            f[2] = {"int": "42", "str": "'dflt'", "bool": "False", "float": "0.5"}[f[1].kind]
                        else:
                            f[1] = T("opt", f[1]) if f[1].kind != "opt" else f[1]
                            f[2] = "None"
        fields.sort(key=lambda f: f[2] is not None)      # required first (stable)
        if root:
            bases += self.all_mixins() if base is None or True else []
        elif base is None and need_mixin:   # subclasses must own their to_dict for polymorphic fields
            bases += r.choice([["DataClassDictMixin"], self.all_mixins()])
        elif base is None and force_self:
            bases += r.choice([self.all_mixins(), self.all_mixins(), ["DataClassMessagePackMixin"], ["DataClassTOMLMixin"], []])
        elif base is None:
            bases += r.choice([[], [], ["DataClassDictMixin"], self.all_mixins(),
                               ["DataClassMessagePackMixin"], ["DataClassTOMLMixin"]])
        # a child of a class that already has the mixins must not repeat them in a conflicting order
        if base is not None:
            have = set(self.classes[base]["mixins"])
            bases = [b for b in bases if b not in have]
        mixins = [b for b in bases if b.startswith("DataClass")] + (self.classes[base]["mixins"] if base else [])
        body = "".join(f"    {f}: {ann(t)}" + (f" = {d}" if d else "") + "\n" for f, t, d in fields) or "    pass\n"
        cfg = []
        if self.dialect_mode:
            cfg.append("code_generation_options = [ADD_DIALECT_SUPPORT]")
        if discr_field is not None:
            cfg.append(f'discriminator = Discriminator(field="{discr_field}", include_subtypes=True)')
        if cfg:
            body += "    class Config(BaseConfig):\n" + "".join(f"        {c}\n" for c in cfg)
        self.defs.append("@dataclass\nclass %s%s:\n%s" % (name, "(" + ", ".join(bases) + ")" if bases else "", body))
        allf = inherited + [tuple(f) for f in fields]
        self.classes[name] = {"kind": "dc", "fields": allf, "mixins": mixins, "base": base, "has_config": bool(cfg)}
        return T("dc", name=name)

    def gen_leaf(self, pool=None) -> T:
        r = self.rng
        if pool is not None:
            return T(r.choice(pool))
        x = r.random()
        if x < 0.08:
            return self.new_enum()
        if x < 0.12:
            return T("lit", r.choice([["x", "y"], ["x", 1], [1, 2, 3]]))
        if x < 0.19:
            return T("any")
        return T(r.choice(SCALAR_LEAVES))

    def gen_key(self) -> T:
        r = self.rng
        k = r.choice(KEY_LEAVES)
        if r.random() < 0.08:
            e = self.new_enum()
            if self.classes[e.name]["style"] == "str":
                return e
            return T("str")
        return T(k)

    def gen_type(self, depth, allow_classes=True) -> T:
        r = self.rng
        if self.small:          # the grammar of the Coq model (Fmt.v)
            if depth <= 0 or r.random() < 0.42:
                x = r.random()
                if x < 0.12:
                    return T("any")
                if x < 0.24:
                    return self.new_enum()
                return T(r.choice(SMALL_LEAVES))
            c = r.choice(["list", "dict", "opt", "opt", "dc", "dc", "child", "dunion", "tuplevar", "set", "frozenset", "nt", "td"])
            if c == "tuplevar":
                if r.random() < 0.5:
                    ts = [self.gen_type(depth - 1) for _ in range(r.randint(1, 3))]
                    name = self.fresh("Tup")
                    self.classes[name] = {"kind": "fix", "fields": [(f"i{i}", t, None) for i, t in enumerate(ts)]}
                    return T("tuplefix", ts, name=name)
                return T("tuplevar", self.gen_type(depth - 1))
            if c in ("set", "frozenset"):
                return T(c, self.new_enum() if r.random() < 0.3 else T(r.choice(HASHABLE_LEAVES)))
            if c == "nt":
                return self.new_nt(depth)
            if c == "td":
                return self.new_td(depth)
            if c == "list":
                return T("list", self.gen_type(depth - 1))
            if c == "dict":
                return T("dict", T("str"), self.gen_type(depth - 1))
            if c == "opt":
                inner = self.gen_type(depth - 1)
                return inner if inner.kind == "opt" else respell(T("opt", inner), r)
            if c == "child":
                b = self.new_dc(depth - 1, force_self=r.random() < 0.4)
                return self.new_dc(depth - 1, base=b.name)
            if c == "dunion":
                fld = r.choice(["kind", "type", "t"])
                vs = [self.new_dc(depth - 1, prefix=f"dv{i}", tag=(fld, lit), force_native=r.random() < 0.8)
                      for i, lit in enumerate(r.choice([["a", "b"], ["x", "y", "z"]]))]
                return T("dunion", vs, fld)
            return self.new_dc(depth - 1)
        if depth <= 0 or r.random() < 0.42:
            return self.gen_leaf()
        choices = ["list", "list", "dict", "dict", "opt", "opt", "opt", "tuplevar", "tuplefix", "set", "frozenset",
                   "mapping", "seq", "union"]
        if allow_classes:
            choices += ["dc", "dc", "dc", "nt", "td", "dcunion", "child", "dunion", "dunion", "dbase"]
        c = r.choice(choices)
        if c in ("list", "seq", "tuplevar"):
            return T(c, self.gen_type(depth - 1, allow_classes))
        if c in ("set", "frozenset"):
            return T(c, self.gen_leaf(HASHABLE_LEAVES))
        if c in ("dict", "mapping"):
            return T(c, self.gen_key(), self.gen_type(depth - 1, allow_classes))
        if c == "opt":
            inner = self.gen_type(depth - 1, allow_classes)
            while inner.kind in ("opt", "none"):
                inner = inner.args[0] if inner.kind == "opt" else T("int")
            if inner.kind == "union":
                return inner if any(m.kind == "none" for m in inner.args[0]) else T("opt", T("int"))
            return respell(T("opt", inner), r)
        if c == "tuplefix":
            return T(c, [self.gen_type(depth - 1, allow_classes) for _ in range(r.randint(1, 3))])
        if c == "union":
            return T("union", r.choice([[T("int"), T("str")], [T("str"), T("list", T("int"))],
                                        [T("int"), T("dict", T("str"), T("bool"))]]))
        if c == "dc":
            return self.new_dc(depth - 1)
        if c == "child":
            b = self.new_dc(depth - 1, force_self=r.random() < 0.4)
            return self.new_dc(depth - 1, base=b.name)
        if c == "nt":
            return self.new_nt(depth)
        if c == "td":
            return self.new_td(depth)
        if c == "dunion":
            fld = r.choice(["kind", "type", "t"])
            vs = [self.new_dc(depth - 1, prefix=f"dv{i}", tag=(fld, lit), force_native=r.random() < 0.8)
                  for i, lit in enumerate(r.choice([["a", "b"], ["x", "y", "z"], [1, 2]]))]
            return T("dunion", vs, fld)
        if c == "dbase":
            if self.dialect_mode:       # ADD_DIALECT_SUPPORT + class-level discriminator is C12/C13 territory
                return self.gen_leaf()
            fld = r.choice(["kind", "type"])
            b = self.new_dc(0, prefix="db", discr_field=fld, need_mixin=True)
            vs = [self.new_dc(depth - 1, prefix=f"ds{i}", base=b.name, tag=(fld, lit), force_native=r.random() < 0.8)
                  for i, lit in enumerate(["p", "q"])]
            return T("dbase", vs, fld, name=b.name)
        if c == "dcunion":
            a = self.new_dc(depth - 1, prefix="ua")
            b = self.new_dc(depth - 1, prefix="ub")
            # each member needs one required, distinctly named field so that decoding is unambiguous
            for m in (a, b):
                fs = self.classes[m.name]["fields"]
                if all(d is not None for _, _, d in fs):
                    return m
            return T("union", [a, b])
        raise ValueError(c)

    def source(self) -> str:
        return HEADER + "\n\n" + "\n\n".join(self.defs) + "\n"


def load_module(src: str, name: str):
    mod = types.ModuleType(name)
    sys.modules[name] = mod
    exec(compile(src, f"<{name}>", "exec", dont_inherit=True), mod.__dict__)
    return mod


def unload_module(name: str):
    sys.modules.pop(name, None)


# ---------------------------------------------------------------------------
# value generator (edge biased); values always use the canonical concrete classes
# ---------------------------------------------------------------------------

INTS = [0, 1, -1, 255, 2 ** 31, -2 ** 31 - 1, I64_MAX, I64_MIN, I64_MAX - 1, I64_MIN + 1, 2 ** 53 + 1,
        I64_MAX + 1, I64_MIN - 1, 10 ** 30]
FLOATS = [0.0, -0.0, 1.5, -1e-7, 1e300, 5e-324, 1e16, 0.1, -123456.789, 1.0, float("inf"), float("-inf"),
          float("nan"), 2.0 ** 63, 1e-5]
STRS = ["", "a", "\u00e9", " ", "\n", "null", "1", "true", "2020-01-01", "\x00", "\u2028", "\U0001F600", "a: b",
        "\u043a\u043b\u044e\u0447", "- x", "#", "'", '"', "\\", "a\tb\r\n", "~", " lead", "trail ", "1e3", ".inf", "\x7f\x85\xa0"]
KEYS = ["", "a", "\u00e9", "a.b", "k k", "1", "\n", "\u043a\u043b\u044e\u0447", "null", "true", "x'y", 'q"', "#", "\U0001F600", "[t]",
        "a=b", "\\", "0.5", "~", "-"]
BYTES = [b"", b"\x00", b"a", b"ab", b"abc", b"\xff" * 58, b"\n", bytes(range(256)), b"=", b"\x80\x00\x7f"]
OFFSETS = [0, 0, -30 * 60, 5 * 3600 + 45 * 60, 23 * 3600 + 59 * 60, -(23 * 3600 + 59 * 60), 60, -60, 3600, 30, -1,
           12 * 3600 + 34 * 60 + 56]


def tzinfo_of(r):
    off = r.choice(OFFSETS)
    if off == 0 and r.random() < 0.5:
        return dt.timezone.utc
    return dt.timezone(dt.timedelta(seconds=off))


def gen_datetime(r):
    base = r.choice([dt.datetime(2020, 1, 2, 3, 4, 5), dt.datetime(1, 1, 1), dt.datetime(9999, 12, 31, 23, 59, 59, 999999),
                     dt.datetime(1970, 1, 1, 0, 0, 0, 1), dt.datetime(2000, 2, 29, 12, 0, 0, 500000),
                     dt.datetime(r.randint(2, 9998), r.randint(1, 12), r.randint(1, 28), r.randint(0, 23), r.randint(0, 59),
                                 r.randint(0, 59), r.choice([0, 1, 999999, r.randint(0, 999999)]))])
    if r.random() < 0.5:
        return base
    return base.replace(tzinfo=tzinfo_of(r))


def gen_time(r):
    base = r.choice([dt.time(0, 0), dt.time(23, 59, 59, 999999), dt.time(1, 2, 3), dt.time(12, 0, 0, 1),
                     dt.time(r.randint(0, 23), r.randint(0, 59), r.randint(0, 59), r.choice([0, 5, r.randint(0, 999999)]))])
    if r.random() < 0.7:
        return base
    return base.replace(tzinfo=tzinfo_of(r))


TIMEDELTAS = [dt.timedelta(0), dt.timedelta(seconds=-1.5), dt.timedelta(microseconds=1), dt.timedelta(microseconds=-1),
              dt.timedelta(days=10000, microseconds=1), dt.timedelta(days=-10000), dt.timedelta(seconds=0.000123),
              dt.timedelta(hours=25, minutes=-1), dt.timedelta(milliseconds=-999)]
DECIMALS = ["0", "1.10", "-0.0", "1E+3", "123456789.123456789012345678", "-7", "0.000001"]


def gen_any(r, depth):
    """a JSON-like value for an Any-typed position (passed through untouched in both directions)"""
    x = r.random()
    if depth >= 2 or x < 0.45:
        return r.choice([0, 1, -5, 2 ** 40, True, False, 1.5, -0.25, "", "s", "\u00e9", "1", None, "x y"])
    if x < 0.75:
        return [gen_any(r, depth + 1) for _ in range(r.choice([0, 1, 2, 3]))]
    return {r.choice(["a", "b", "k k", "", "\u00e9", "1"]): gen_any(r, depth + 1) for _ in range(r.choice([0, 1, 2]))}


def gen_value(t: T, S: Schema, mod, r, depth=0):
    k = t.kind
    if k == "none":
        return None
    if k == "int":
        return r.choice(INTS) if r.random() < 0.6 else r.randint(I64_MIN, I64_MAX)
    if k == "float":
        return r.choice(FLOATS) if r.random() < 0.7 else r.uniform(-1e6, 1e6)
    if k == "bool":
        return r.random() < 0.5
    if k == "str":
        return r.choice(STRS) if r.random() < 0.8 else "".join(r.choice("abcXYZ 019_-") for _ in range(r.randint(1, 12)))
    if k == "bytes":
        return r.choice(BYTES) if r.random() < 0.7 else bytes(r.randrange(256) for _ in range(r.randint(1, 9)))
    if k == "bytearray":
        return bytearray(r.choice(BYTES) if r.random() < 0.7 else bytes(r.randrange(256) for _ in range(r.randint(1, 9))))
    if k == "datetime":
        return gen_datetime(r)
    if k == "date":
        return r.choice([dt.date(1, 1, 1), dt.date(9999, 12, 31), dt.date(2020, 2, 29), dt.date(r.randint(1, 9999), r.randint(1, 12), r.randint(1, 28))])
    if k == "time":
        return gen_time(r)
    if k == "timedelta":
        return r.choice(TIMEDELTAS) if r.random() < 0.7 else dt.timedelta(seconds=r.randint(-10 ** 6, 10 ** 6), microseconds=r.randint(0, 999999))
    if k == "uuid":
        return r.choice([uuid.UUID(int=0), uuid.UUID(int=2 ** 128 - 1), uuid.UUID(int=r.getrandbits(128))])
    if k == "decimal":
        return decimal.Decimal(r.choice(DECIMALS))
    if k == "ipv4":
        return ipaddress.IPv4Address(r.choice(["0.0.0.0", "255.255.255.255", "10.0.0.1"]))
    if k == "enum":
        return getattr(getattr(mod, t.name), r.choice(S.classes[t.name]["members"]))
    if k == "lit":
        return r.choice(t.args[0])
    if k in ("list", "seq"):
        n = r.choice([0, 0, 1, 2, 3])
        return [gen_value(t.args[0], S, mod, r, depth + 1) for _ in range(n)]
    if k == "tuplevar":
        n = r.choice([0, 1, 2, 3])
        return tuple(gen_value(t.args[0], S, mod, r, depth + 1) for _ in range(n))
    if k == "tuplefix":
        return tuple(gen_value(x, S, mod, r, depth + 1) for x in t.args[0])
    if k in ("set", "frozenset"):
        n = r.choice([0, 1, 2, 3])
        xs = [gen_value(t.args[0], S, mod, r, depth + 1) for _ in range(n)]
        return set(xs) if k == "set" else frozenset(xs)
    if k in ("dict", "mapping"):
        n = r.choice([0, 0, 1, 2, 3])
        out = {}
        for _ in range(n):
            kt = t.args[0]
            key = r.choice(KEYS) if kt.kind == "str" else gen_value(kt, S, mod, r, depth + 1)
            if kt.kind == "int":
                key = r.choice([0, 1, -1, 10, 2 ** 40, -7])
            out[key] = gen_value(t.args[1], S, mod, r, depth + 1)
        return out
    if k == "opt":
        if r.random() < 0.4:
            return None
        return gen_value(t.args[0], S, mod, r, depth)
    if k == "union":
        return gen_value(r.choice(t.args[0]), S, mod, r, depth)
    if k == "any":
        return gen_any(r, 0)
    if k in ("dunion", "dbase"):
        return gen_value(r.choice(t.args[0]), S, mod, r, depth)
    if k in ("selfopt", "selflist"):
        deep = depth > 6 or r.random() < 0.55
        if k == "selfopt":
            return None if deep else gen_value(T("dc", name=t.name), S, mod, r, depth + 3)
        return [] if deep else [gen_value(T("dc", name=t.name), S, mod, r, depth + 3) for _ in range(r.choice([1, 2]))]
    if k == "dc":
        cls = getattr(mod, t.name)
        kw = {}
        for f, ft, _ in S.classes[t.name]["fields"]:
            if ft.kind in ("selfopt", "selflist") and ft.args and ft.args[0]:
                ft = T(ft.kind, True, name=t.name)      # typing.Self: the class of this instance
            kw[f] = gen_value(ft, S, mod, r, depth + 1)
        return cls(**kw)
    if k == "nt":
        cls = getattr(mod, t.name)
        return cls(*[gen_value(ft, S, mod, r, depth + 1) for _, ft, _ in S.classes[t.name]["fields"]])
    if k == "td":
        return {f: gen_value(ft, S, mod, r, depth + 1) for f, ft, _ in S.classes[t.name]["fields"]}
    raise ValueError(k)


# ---------------------------------------------------------------------------
# value -> python source (for self-contained replay files)
# ---------------------------------------------------------------------------

def vsrc(v) -> str:
    if v is None or isinstance(v, (bool, str, bytes)):
        return repr(v)
    if isinstance(v, enum.Enum):
        return f"{type(v).__name__}.{v.name}"
    if isinstance(v, int):
        return repr(v)
    if isinstance(v, float):
        if math.isnan(v):
            return "float('nan')"
        if math.isinf(v):
            return "float('inf')" if v > 0 else "float('-inf')"
        return repr(v)
    if isinstance(v, bytearray):
        return f"bytearray({bytes(v)!r})"
    if isinstance(v, (dt.datetime, dt.date, dt.time, dt.timedelta, dt.timezone)):
        return repr(v)
    if isinstance(v, uuid.UUID):
        return f"uuid.UUID({str(v)!r})"
    if isinstance(v, decimal.Decimal):
        return f"decimal.Decimal({str(v)!r})"
    if isinstance(v, ipaddress.IPv4Address):
        return f"ipaddress.IPv4Address({str(v)!r})"
    if dataclasses.is_dataclass(v):
        return type(v).__name__ + "(" + ", ".join(f"{f.name}={vsrc(getattr(v, f.name))}" for f in dataclasses.fields(v)) + ")"
    if isinstance(v, tuple) and hasattr(v, "_fields"):
        return type(v).__name__ + "(" + ", ".join(vsrc(x) for x in v) + ")"
    if isinstance(v, list):
        return "[" + ", ".join(vsrc(x) for x in v) + "]"
    if isinstance(v, tuple):
        return "(" + "".join(vsrc(x) + ", " for x in v) + ")"
    if isinstance(v, frozenset):
        return "frozenset([" + ", ".join(vsrc(x) for x in v) + "])"
    if isinstance(v, set):
        return "set([" + ", ".join(vsrc(x) for x in v) + "])"
    if isinstance(v, dict):
        return "{" + ", ".join(f"{vsrc(a)}: {vsrc(b)}" for a, b in v.items()) + "}"
    raise TypeError(type(v))


# ---------------------------------------------------------------------------
# equality "equal and same concrete types" (nan-aware, sign of zero kept)
# ---------------------------------------------------------------------------

def same(a, b) -> bool:
    if type(a) is not type(b):
        return False
    if isinstance(a, float):
        if math.isnan(a) or math.isnan(b):
            return math.isnan(a) and math.isnan(b)
        return a == b and math.copysign(1.0, a) == math.copysign(1.0, b)
    if dataclasses.is_dataclass(a):
        return all(same(getattr(a, f.name), getattr(b, f.name)) for f in dataclasses.fields(a))
    if isinstance(a, (list, tuple)):
        return len(a) == len(b) and all(same(x, y) for x, y in zip(a, b))
    if isinstance(a, (set, frozenset)):
        return a == b and all(any(same(x, y) for y in b) for x in a)
    if isinstance(a, dict):
        if len(a) != len(b):
            return False
        for k, x in a.items():
            hit = [k2 for k2 in b if type(k2) is type(k) and k2 == k]
            if not hit or not same(x, b[hit[0]]):
                return False
        return True
    if isinstance(a, (dt.datetime, dt.time)):
        return a == b and (a.tzinfo is None) == (b.tzinfo is None) and a.utcoffset() == b.utcoffset() and a.replace(tzinfo=None) == b.replace(tzinfo=None)
    if isinstance(a, decimal.Decimal):
        return a == b and str(a) == str(b)
    return a == b


# ---------------------------------------------------------------------------
# F's representable subset (the quantifier of C04), stated as one explicit predicate
# ---------------------------------------------------------------------------

def _whole_minute(tz_holder) -> bool:
    off = tz_holder.utcoffset() if isinstance(tz_holder, dt.datetime) else tz_holder.utcoffset()
    return off is None or (off.microseconds == 0 and off.seconds % 60 == 0)


def outside_subset(F: str, v, top=True, ctx="top", skip_datetime_offsets=False):
    """None if v lies inside F's representable subset, else the reason (a short tag).

    From the property's quantifier:
      string map keys for orjson/msgpack/toml; 64-bit ints for orjson/msgpack; finite floats for orjson;
      naive times for orjson/toml; table at top level for toml.
    Stated additions (what the format itself cannot represent; each one is a loud library error or a
    documented lossy rendering of the third-party library, never silently assumed):
      * toml has no null: None is representable only as a dataclass field (omitted key), not inside
        lists / mapping values / named tuples / typed dicts, and not at top level;
      * orjson (RFC 3339) and toml offsets are whole minutes: datetimes with a sub-minute utcoffset are outside;
      * lone surrogate code points are not generated at all (not valid Unicode text for any of the libraries).
    """
    if top and F == "toml":
        if not (dataclasses.is_dataclass(v) or isinstance(v, dict)):
            return "toml-top-level-not-table"
    if v is None:
        if F == "toml" and ctx != "field":
            return "toml-null-outside-dataclass-field"
        return None
    if isinstance(v, bool):
        return None
    if isinstance(v, enum.Enum):
        return outside_subset(F, v.value, False, ctx, skip_datetime_offsets)
    if isinstance(v, int):
        if F in ("orjson", "msgpack") and not (I64_MIN <= v <= I64_MAX):
            return "int-beyond-64-bit"
        return None
    if isinstance(v, float):
        if F == "orjson" and not math.isfinite(v):
            return "orjson-non-finite-float"
        return None
    if isinstance(v, dt.datetime):
        if F in ("orjson", "toml") and not _whole_minute(v) and not skip_datetime_offsets:
            return "sub-minute-utc-offset"
        return None
    if isinstance(v, dt.time):
        if F in ("orjson", "toml") and v.tzinfo is not None:
            return "aware-time"
        return None
    if dataclasses.is_dataclass(v):
        for f in dataclasses.fields(v):
            why = outside_subset(F, getattr(v, f.name), False, "field", skip_datetime_offsets)
            if why:
                return why
        return None
    if isinstance(v, dict):
        for k, x in v.items():
            if F in ("orjson", "msgpack", "toml"):
                if not (type(k) is str or (isinstance(k, enum.Enum) and type(k.value) is str)):
                    return "non-string-map-key"
            why = outside_subset(F, x, False, "elem", skip_datetime_offsets)
            if why:
                return why
        return None
    if isinstance(v, (list, tuple, set, frozenset)):
        for x in v:
            why = outside_subset(F, x, False, "elem", skip_datetime_offsets)
            if why:
                return why
        return None
    return None


# ---------------------------------------------------------------------------
# the formats' own libraries (independent of mashumaro's helper functions)
# ---------------------------------------------------------------------------

def parse_doc(F: str, doc):
    if F == "json":
        import json
        return json.loads(doc)
    if F == "orjson":
        import orjson
        return orjson.loads(doc)
    if F == "yaml":
        import yaml
        return yaml.load(doc, getattr(yaml, "CSafeLoader", yaml.SafeLoader))
    if F == "msgpack":
        import msgpack
        return msgpack.unpackb(doc, raw=False)
    if F == "toml":
        import tomllib
        return tomllib.loads(doc)
    raise ValueError(F)


def ser_doc(F: str, b):
    if F == "json":
        import json
        return json.dumps(b)
    if F == "orjson":
        import orjson
        return orjson.dumps(b)
    if F == "yaml":
        import yaml
        return yaml.dump(b, Dumper=getattr(yaml, "CDumper", yaml.Dumper))
    if F == "msgpack":
        import msgpack
        return msgpack.packb(b, use_bin_type=True)
    if F == "toml":
        import tomli_w
        return tomli_w.dumps(b)
    raise ValueError(F)


def json_key(k):
    """JSON object keys are strings: json.dumps renders int keys in decimal (format, not mashumaro)."""
    if type(k) is int:
        return str(k)
    return k


def norm_tree(F: str, b):
    """norm_F of the assumed law  parse_F(ser_F(b)) == norm_F(b)  (b = dialect-specialised basic tree)."""
    if isinstance(b, dict):
        return {(json_key(k) if F == "json" else k): norm_tree(F, x) for k, x in b.items()}
    if isinstance(b, (list, tuple)):
        return [norm_tree(F, x) for x in b]
    if F == "msgpack" and isinstance(b, bytearray):
        return bytes(b)
    if F == "orjson":
        if isinstance(b, (dt.datetime, dt.date, dt.time)):
            return b.isoformat()
        if isinstance(b, uuid.UUID):
            return str(b)
    return b


def leaf_eq(a, b) -> bool:
    if type(a) is not type(b):
        return False
    if isinstance(a, float):
        if math.isnan(a) or math.isnan(b):
            return math.isnan(a) and math.isnan(b)
        return a == b and math.copysign(1.0, a) == math.copysign(1.0, b)
    if isinstance(a, (dt.datetime, dt.time)):
        return a == b and a.utcoffset() == b.utcoffset() and a.replace(tzinfo=None) == b.replace(tzinfo=None)
    return a == b


def tree_eq(a, b) -> bool:
    if isinstance(a, dict) and isinstance(b, dict):
        return len(a) == len(b) and all(k in b and type([k2 for k2 in b if k2 == k][0]) is type(k) and tree_eq(x, b[k]) for k, x in a.items())
    if isinstance(a, list) and isinstance(b, list):
        return len(a) == len(b) and all(tree_eq(x, y) for x, y in zip(a, b))
    return leaf_eq(a, b)


def _iso_equiv(p: str, b: str) -> bool:
    for parse in (dt.datetime.fromisoformat, dt.date.fromisoformat, dt.time.fromisoformat, uuid.UUID):
        try:
            x, y = parse(p), parse(b)
        except Exception:
            continue
        return leaf_eq(x, y)
    return False


def approx(F: str, parsed, basic, path="$"):
    """parsed ~_F basic.  Returns None when related, else (path, why).
    ~_F is equality of trees (same keys, same leaf classes and values) except exactly:
      toml    : a key whose basic value is None may be absent; a datetime/date/time object stands for its
                isoformat() text;
      msgpack : a bytes object stands for its base64 text (encodebytes);
      orjson  : a native datetime/date/time/UUID is rendered by orjson itself (RFC 3339 text denoting the same value);
      json    : object keys are the JSON renderings of the basic keys (int -> decimal text)."""
    if isinstance(basic, dict):
        if not isinstance(parsed, dict):
            return path, f"expected mapping, document has {type(parsed).__name__}"
        want = {}
        for k, x in basic.items():
            kk = json_key(k) if F == "json" else k
            want[kk] = x
        for k, x in want.items():
            hit = [k2 for k2 in parsed if type(k2) is type(k) and k2 == k]
            if not hit:
                if F == "toml" and x is None:
                    continue
                return f"{path}[{k!r}]", "key missing in document"
            r = approx(F, parsed[hit[0]], x, f"{path}[{k!r}]")
            if r:
                return r
        for k in parsed:
            if not [k2 for k2 in want if type(k2) is type(k) and k2 == k]:
                return f"{path}[{k!r}]", "extra key in document"
        return None
    if isinstance(basic, list):
        if not isinstance(parsed, list) or len(parsed) != len(basic):
            return path, "list length/class differs"
        for i, (p, b) in enumerate(zip(parsed, basic)):
            r = approx(F, p, b, f"{path}[{i}]")
            if r:
                return r
        return None
    if leaf_eq(parsed, basic):
        return None
    if F == "toml" and isinstance(parsed, (dt.datetime, dt.date, dt.time)) and type(basic) is str and parsed.isoformat() == basic:
        return None
    if F == "msgpack" and type(parsed) is bytes and type(basic) is str and base64.encodebytes(parsed).decode() == basic:
        return None
    if F == "orjson" and type(parsed) is str and type(basic) is str and _iso_equiv(parsed, basic):
        return None
    return path, f"document has {parsed!r} ({type(parsed).__name__}), basic form has {basic!r} ({type(basic).__name__})"


# ---------------------------------------------------------------------------
# entry points of the real implementation
# ---------------------------------------------------------------------------

CODEC_MODS = {"json": ("mashumaro.codecs.json", "JSONEncoder", "JSONDecoder"),
              "orjson": ("mashumaro.codecs.orjson", "ORJSONEncoder", "ORJSONDecoder"),
              "yaml": ("mashumaro.codecs.yaml", "YAMLEncoder", "YAMLDecoder"),
              "msgpack": ("mashumaro.codecs.msgpack", "MessagePackEncoder", "MessagePackDecoder"),
              "toml": ("mashumaro.codecs.toml", "TOMLEncoder", "TOMLDecoder")}
MIXIN_METHODS = {"json": ("to_json", "from_json"), "orjson": ("to_jsonb", "from_json"), "yaml": ("to_yaml", "from_yaml"),
                 "msgpack": ("to_msgpack", "from_msgpack"), "toml": ("to_toml", "from_toml")}


def ident(x, **kw):
    return x


class Entry:
    """One way to encode/decode shape S in format F.  kind: mixin | mixin-str (orjson to_json) | codec | func.
    dialect: a user dialect, given at call time (mixin: `dialect=`) or at construction (codec: `default_dialect=`)."""

    def __init__(self, F, kind, shape, cache=None, dialect=None):
        import importlib
        self.F, self.kind, self.shape, self.dialect = F, kind, shape, dialect
        self.kw = {"dialect": dialect} if dialect is not None else {}
        self.enc = self.dec = None
        if kind in ("codec", "func"):
            m = importlib.import_module(CODEC_MODS[F][0])
            if kind == "codec":
                key = (F, id(shape), id(dialect))
                if cache is not None and key in cache:
                    self.enc, self.dec = cache[key]
                else:
                    ckw = {"default_dialect": dialect} if dialect is not None else {}
                    self.enc = getattr(m, CODEC_MODS[F][1])(shape, **ckw)
                    self.dec = getattr(m, CODEC_MODS[F][2])(shape, **ckw)
                    if cache is not None:
                        cache[key] = (self.enc, self.dec)
            else:
                self.mod = m

    def encode(self, v):
        F = self.F
        if self.kind == "mixin":
            return getattr(v, MIXIN_METHODS[F][0])(**self.kw)
        if self.kind == "mixin-str":
            return v.to_json(**self.kw)
        if self.kind == "codec":
            return self.enc.encode(v)
        return self.mod.encode(v, self.shape)

    def decode(self, doc):
        F = self.F
        if self.kind in ("mixin", "mixin-str"):
            return getattr(self.shape, MIXIN_METHODS[F][1])(doc, **self.kw)
        if self.kind == "codec":
            return self.dec.decode(doc)
        return self.mod.decode(doc, self.shape)

    def native_tree(self, v):
        """pack_F(v): the dialect-specialised basic tree handed to the format library (observed by
        passing the identity as encoder / post_encoder_func).  None when not observable."""
        F = self.F
        if self.kind == "mixin":
            if F in ("json", "yaml"):
                return v.to_dict(**self.kw)
            return getattr(v, MIXIN_METHODS[F][0])(encoder=ident, **self.kw)
        return None

    def basic(self, v):
        if self.kind in ("mixin", "mixin-str"):
            return v.to_dict(**self.kw)
        from mashumaro.codecs.basic import BasicEncoder
        ckw = {"default_dialect": self.dialect} if self.dialect is not None else {}
        return BasicEncoder(self.shape, **ckw).encode(v)


# ---------------------------------------------------------------------------
# crossing to Coq (Format.v / FormatCases.v): small grammar only
# ---------------------------------------------------------------------------

LKIND = {"bytes": "KBytes", "bytearray": "KBytearray", "datetime": "KDatetime", "date": "KDate", "time": "KTime",
         "uuid": "KUuid", "decimal": "KText"}
FMT = {"json": "FJson", "orjson": "FOrjson", "yaml": "FYaml", "msgpack": "FMsgpack", "toml": "FToml"}


def _cs(x):
    from harness.vlib import coq_str
    return coq_str(x)


def coq_float(f: float) -> str:
    import struct
    if math.isnan(f):
        return "FNan"
    if math.isinf(f):
        return "(FInf %s)" % ("true" if f < 0 else "false")
    return "(FFin %d)" % struct.unpack(">Q", struct.pack(">d", f))[0]


def coq_ty(t: T, S: Schema) -> str:
    k = t.kind
    if k in ("int", "float", "bool", "str"):
        return {"int": "TInt", "float": "TFloat", "bool": "TBool", "str": "TStr"}[k]
    if k in LKIND:
        return f"(TLeaf {LKIND[k]})"
    if k == "any":
        return "TAny"
    if k == "lit":
        assert len(t.args[0]) == 1 and isinstance(t.args[0][0], str)
        return f"(TLit {_cs(t.args[0][0])})"
    if k == "list":
        return f"(TList {coq_ty(t.args[0], S)})"
    if k == "dict":
        assert t.args[0].kind == "str"
        return f"(TDict {coq_ty(t.args[1], S)})"
    if k == "opt":
        return f"(TOpt {coq_ty(t.args[0], S)})"
    if k == "dc":
        return f"(TData {_cs(t.name)})"
    if k == "tuplevar":
        return f"(TColl CTuple {coq_ty(t.args[0], S)})"
    if k == "tuplefix":
        return f"(TFix {_cs(t.name)})"
    if k == "set":
        return f"(TColl CSet {coq_ty(t.args[0], S)})"
    if k == "frozenset":
        return f"(TColl CFrozenSet {coq_ty(t.args[0], S)})"
    if k == "enum":
        return f"(TEnum {_cs(t.name)})"
    if k == "nt":
        return f"(TNamed {_cs(t.name)})"
    if k == "td":
        return f"(TTyped {_cs(t.name)})"
    if k in ("selfopt", "selflist"):
        inner = "TSelf" if (t.args and t.args[0]) else f"(TData {_cs(t.name)})"
        return f"(TOpt {inner})" if k == "selfopt" else f"(TList {inner})"
    if k == "dunion":
        tags = []
        for v in t.args[0]:
            lit = [ft for f, ft, _ in S.classes[v.name]["fields"] if f == t.args[1]][0].args[0][0]
            tags.append(f"({_cs(lit)}, {_cs(v.name)})")
        return f"(TDiscr {_cs(t.args[1])} [{'; '.join(tags)}])"
    raise ValueError(k)


def coq_env(S: Schema) -> str:
    """class table: every generated dataclass with its (inherited, flattened) field declarations"""
    out = []
    for name, c in S.classes.items():
        if c["kind"] not in ("dc", "nt", "td", "fix"):
            continue
        out.append("(%s, [%s])" % (_cs(name), "; ".join(
            "(%s, (%s, %s))" % (_cs(f), coq_ty(ft, S), "true" if (d == "None" and c["kind"] == "dc") else "false")
            for f, ft, d in c["fields"])))
    return "[" + "; ".join(out) + "]"


def coq_enums(S: Schema, mod) -> str:
    out = []
    for name, c in S.classes.items():
        if c["kind"] != "enum":
            continue
        ms = []
        for m in c["members"]:
            val = getattr(mod, name)[m].value
            ms.append(f"({_cs(m)}, " + (f"EvStr {_cs(val)}" if isinstance(val, str) else f"EvInt ({val})") + ")")
        out.append(f"({_cs(name)}, [{'; '.join(ms)}])")
    return "[" + "; ".join(out) + "]"


def leaf_payload(v) -> tuple[str, str, str]:
    """(kind, payload, stdlib rendering) of a leaf value; independent of mashumaro"""
    if isinstance(v, bytearray):
        return "KBytearray", bytes(v).hex(), base64.encodebytes(bytes(v)).decode()
    if isinstance(v, bytes):
        return "KBytes", v.hex(), base64.encodebytes(v).decode()
    if isinstance(v, dt.datetime):
        return "KDatetime", v.isoformat(), v.isoformat()
    if isinstance(v, dt.date):
        return "KDate", v.isoformat(), v.isoformat()
    if isinstance(v, dt.time):
        return "KTime", v.isoformat(), v.isoformat()
    if isinstance(v, uuid.UUID):
        return "KUuid", str(v), str(v)
    if isinstance(v, decimal.Decimal):
        return "KText", str(v), str(v)
    raise TypeError(type(v))


# user dialects of the model cases: name -> (kind, callable id, independent rendering)
MODEL_USER_DIALECTS = {
    "XD_empty": [],
    "XD_bytes": [("KBytes", 2, lambda v: v.hex())],
    "XD_bytearray": [("KBytearray", 3, lambda v: bytes(v).hex())],
    "XD_datetime": [("KDatetime", 4, lambda v: v.isoformat())],
}


def coq_pv(v, S: Schema, tab: list, unrepr: dict, utab: list, user: list) -> str:
    """value-directed encoding (the model's values carry their own classes)"""
    if v is None:
        return "VNone"
    if isinstance(v, enum.Enum):
        return f"(VEnum {_cs(type(v).__name__)} {_cs(v.name)})"
    if isinstance(v, bool):
        return "(VBool %s)" % ("true" if v else "false")
    if isinstance(v, int):
        return f"(VInt ({v}))"
    if isinstance(v, float):
        return f"(VFloat {coq_float(v)})"
    if isinstance(v, str):
        return f"(VStr {_cs(v)})"
    if isinstance(v, (bytes, bytearray, dt.datetime, dt.date, dt.time, uuid.UUID, decimal.Decimal)):
        kind, p, text = leaf_payload(v)
        tab.append((kind, p, text))
        for uk, uid, fn in user:
            if uk == kind:
                utab.append((uid - 2, kind, p, fn(v)))
        if isinstance(v, dt.time) and v.tzinfo is not None:
            for F in ("orjson", "toml"):
                unrepr.setdefault(F, []).append((kind, p))
        if isinstance(v, dt.datetime) and not _whole_minute(v):
            for F in ("orjson", "toml"):
                unrepr.setdefault(F, []).append((kind, p))
        return f"(VLeaf {kind} {_cs(p)})"
    if isinstance(v, list):
        return "(VList [%s])" % "; ".join(coq_pv(x, S, tab, unrepr, utab, user) for x in v)
    if isinstance(v, tuple) and hasattr(v, "_fields"):
        return "(VNT %s [%s])" % (_cs(type(v).__name__), "; ".join(coq_pv(x, S, tab, unrepr, utab, user) for x in v))
    if isinstance(v, (tuple, set, frozenset)):
        ck = "CTuple" if isinstance(v, tuple) else ("CFrozenSet" if isinstance(v, frozenset) else "CSet")
        return "(VColl %s [%s])" % (ck, "; ".join(coq_pv(x, S, tab, unrepr, utab, user) for x in v))
    if isinstance(v, dict):
        return "(VDict [%s])" % "; ".join(f"({_cs(a)}, {coq_pv(x, S, tab, unrepr, utab, user)})" for a, x in v.items())
    if dataclasses.is_dataclass(v):
        name = type(v).__name__
        return "(VObj %s [%s])" % (_cs(name), "; ".join(
            f"({_cs(f)}, {coq_pv(getattr(v, f), S, tab, unrepr, utab, user)})" for f, _, _ in S.classes[name]["fields"]))
    raise TypeError(type(v))


TYPE_KIND = {bytes: "KBytes", bytearray: "KBytearray", dt.datetime: "KDatetime", dt.date: "KDate", dt.time: "KTime",
             uuid.UUID: "KUuid"}


def coq_format_dialect(F: str):
    """(entries, omit_none) of the format's own dialect class as declared in /repo, as Coq terms"""
    import importlib
    from mashumaro.helper import pass_through
    name = {"orjson": ("mashumaro.mixins.orjson", "OrjsonDialect"), "msgpack": ("mashumaro.mixins.msgpack", "MessagePackDialect"),
            "toml": ("mashumaro.mixins.toml", "TOMLDialect")}.get(F)
    if name is None:
        return "[]", "false"
    D = getattr(importlib.import_module(name[0]), name[1])

    def cid(f):
        if f is pass_through:
            return 0
        if f is bytearray:
            return 1
        return 99

    ents = []
    for typ, val in D.serialization_strategy.items():
        kind = TYPE_KIND.get(typ, "KText")
        if isinstance(val, dict):
            so = f"(Some {cid(val['serialize'])}%nat)" if "serialize" in val else "None"
            do = f"(Some {cid(val['deserialize'])}%nat)" if "deserialize" in val else "None"
            ents.append(f"({kind}, EDict {so} {do})")
        else:
            ents.append(f"({kind}, EObj {cid(val)}%nat)")
    omit = getattr(D, "omit_none", None) is True
    return "[" + "; ".join(ents) + "]", "true" if omit else "false"


def coq_bv(b) -> str:
    if b is None:
        return "BNone"
    if isinstance(b, bool):
        return "(BBool %s)" % ("true" if b else "false")
    if isinstance(b, int):
        return f"(BInt ({b}))"
    if isinstance(b, float):
        return f"(BFloat {coq_float(b)})"
    if isinstance(b, str):
        return f"(BStr {_cs(b)})"
    if isinstance(b, (bytes, bytearray, dt.datetime, dt.date, dt.time, uuid.UUID)):
        kind, p, _ = leaf_payload(b)
        return f"(BNat {kind} {_cs(p)})"
    if isinstance(b, (list, tuple)):
        return "(BList [%s])" % "; ".join(coq_bv(x) for x in b)
    if isinstance(b, dict):
        for k in b:
            if type(k) is not str:
                raise TypeError("non-str key")
        return "(BDict [%s])" % "; ".join(f"({_cs(k)}, {coq_bv(x)})" for k, x in b.items())
    raise TypeError(type(b))
