"""C19: per-run tie of kernel K49 (hook call sites read from builder.py) to the code the library really generates.

Every method text the CodeBuilder exec's for a class of a generated schema is recorded (module-global name `exec` of
mashumaro.core.meta.code.builder rebound to a recording wrapper - /repo is not touched), its top-level statements are
parsed into the site vocabulary of coq/theories/HookSites.v, and Coq compares them (vm_compute) with
VerifGen.K49.pack_sites / unpack_sites applied to the answers the builder gets for that class (declared hooks, context
option, Config discriminator: restated independently in c19lib from the schema; encoder / decoder: read from the
builder's own attributes; incremental-vs-literal form: as observed, K8 decides it)."""
from __future__ import annotations

import ast
import builtins
import re

from harness import c19lib as L


class Recorder:
    def __init__(self):
        self.recs = []          # (code, module name, class name, enc, enckw, dec)
        self.schemas = {}       # module name -> schema
        self._B = None
        self._had = False
        self._prev = None

    def install(self):
        import mashumaro.core.meta.code.builder as B
        self._B = B
        self._had = "exec" in B.__dict__
        self._prev = B.__dict__.get("exec")
        inner = self._prev or builtins.exec
        recs = self.recs

        def recording_exec(code, g, l):
            cls = l.get("cls") if isinstance(l, dict) else None
            mod = getattr(cls, "__module__", "") or ""
            if isinstance(code, str) and mod.startswith("c19_schema_"):
                recs.append((code, mod, cls.__name__, l.get("encoder") is not None, bool(l.get("encoder_kwargs")),
                             l.get("decoder") is not None))
            return inner(code, g, l)
        B.exec = recording_exec

    def uninstall(self):
        if self._B is None:
            return
        if self._had:
            self._B.exec = self._prev
        else:
            try:
                del self._B.exec
            except AttributeError:
                pass
        self._B = None


class Unparsed(Exception):
    pass


def _method(code: str):
    """-> (function name, statements of the method proper) or None for a lazy stub"""
    t = ast.parse(code)
    fns = [s for s in t.body if isinstance(s, ast.FunctionDef)]
    if len(fns) != 1:
        raise Unparsed(f"{len(fns)} function definitions")
    fn = fns[0]
    body = fn.body
    if len(body) == 1 and isinstance(body[0], ast.If) and ast.unparse(body[0].test) == "dialect is None":
        # ADD_DIALECT_SUPPORT: the method proper runs when no dialect is passed; the else branch is the per-dialect cache
        for x in body[0].orelse:
            if "serialize__" in ast.unparse(x):
                raise Unparsed("hook call inside the dialect dispatch branch")
        body = body[0].body
    if any(ast.unparse(x).startswith("CodeBuilder(") for x in body):
        # lazy / postponed stub: compiles the real method on first use (recorded then); it must not call a hook itself
        if "serialize__(" in "\n".join(ast.unparse(x) for x in body):
            raise Unparsed("hook call inside a lazy stub")
        return None
    return fn.name, body


def _kw_context(call: ast.Call) -> bool:
    kws = [(k.arg, ast.unparse(k.value)) for k in call.keywords]
    if kws == [("context", "context")]:
        return True
    if not kws:
        return False
    raise Unparsed("hook keywords " + repr(kws))


def pack_sites_of(body) -> list[str]:
    sites = []
    n_hook = {"__pre_serialize__": 0, "__post_serialize__": 0}
    seen_fields = False
    for i, s in enumerate(body):
        txt = ast.unparse(s)
        if isinstance(s, ast.Assign) and re.fullmatch(r"self = self\.__pre_serialize__\(.*\)", txt):
            if s.value.args:
                raise Unparsed("positional argument to __pre_serialize__")
            sites.append("PSPre " + L.coq_bool(_kw_context(s.value)))
            n_hook["__pre_serialize__"] += 1
        elif txt == "kwargs = {}":
            sites.append("PSFields")
            seen_fields = True
        elif isinstance(s, ast.Return):
            if i != len(body) - 1 or s.value is None:
                raise Unparsed("return is not the last statement")
            e = s.value
            if isinstance(e, ast.Call) and isinstance(e.func, ast.Name) and e.func.id == "encoder":
                if not e.args:
                    raise Unparsed("encoder() without argument")
                e = e.args[0]
            post = "None"
            if isinstance(e, ast.Call) and ast.unparse(e.func) == "self.__post_serialize__":
                if len(e.args) != 1:
                    raise Unparsed("__post_serialize__ arguments")
                post = "(Some " + L.coq_bool(_kw_context(e)) + ")"
                n_hook["__post_serialize__"] += 1
                e = e.args[0]
            inline = not (isinstance(e, ast.Name) and e.id == "kwargs")
            if inline and not isinstance(e, ast.Dict):
                raise Unparsed("returned expression " + ast.unparse(e)[:60])
            sites.append(f"PSRet {post} {L.coq_bool(inline)}")
        elif seen_fields and not isinstance(s, (ast.FunctionDef, ast.Return)):
            pass               # per-field statements of the incremental form
        else:
            raise Unparsed("statement outside the field block: " + txt[:80])
    whole = "\n".join(ast.unparse(s) for s in body)
    for h, n in n_hook.items():
        if whole.count(h) != n:
            raise Unparsed(f"{h} occurs {whole.count(h)}x in the method, {n}x as a site")
    return sites


def unpack_sites_of(body) -> list[str]:
    sites = []
    n_hook = {"__pre_deserialize__": 0, "__post_deserialize__": 0}
    for i, s in enumerate(body):
        txt = ast.unparse(s)
        if txt == "d = decoder(d)":
            sites.append("USDecode")
        elif txt == "d = cls.__pre_deserialize__(d)":
            sites.append("USPre")
            n_hook["__pre_deserialize__"] += 1
        elif isinstance(s, ast.Try):
            sites.append("USFields")
        elif isinstance(s, ast.Return):
            if i != len(body) - 1 or s.value is None:
                raise Unparsed("return is not the last statement")
            e = s.value
            if isinstance(e, ast.Call) and ast.unparse(e.func) == "cls.__post_deserialize__":
                if len(e.args) != 1 or e.keywords or not (isinstance(e.args[0], ast.Call) and ast.unparse(e.args[0].func) == "cls"):
                    raise Unparsed("__post_deserialize__ argument")
                sites.append("USRet true")
                n_hook["__post_deserialize__"] += 1
            elif isinstance(e, ast.Call) and ast.unparse(e.func) == "cls":
                sites.append("USRet false")
            else:
                sites.append("USDispatch")
        else:
            raise Unparsed("statement " + txt[:80])
    whole = "\n".join(ast.unparse(s) for s in body)
    for h, n in n_hook.items():
        if whole.count(h) != n:
            raise Unparsed(f"{h} occurs {whole.count(h)}x in the method, {n}x as a site")
    return sites


class Acc:
    """distinct Coq case terms accumulated over the run (the method texts themselves are dropped after each schema)"""

    def __init__(self):
        self.pk, self.uk, self.wit, self.problems, self.n = {}, {}, {}, [], 0

    def flush(self, rec: Recorder):
        pk, uk, wit, problems, n = cases_of(rec)
        for t in pk:
            self.pk.setdefault(t, None)
        for t in uk:
            self.uk.setdefault(t, None)
        for t, w in wit.items():
            self.wit.setdefault(t, w)
        if len(self.problems) < 20:
            self.problems += problems[:20]
        self.n_problems = getattr(self, "n_problems", 0) + len(problems)
        self.n += n
        del rec.recs[:]
        rec.schemas.clear()

    def result(self):
        return list(self.pk), list(self.uk), self.wit, self.problems, self.n


def cases_of(rec: Recorder):
    """-> (pack terms, unpack terms, witnesses, problems, number of methods): distinct Coq case terms with one witness
    (class source position) each"""
    pk, uk, wit, problems = {}, {}, {}, []
    n = 0
    for code, mod, cname, enc, enckw, dec in rec.recs:
        schema = rec.schemas.get(mod)
        m = re.fullmatch(r"K(\d+)", cname)
        if schema is None or not m or int(m.group(1)) >= len(schema["classes"]):
            continue
        c = int(m.group(1))
        try:
            mb = _method(code)
            if mb is None:
                continue
            name, body = mb
            n += 1
            if "_to_" in name:
                sites = pack_sites_of(body)
                kwm = "PSFields" in sites
                ans = [L.has_hook(schema, c, "pre"), L.has_hook(schema, c, "post"), L.ctx_on(schema, c), kwm, enc, enckw]
                t = "(" + ", ".join(L.coq_bool(a) for a in ans) + ", [" + "; ".join(sites) + "])"
                pk.setdefault(t, None)
            elif "_from_" in name:
                sites = unpack_sites_of(body)
                ans = [dec, bool(schema["classes"][c].get("disc")), L.has_hook(schema, c, "prede"), L.has_hook(schema, c, "postde")]
                t = "(" + ", ".join(L.coq_bool(a) for a in ans) + ", [" + "; ".join(sites) + "])"
                uk.setdefault(t, None)
            else:
                raise Unparsed("method name " + name)
            wit.setdefault(t, {"class": cname, "code": code[:1500], "schema_classes": schema["classes"]})
        except (Unparsed, SyntaxError) as e:
            problems.append({"class": cname, "why": f"{type(e).__name__}: {e}", "code": code[:1500]})
    return list(pk), list(uk), wit, problems, n


PACK_OK = ("(fun c => match c with (pre, post, ctx, kwm, enc, enckw, obs) => "
           "list_eqb psite_eqb (pack_sites pre post ctx kwm enc enckw) obs end)")
PACK_TYPE = "bool * bool * bool * bool * bool * bool * list psite"
UNPACK_OK = ("(fun c => match c with (dec, disc, prede, postde, obs) => "
             "list_eqb usite_eqb (unpack_sites dec disc prede postde) obs end)")
UNPACK_TYPE = "bool * bool * bool * bool * list usite"


RETRIES: list[str] = []


def theorems_robust(ctx, target, names, kernels=None):
    """ctx.theorems, except that a build which dies without a Coq error (no `File "...", line` in the log: make or coqc
    killed by the OOM killer / the shell timeout of a loaded machine) is run again (at most 3 times) - it says nothing
    about the proofs.  A Coq error or a kernel that failed closed is reported at once."""
    import time as _t
    for attempt in range(3):
        no, nu = len(ctx.obligations), len(ctx.unshown)
        br = ctx.theorems(target, names, kernels=kernels)
        kfail = [k for k in (kernels or []) if k in ctx.kernel_report and not ctx.kernel_report[k]["ok"]]
        if br.ok or br.failed_file is not None or kfail or attempt == 2:
            return br
        del ctx.obligations[no:]
        del ctx.unshown[nu:]
        RETRIES.append(f"build of {target} died without a Coq error (attempt {attempt + 1}): {(br.error or '')[-160:]!r}")
        _t.sleep(20 * (attempt + 1))
    return br


def coq_bad_idx_j(name, imports, gen_imports, defs, cases, ok_fun, case_type, shard=400, timeout=1500, needs=None, jobs=6):
    """vlib.coq_bad_idx with a bounded number of parallel coqc processes (the machine is shared: at most 6, about
    0.5-1 GB each) and a generous per-shard timeout (a shard takes ~10 s on an idle machine; a timeout hit under load
    would be a false alarm)."""
    from harness import vlib
    br = vlib.coq_make(["theories/Wire.vo", "theories/PyK.vo"] + (needs or []))
    if not br.ok:
        return None, "model does not build: " + (br.error or "")
    files = []
    for si in range(0, max(len(cases), 1), shard):
        chunk = cases[si:si + shard]
        txt = vlib.CASE_HEADER.format(imports=imports, gen_imports=gen_imports) + defs + "\n"
        txt += f"Definition cases : list ({case_type}) :=\n  [" + ";\n   ".join(chunk) + "].\n"
        txt += f"Eval vm_compute in (bad_idx ({ok_fun}) cases).\n"
        files.append((f"{name}_{si // shard}", txt))
    res = vlib.coq_eval_many(files, timeout=timeout, jobs=jobs)
    # a coqc process that dies WITHOUT a Coq error message (killed by the OOM killer of the shared machine, shell timeout)
    # says nothing about the cases: run that shard again, alone, after a pause.  A Coq error is never retried.
    import time as _t
    for n, (ok, out) in enumerate(res):
        attempt = 0
        while not ok and "Error" not in out and attempt < 3:
            attempt += 1
            _t.sleep(20 * attempt)
            ok, out = vlib.coq_eval(files[n][0], files[n][1], timeout=timeout)
            res[n] = (ok, out)
            RETRIES.append(f"{files[n][0]} retry {attempt}: {'ok' if ok else 'died again'}")
    bad, logs = [], []
    for n, (ok, out) in enumerate(res):
        if not ok:
            return None, out[-3000:]
        idx = vlib.parse_nat_list(out)
        if idx is None:
            return None, "unparsable coq output: " + out[-1500:]
        bad.extend(n * shard + i for i in idx)
        logs.append(out[-200:])
    return bad, "\n".join(logs)
