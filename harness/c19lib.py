"""C19 helpers: schemas with counting hooks, value trees, running the real library,
the independent oracle, and rendering of cases as Coq terms (model: coq/theories/Hooks.v).

Everything a case needs is JSON (schema dict, value tree, entry dict), so a failing case is
its own replay file."""
from __future__ import annotations

import copy
import json
import sys
import types

# ---------------------------------------------------------------------------
# schema
# ---------------------------------------------------------------------------
# ty:   ["int"] | ["dc", c] | ["list", kind, ty] | ["opt", ty] | ["union", [c, ...]]
#       kind in {"list", "tuple", "dict"}  (all are a comprehension over the items, in order)
# schema = {"kind": mixin kind or "plain", "kw_only": bool, "repl": bool,
#           "names": {str(n): {"ty": ty, "default": bool}},      # one type per field name
#           "classes": [{"parent": int|None, "own_fields": [n...],
#                        "own_hooks": {"pre","post","prede","postde": bool}, "own_ctx": None|bool}]}

MIXIN_IMPORT = {
    "dict": ("from mashumaro import DataClassDictMixin as _Mixin", True),
    "json": ("from mashumaro.mixins.json import DataClassJSONMixin as _Mixin", True),
    "orjson": ("from mashumaro.mixins.orjson import DataClassORJSONMixin as _Mixin", True),
    "msgpack": ("from mashumaro.mixins.msgpack import DataClassMessagePackMixin as _Mixin", True),
    "yaml": ("from mashumaro.mixins.yaml import DataClassYAMLMixin as _Mixin", True),
    "toml": ("from mashumaro.mixins.toml import DataClassTOMLMixin as _Mixin", True),
    "plain": ("", False),
}
HOOKS = ("pre", "post", "prede", "postde")


def flat_fields(schema, c):
    k = schema["classes"][c]
    base = flat_fields(schema, k["parent"]) if k["parent"] is not None else []
    return base + list(k["own_fields"])


def has_hook(schema, c, h):
    """declared hook in the sense of builder.get_declared_hook: found in the MRO on a user class"""
    k = schema["classes"][c]
    if k["own_hooks"].get(h):
        return True
    return has_hook(schema, k["parent"], h) if k["parent"] is not None else False


def ctx_on(schema, c):
    k = schema["classes"][c]
    if k["own_ctx"] is not None:
        return bool(k["own_ctx"])
    return ctx_on(schema, k["parent"]) if k["parent"] is not None else False


def disc_root(schema, c):
    """the ancestor-or-self of c that carries a Config discriminator, if any"""
    while c is not None:
        if schema["classes"][c].get("disc"):
            return c
        c = schema["classes"][c]["parent"]
    return None


def under_tagger(schema, c):
    """some ancestor's class-level discriminator has a variant_tagger_fn (every descendant is registered by name)"""
    c = schema["classes"][c]["parent"]
    while c is not None:
        if schema["classes"][c].get("tagger"):
            return True
        c = schema["classes"][c]["parent"]
    return False


def has_tag(schema, c):
    """the class body binds the discriminator attribute `kind` itself (variant.__dict__["kind"])"""
    return bool(schema["classes"][c].get("tag"))


def subclasses_walk(schema, p):
    """iter_all_subclasses(p): __subclasses__() in definition order, depth first, pre-order"""
    out = []
    for c in range(len(schema["classes"])):
        if schema["classes"][c]["parent"] == p:
            out.append(c)
            out += subclasses_walk(schema, c)
    return out


def discu_variants(schema, cs, wf, sb, sp):
    """the classes Annotated[Union[cs], Discriminator(...)] can produce"""
    vs = []
    if sb:
        for c in cs:
            vs += subclasses_walk(schema, c)
    if sp:
        vs += list(cs)
    vs = [v for v in vs if not schema["classes"][v].get("disc")]
    return [v for v in vs if has_tag(schema, v)] if wf else vs


def disc_variants(schema, p, wf, sup, tagger=False):
    """the classes a discriminator over p can produce (with a field: the tagged ones)"""
    vs = subclasses_walk(schema, p) + ([p] if sup else [])
    # (a class that is itself a dispatcher - nested class-level discriminator - is abstract: no instances of it)
    vs = [v for v in vs if not (schema["classes"][v].get("disc") and v != p) and not (v == p and schema["classes"][p].get("disc"))]
    return [v for v in vs if has_tag(schema, v) or tagger] if wf else vs


def descendants(schema, c):
    out = []
    for d in range(len(schema["classes"])):
        p = schema["classes"][d]["parent"]
        while p is not None:
            if p == c:
                out.append(d)
                break
            p = schema["classes"][p]["parent"]
    return out


FLAG_OPTION = {"dialect": "ADD_DIALECT_SUPPORT", "omit_none": "TO_DICT_ADD_OMIT_NONE_FLAG",
               "by_alias": "TO_DICT_ADD_BY_ALIAS_FLAG"}


def class_flags(schema, c):
    """code generation options of class c other than the serialization context"""
    if schema.get("mixed_flags"):
        return [f for f in ("omit_none", "by_alias", "dialect") if f in schema["classes"][c].get("flags", [])]
    return ["dialect"] if schema.get("dialect") else []


def name_ty(schema, n):
    return schema["names"][str(n)]["ty"]


def name_default(schema, n):
    return bool(schema["names"][str(n)]["default"])


def ty_classes(t):
    if t[0] in ("dc", "disc"):
        return [t[1]]
    if t[0] == "list":
        return ty_classes(t[2])
    if t[0] == "opt":
        return ty_classes(t[1])
    if t[0] in ("union", "discu"):
        return list(t[1])
    return []


def ty_has_union(t):
    if t[0] in ("union", "discu") or (t[0] == "disc" and not t[2]):
        return True      # speculative constructs: Union, discriminator without a field
    if t[0] == "list":
        return ty_has_union(t[2])
    if t[0] == "opt":
        return ty_has_union(t[1])
    return False


def _has_quoted(t, cur, self_c):
    if t[0] == "dc":
        return cur is not None and t[1] >= cur and t[1] != self_c
    if t[0] == "list":
        return _has_quoted(t[2], cur, self_c)
    if t[0] == "opt":
        return _has_quoted(t[1], cur, self_c)
    return False


def py_ty(t, cur=None, sp=None, self_c=None):
    """Annotation text.  Classes not yet defined (>= cur) are quoted forward references.  sp = spelling options of
    the schema (the *same* type written differently goes through different branches of the packer/unpacker
    registries): "pep604" (X | None, A | B), "builtin" (list[T], tuple[T, ...], dict[str, T]), "abc"
    (Sequence[T], Mapping[str, T]); self_c = the class to be written as typing.Self.  Quoted references cannot be
    combined with | or builtin generics, those annotations keep the typing spelling."""
    sp = sp or {}
    plain = _has_quoted(t, cur, self_c)
    if t[0] == "int":
        return "int"
    if t[0] == "dc":
        if self_c is not None and t[1] == self_c:
            return "Self"
        return f'"K{t[1]}"' if cur is not None and t[1] >= cur else f"K{t[1]}"
    if t[0] == "disc":
        args = (['field="kind"'] if t[2] else []) + ["include_subtypes=True"] + (["include_supertypes=True"] if t[3] else [])
        return f'Annotated[K{t[1]}, Discriminator({", ".join(args)})]'
    if t[0] == "discu":
        args = (['field="kind"'] if t[2] else []) + (["include_subtypes=True"] if t[3] else []) \
            + (["include_supertypes=True"] if t[4] else [])
        return "Annotated[Union[" + ", ".join(f"K{c}" for c in t[1]) + f'], Discriminator({", ".join(args)})]'
    if t[0] == "list":
        inner = py_ty(t[2], cur, sp, self_c)
        if sp.get("builtin") and not plain:
            return {"list": f"list[{inner}]", "tuple": f"tuple[{inner}, ...]", "dict": f"dict[str, {inner}]"}[t[1]]
        if sp.get("abc") and t[1] != "tuple":
            return {"list": f"Sequence[{inner}]", "dict": f"Mapping[str, {inner}]"}[t[1]]
        return {"list": f"List[{inner}]", "tuple": f"Tuple[{inner}, ...]", "dict": f"Dict[str, {inner}]"}[t[1]]
    if t[0] == "opt":
        inner = py_ty(t[1], cur, sp, self_c)
        if sp.get("pep604") and not plain:
            return f"{inner} | None"
        return f"Optional[{inner}]"
    if t[0] == "union":
        if sp.get("pep604"):
            return " | ".join(py_ty(["dc", c], cur, sp, self_c) for c in t[1])
        return "Union[" + ", ".join(py_ty(["dc", c], cur, sp, self_c) for c in t[1]) + "]"
    raise ValueError(t)


def field_ann(schema, c, n):
    """annotation of field n as written in class c"""
    sp = schema.get("spell") or {}
    e = schema["names"][str(n)]
    cur = None if schema.get("future_ann") else c
    self_c = c if e.get("self") else None
    if sp.get("annotated") and e.get("annotated") and "Discriminator" not in py_ty(e["ty"]):
        # both nestings: Annotated[Optional[T], ..] and Optional[Annotated[T, ..]]
        if e["ty"][0] == "opt" and n % 2 == 0:
            inner = py_ty(e["ty"][1], cur=cur, sp=sp, self_c=self_c)
            return f'Optional[Annotated[{inner}, "meta"]]'
        return f'Annotated[{py_ty(e["ty"], cur=cur, sp=sp, self_c=self_c)}, "meta"]'
    return py_ty(e["ty"], cur=cur, sp=sp, self_c=self_c)


PRELUDE = '''\
import copy
from dataclasses import dataclass, field
from typing import Annotated, Any, Dict, List, Mapping, Optional, Self, Sequence, Tuple, Union
from mashumaro.config import (BaseConfig, ADD_SERIALIZATION_CONTEXT, ADD_DIALECT_SUPPORT,
                              TO_DICT_ADD_OMIT_NONE_FLAG, TO_DICT_ADD_BY_ALIAS_FLAG)
from mashumaro.dialect import Dialect
from mashumaro.types import Discriminator
{mixin_import}


class D(Dialect):     # an empty dialect: passing it must not change which hooks run
    pass


LOG = []          # (kind, class name, payload, context)
KEEP = []         # keeps every constructed object alive (stable identities)
NOCTX = object()  # "the keyword was not passed"
UID = [0]
PRE_N = [0]
REPL = {repl}     # hooks return new objects instead of their argument


def _tagger(cls):          # variant_tagger_fn: every variant is registered under its class name
    return cls.__name__


def _post_init(self):
    self.__dict__["_uid"] = UID[0]
    UID[0] += 1
    KEEP.append(self)


def _pre_ser(self, context=NOCTX):
    LOG.append(("Pre", type(self).__name__, self, context))
    r = self.__dict__.get("_repl")
    return self if r is None else r


def _post_ser(self, d, context=NOCTX):
    LOG.append(("Post", type(self).__name__, self, context))
    if REPL:
        d = dict(d)
    d["__post__"] = self.__dict__["_uid"]
    return d


def _pre_de(cls, d):
    n = PRE_N[0]
    PRE_N[0] += 1
    LOG.append(("PreDe", cls.__name__, n, None))
    if isinstance(d, dict):
        if REPL:
            d = dict(d)
        d["tok"] = n
    return d


def _post_de(cls, obj):
    LOG.append(("PostDe", cls.__name__, obj, None))
    if REPL:
        obj = copy.copy(obj)
    obj.__dict__["_post_ret"] = 1
    return obj

'''


def class_source(schema) -> str:
    imp, _ = MIXIN_IMPORT[schema["kind"]]
    out = [("from __future__ import annotations\n" if schema.get("future_ann") else "")
           + PRELUDE.format(mixin_import=imp, repl="True" if schema["repl"] else "False")]
    for c, k in enumerate(schema["classes"]):
        if k["parent"] is not None:
            bases = f"(K{k['parent']})"
        elif schema["kind"] != "plain":
            bases = "(_Mixin)"
        else:
            bases = ""
        out.append(f"@dataclass(kw_only={schema['kw_only']!r})")
        out.append(f"class K{c}{bases}:")
        body = []
        for n in k["own_fields"]:
            ann = field_ann(schema, c, n)
            if name_default(schema, n):
                body.append(f"    f{n}: {ann} = None")
            else:
                body.append(f"    f{n}: {ann}")
        if k["parent"] is None:
            body.append("    mark: int = 0")
            body.append("    tok: Optional[int] = None")
            body.append("    __post_init__ = _post_init")
        h = k["own_hooks"]
        if h.get("pre"):
            body.append("    __pre_serialize__ = _pre_ser")
        if h.get("post"):
            body.append("    __post_serialize__ = _post_ser")
        if h.get("prede"):
            body.append("    __pre_deserialize__ = classmethod(_pre_de)")
        if h.get("postde"):
            body.append("    __post_deserialize__ = classmethod(_post_de)")
        cfg = []
        fl = class_flags(schema, c)
        if schema.get("dialect") or schema.get("mixed_flags"):
            # explicit Config on every class: the effective options do not depend on Config inheritance.
            # "dialect": True = every class opts in to ADD_DIALECT_SUPPORT (uniformly, so the flag lists of union
            # members agree on it); "mixed_flags" (union-free schemas only) = each class has its own subset of
            # ADD_DIALECT_SUPPORT / TO_DICT_ADD_OMIT_NONE_FLAG / TO_DICT_ADD_BY_ALIAS_FLAG
            opts = [FLAG_OPTION[f] for f in fl] + (["ADD_SERIALIZATION_CONTEXT"] if ctx_on(schema, c) else [])
            cfg.append("code_generation_options = [" + ", ".join(opts) + "]")
        elif k["own_ctx"] is not None:
            cfg.append("code_generation_options = " + ("[ADD_SERIALIZATION_CONTEXT]" if k["own_ctx"] else "[]"))
        elif k.get("disc") and k["parent"] is not None:
            # a Config of its own (for the nested discriminator) replaces the inherited one: restate the inherited option
            cfg.append("code_generation_options = " + ("[ADD_SERIALIZATION_CONTEXT]" if ctx_on(schema, c) else "[]"))
        if k.get("disc") == "nofield":
            cfg.append('discriminator = Discriminator(include_subtypes=True)')
        elif k.get("disc") and k.get("tagger"):
            cfg.append('discriminator = Discriminator(field="kind", include_subtypes=True, variant_tagger_fn=_tagger)')
        elif k.get("disc"):
            cfg.append('discriminator = Discriminator(field="kind", include_subtypes=True)')
        if k.get("tag"):
            body.append(f'    kind = "K{c}"')
        if cfg:
            body.append("    class Config(BaseConfig):")
            body += ["        " + x for x in cfg]
        out.append("\n".join(body) if body else "    pass")
        out.append("")
    return "\n".join(out) + "\n"


_MOD_N = [0]


def load_module(src: str):
    _MOD_N[0] += 1
    name = f"c19_schema_{_MOD_N[0]}"
    mod = types.ModuleType(name)
    sys.modules[name] = mod
    try:
        exec(compile(src, name, "exec", dont_inherit=True), mod.__dict__)
    except BaseException:
        sys.modules.pop(name, None)
        raise
    return mod


def unload_module(mod):
    sys.modules.pop(mod.__name__, None)


# ---------------------------------------------------------------------------
# value trees
# ---------------------------------------------------------------------------
# value: ["int", z] | ["none"] | ["inst", c, uid, repl_uid|None, [[n, value]...]] | ["list", kind, [value...]]

def build_obj(mod, v):
    t = v[0]
    if t == "int":
        return v[1]
    if t == "none":
        return None
    if t == "list":
        items = [build_obj(mod, x) for x in v[2]]
        if v[1] == "list":
            return items
        if v[1] == "tuple":
            return tuple(items)
        return {f"k{i}": x for i, x in enumerate(items)}
    if t == "inst":
        _, c, uid, ruid, fs = v
        kw = {f"f{n}": build_obj(mod, x) for n, x in fs}
        o = getattr(mod, f"K{c}")(**kw)
        o.__dict__["_uid"] = uid
        if ruid is not None:
            r = copy.copy(o)
            r.__dict__["_uid"] = ruid
            r.mark = 1
            o.__dict__["_repl"] = r
        return o
    raise ValueError(v)


def insts_of(v, acc=None):
    acc = [] if acc is None else acc
    if v[0] == "inst":
        acc.append(v)
        for _, x in v[4]:
            insts_of(x, acc)
    elif v[0] == "list":
        for x in v[2]:
            insts_of(x, acc)
    return acc


def expected_ser(schema, v, pc, tok):
    """Independent reference: pre/post-order traversal.  Events (kind, class, uid, ctx) where ctx is
    'T' (the caller's token, required), or '?' (not constrained by the property: the node is not
    reachable from the call through opted-in classes only)."""
    out = []

    def go(v, on_path):
        if v[0] == "inst":
            _, c, uid, ruid, fs = v
            opted = ctx_on(schema, c)
            here = on_path and opted
            k = "T" if here else "?"
            if has_hook(schema, c, "pre"):
                out.append(("Pre", c, uid, k))
            for _, x in fs:
                go(x, here)
            if has_hook(schema, c, "post"):
                out.append(("Post", c, uid if (ruid is None or not has_hook(schema, c, "pre")) else ruid, k))
        elif v[0] == "list":
            for x in v[2]:
                go(x, on_path)

    go(v, pc and tok)
    return out


def expected_output(schema, v, drop_none=False):
    """what to_dict must produce when the hooks' return values are used"""
    if v[0] == "int":
        return v[1]
    if v[0] == "none":
        return None
    if v[0] == "list":
        items = [expected_output(schema, x, drop_none) for x in v[2]]
        if v[1] == "dict":
            return {f"k{i}": x for i, x in enumerate(items)}
        return items
    _, c, uid, ruid, fs = v
    replaced = ruid is not None and has_hook(schema, c, "pre")
    d = {}
    for n, x in fs:
        d[f"f{n}"] = expected_output(schema, x, drop_none)
    d["mark"] = 1 if replaced else 0
    d["tok"] = None
    if has_hook(schema, c, "post"):
        d["__post__"] = ruid if replaced else uid
    if drop_none:
        d = {k: x for k, x in d.items() if x is not None}
    return d


def wire_of(schema, v, drop_default_none=False):
    """clean basic form of a value (input for deserialization)"""
    if v[0] == "int":
        return v[1]
    if v[0] == "none":
        return None
    if v[0] == "list":
        items = [wire_of(schema, x, drop_default_none) for x in v[2]]
        if v[1] == "dict":
            return {f"k{i}": x for i, x in enumerate(items)}
        return items
    _, c, uid, ruid, fs = v
    d = {}
    for n, x in fs:
        if x[0] == "none" and drop_default_none and name_default(schema, n):
            continue
        d[f"f{n}"] = wire_of(schema, x, drop_default_none)
    if has_tag(schema, c) or under_tagger(schema, c):
        d["kind"] = f"K{c}"
    return d


# ---------------------------------------------------------------------------
# running the real library
# ---------------------------------------------------------------------------

def _union_orders_ann(a, out):
    import typing
    import types as _types
    if typing.get_origin(a) is typing.Annotated:
        return _union_orders_ann(typing.get_args(a)[0], out)
    if typing.get_origin(a) in (typing.Union, _types.UnionType):
        ms = [x for x in typing.get_args(a) if x is not type(None)]
        if len(ms) >= 2:
            out.append([getattr(x, "__name__", str(x)) for x in ms])
    for x in typing.get_args(a):
        if x is not Ellipsis:
            _union_orders_ann(x, out)
    return out


def _union_orders_ty(t, out):
    if t[0] in ("union", "discu"):
        out.append([f"K{c}" for c in t[1]])
    elif t[0] == "list":
        _union_orders_ty(t[2], out)
    elif t[0] == "opt":
        _union_orders_ty(t[1], out)
    return out


class HarnessError(Exception):
    pass


def ann_of(mod, t, sp=None):
    a = eval(py_ty(t, sp=sp), dict(mod.__dict__))
    # typing's subscription cache is keyed order-insensitively on Union arguments: make sure the annotation
    # object really has the member order the case (and the Coq model) assumes
    if _union_orders_ann(a, []) != _union_orders_ty(t, []):
        raise HarnessError(f"typing cache changed the union member order of {py_ty(t)}: {_union_orders_ann(a, [])}")
    return a


def check_module_orders(mod, schema):
    for c, k in enumerate(schema["classes"]):
        cls = getattr(mod, f"K{c}")
        for n in k["own_fields"]:
            t = name_ty(schema, n)
            if ty_has_union(t):
                a = cls.__annotations__[f"f{n}"]
                if isinstance(a, str):
                    a = eval(a, dict(mod.__dict__))
                if _union_orders_ann(a, []) != _union_orders_ty(t, []):
                    raise HarnessError(f"typing cache changed the union member order of K{c}.f{n}")


CODEC_ENC = {
    "basic": ("mashumaro.codecs.basic", "BasicEncoder"),
    "json": ("mashumaro.codecs.json", "JSONEncoder"),
    "orjson": ("mashumaro.codecs.orjson", "ORJSONEncoder"),
    "msgpack": ("mashumaro.codecs.msgpack", "MessagePackEncoder"),
    "yaml": ("mashumaro.codecs.yaml", "YAMLEncoder"),
    "toml": ("mashumaro.codecs.toml", "TOMLEncoder"),
}
CODEC_DEC = {
    "basic": ("mashumaro.codecs.basic", "BasicDecoder"),
    "json": ("mashumaro.codecs.json", "JSONDecoder"),
    "orjson": ("mashumaro.codecs.orjson", "ORJSONDecoder"),
    "msgpack": ("mashumaro.codecs.msgpack", "MessagePackDecoder"),
    "yaml": ("mashumaro.codecs.yaml", "YAMLDecoder"),
    "toml": ("mashumaro.codecs.toml", "TOMLDecoder"),
}
SER_METHODS = {"dict": ["to_dict"], "json": ["to_dict", "to_json"], "orjson": ["to_dict", "to_jsonb", "to_json"],
               "msgpack": ["to_dict", "to_msgpack"], "yaml": ["to_dict", "to_yaml"], "toml": ["to_dict", "to_toml"],
               "plain": []}
DE_METHODS = {"dict": ["from_dict"], "json": ["from_dict", "from_json"], "orjson": ["from_dict", "from_json"],
              "msgpack": ["from_dict", "from_msgpack"], "yaml": ["from_dict", "from_yaml"],
              "toml": ["from_dict", "from_toml"], "plain": []}


def fmt_of(entry):
    if entry["via"] == "codec":
        return {"basic": "dict"}.get(entry["codec"], entry["codec"])
    m = entry["method"]
    return {"to_dict": "dict", "from_dict": "dict", "to_json": "json", "from_json": "json", "to_jsonb": "json",
            "to_msgpack": "msgpack", "from_msgpack": "msgpack", "to_yaml": "yaml", "from_yaml": "yaml",
            "to_toml": "toml", "from_toml": "toml"}[m]


def loads(fmt, data):
    if fmt == "dict":
        return data
    if fmt in ("json", "orjson"):
        return json.loads(data)
    if fmt == "msgpack":
        import msgpack
        return msgpack.unpackb(data, raw=False)
    if fmt == "yaml":
        import yaml
        return yaml.safe_load(data)
    if fmt == "toml":
        import tomllib
        return tomllib.loads(data)
    raise ValueError(fmt)


def dumps(fmt, obj):
    if fmt == "dict":
        return copy.deepcopy(obj)
    if fmt == "json":
        return json.dumps(obj)
    if fmt == "orjson":
        import orjson
        return orjson.dumps(obj)
    if fmt == "msgpack":
        import msgpack
        return msgpack.packb(obj, use_bin_type=True)
    if fmt == "yaml":
        import yaml
        return yaml.safe_dump(obj)
    if fmt == "toml":
        import tomli_w
        return tomli_w.dumps(obj)
    raise ValueError(fmt)


class Token:
    def __repr__(self):
        return "<TOKEN>"


def reset(mod):
    mod.LOG.clear()
    mod.KEEP.clear()
    mod.UID[0] = 0
    mod.PRE_N[0] = 0


def cidx(name: str) -> int:
    return int(name[1:])


def run_ser(mod, schema, root_ty, value, entry):
    """returns dict(ok, exc, log=[(kind,c,uid,ctxcode)], out=decoded output)"""
    import importlib
    obj = build_obj(mod, value)
    token = Token()
    reset(mod)
    res = {"ok": True, "exc": None, "out": None}
    ann = ann_of(mod, root_ty, schema.get("spell")) if entry["via"] == "codec" else None
    try:
        if entry["via"] == "mixin":
            meth = getattr(obj, entry["method"])
            kw = {}
            if entry.get("ctx"):
                kw["context"] = token
            if entry.get("dialect"):
                kw["dialect"] = mod.D
            raw = meth(**kw)
        else:
            m, cn = CODEC_ENC[entry["codec"]]
            enc = getattr(importlib.import_module(m), cn)(ann)
            reset(mod)
            raw = enc.encode(obj)
        res["out"] = loads(fmt_of(entry), raw)
    except Exception as e:  # noqa
        res["ok"] = False
        res["exc"] = f"{type(e).__name__}: {e}"[:300]
    log = []
    for kind, cname, payload, ctx in mod.LOG:
        code = "A" if ctx is mod.NOCTX else "N" if ctx is None else "T" if ctx is token else "X"
        log.append((kind, cidx(cname), payload.__dict__.get("_uid", -1), code))
    res["log"] = log
    return res


def result_tree(schema, x):
    """value tree of a deserialization result (uids = construction order)"""
    if x is None:
        return ["none"]
    if isinstance(x, bool) or isinstance(x, int):
        return ["int", int(x)]
    if isinstance(x, list):
        return ["list", "list", [result_tree(schema, y) for y in x]]
    if isinstance(x, tuple):
        return ["list", "tuple", [result_tree(schema, y) for y in x]]
    if isinstance(x, dict):
        return ["list", "dict", [result_tree(schema, y) for y in x.values()]]
    c = cidx(type(x).__name__)
    uid = x.__dict__.get("_uid", -1)
    return ["inst", c, uid, None, [[n, result_tree(schema, getattr(x, f"f{n}"))] for n in flat_fields(schema, c)]]


def run_de(mod, schema, root_ty, wire, entry):
    import importlib
    fmt = fmt_of(entry)
    data = dumps("orjson" if (entry["via"] == "codec" and entry["codec"] == "orjson") else fmt, wire)
    reset(mod)
    res = {"ok": True, "exc": None, "result": None, "checks": []}
    obj = None
    ann = ann_of(mod, root_ty, schema.get("spell")) if entry["via"] == "codec" else None
    try:
        if entry["via"] == "mixin":
            cls = getattr(mod, f"K{root_ty[1]}")
            obj = getattr(cls, entry["method"])(data, **({"dialect": mod.D} if entry.get("dialect") else {}))
        else:
            m, cn = CODEC_DEC[entry["codec"]]
            dec = getattr(importlib.import_module(m), cn)(ann)
            reset(mod)
            obj = dec.decode(data)
    except Exception as e:  # noqa
        res["ok"] = False
        res["exc"] = f"{type(e).__name__}: {e}"[:300]
    log = []
    for kind, cname, payload, _ in mod.LOG:
        if kind == "PreDe":
            log.append((kind, cidx(cname), payload, "-"))
        else:
            log.append((kind, cidx(cname), payload.__dict__.get("_uid", -1), "-"))
    res["log"] = log
    if res["ok"]:
        res["result"] = result_tree(schema, obj)
        # direct observations on the result objects (tok link, returned object used)
        obs = []

        def walk(x):
            if isinstance(x, (list, tuple)):
                for y in x:
                    walk(y)
            elif isinstance(x, dict):
                for y in x.values():
                    walk(y)
            elif hasattr(x, "__dict__") and type(x).__name__.startswith("K"):
                c = cidx(type(x).__name__)
                for n in flat_fields(schema, c):
                    walk(getattr(x, f"f{n}"))
                obs.append({"c": c, "uid": x.__dict__.get("_uid", -1), "tok": x.tok,
                            "post_ret": x.__dict__.get("_post_ret", 0),
                            "is_logged_obj": any(k == "PostDe" and p is x for k, _, p, _ in mod.LOG)})
        walk(obj)
        res["obs"] = obs
    return res


# ---------------------------------------------------------------------------
# oracle
# ---------------------------------------------------------------------------

def subtree_uids(v):
    s = set()
    for i in insts_of(v):
        s.add(i[2])
        if i[3] is not None:
            s.add(i[3])
    return s


def subclass_positions(schema, t, v, out):
    """instances whose class is a strict subclass of the dataclass the position is declared with"""
    if t[0] in ("union", "discu"):
        if v[0] == "inst":
            if v[1] not in t[1]:
                out.append(v)
            for n, x in v[4]:
                subclass_positions(schema, name_ty(schema, n), x, out)
    elif t[0] in ("dc", "disc") and v[0] == "inst":
        if v[1] != t[1]:
            out.append(v)
        for n, x in v[4]:
            subclass_positions(schema, name_ty(schema, n), x, out)
    elif t[0] == "list" and v[0] == "list":
        for x in v[2]:
            subclass_positions(schema, t[2], x, out)
    elif t[0] == "opt" and v[0] != "none":
        subclass_positions(schema, t[1], v, out)


def declared_positions(schema, t, v, out):
    """(declared class, instance) for every instance at a position declared with one dataclass"""
    if t[0] in ("dc", "disc") and v[0] == "inst":
        out.append((t[1], v))
        for n, x in v[4]:
            declared_positions(schema, name_ty(schema, n), x, out)
    elif t[0] in ("union", "discu") and v[0] == "inst":
        if v[1] not in t[1]:      # an instance of a subclass of a member: the member it descends from is the declared class
            for m in t[1]:
                if v[1] in descendants(schema, m):
                    out.append((m, v))
                    break
        for n, x in v[4]:
            declared_positions(schema, name_ty(schema, n), x, out)
    elif t[0] == "list" and v[0] == "list":
        for x in v[2]:
            declared_positions(schema, t[2], x, out)
    elif t[0] == "opt" and v[0] != "none":
        declared_positions(schema, t[1], v, out)


FORMAT_METHODS = {"orjson": ("to_jsonb", "to_json"), "msgpack": ("to_msgpack",), "toml": ("to_toml",)}


def is_format_method(schema, entry):
    """mixin methods with a format-specific nested method __mashumaro_to_dict_<fmt>__ (compiled per declared class,
    resolved through the MRO for a subclass instance)"""
    return entry["via"] == "mixin" and entry.get("method") in FORMAT_METHODS.get(schema["kind"], ())


def union_positions(schema, t, v, out, via_codec):
    """(members, value) for every union position of the value"""
    if t[0] in ("union", "discu"):
        out.append((t[1], v))
        if v[0] == "inst":
            union_positions(schema, ["dc", v[1]], v, out, via_codec)
    elif t[0] in ("dc", "disc") and v[0] == "inst":
        for n, x in v[4]:
            union_positions(schema, name_ty(schema, n), x, out, via_codec)
    elif t[0] == "list" and v[0] == "list":
        for x in v[2]:
            union_positions(schema, t[2], x, out, via_codec)
    elif t[0] == "opt":
        if v[0] != "none":
            union_positions(schema, t[1], v, out, via_codec)


def check_ser(schema, root_ty, value, entry, res):
    """-> None if the property holds on this run, else (what, signature)"""
    pc = bool(entry.get("ctx"))
    exp = expected_ser(schema, value, pc, pc)
    log = res["log"]
    problems = []
    if not res["ok"]:
        problems.append(f"serialization raised {res['exc']}")
    obs_e = [(k, c, u) for k, c, u, _ in log]
    exp_e = [(k, c, u) for k, c, u, _ in exp]
    order_ok = obs_e == exp_e
    if not order_ok:
        problems.append(f"hook trace {obs_e} != pre/post-order traversal {exp_e}")
    ctx_bad = []
    if order_ok:
        for (k, c, u, code), (_, _, _, want) in zip(log, exp):
            if want == "T" and code != "T":
                ctx_bad.append((k, c, u, code))
        if ctx_bad:
            problems.append(f"context not delivered unchanged: {ctx_bad}")
    out_ok = True
    if res["ok"]:
        fmt = fmt_of(entry)
        want_out = expected_output(schema, value, drop_none=(fmt == "toml"))
        got = res["out"]
        if fmt == "toml":
            got = _drop_none(got)
        if got != want_out:
            out_ok = False
            problems.append(f"output {got!r} != expected (hook return values used) {want_out!r}")
    if not problems:
        return None
    # ---- classification features (precise predicates for the known findings of DESIGN 3.1)
    ups = []
    union_positions(schema, root_ty, value, ups, entry["via"] == "codec")
    sig = {"direction": "ser", "via": entry["via"]}
    kind = "other"
    if entry["via"] == "codec":
        # codec-union-static-dispatch: union with >= 2 dataclass members holding an instance of a member that
        # is not the first; everything observed outside those instances' subtrees is as expected
        aff = [v for ms, v in ups if len(ms) >= 2 and v[0] == "inst" and v[1] != ms[0]]
        sub = []
        subclass_positions(schema, root_ty, value, sub)

        def confined(vs):
            uids = set()
            for v in vs:
                uids |= subtree_uids(v)
            return ([e for e in obs_e if e[2] not in uids] == [e for e in exp_e if e[2] not in uids]) and not ctx_bad
        if aff and confined(aff):
            kind = "codec-union-static-dispatch"
        elif sub and confined(sub + aff):
            # a position declared with dataclass A holds an instance of a strict subclass; A's function is called
            # statically, so hooks (and fields) the subclass adds are skipped
            kind = "codec-subclass-static-dispatch"
    else:
        # mixin path.  One case may show several known deviations at once (e.g. a union whose members differ in the
        # context option AND, through to_msgpack/to_jsonb/to_toml, a subclass instance rendered by its parent's
        # method): every observed difference must be explained by one of them, each confined to its own subtrees.
        # union-member-flags: union whose members' flag sets differ, instance of a member other than the first; the
        # only difference is the context seen inside that instance's subtree
        aff = [v for ms, v in ups if len(ms) >= 2 and v[0] == "inst" and v[1] != ms[0]
               and len({ctx_on(schema, m) for m in ms}) > 1]
        # subclass-declared-class-flags: a position declared with a class that did not opt in holds an instance of a
        # subclass that did; the keyword list comes from the declared class, so the instance's hooks see None
        decl = []
        declared_positions(schema, root_ty, value, decl)
        aff2 = [v for c, v in decl if v[1] != c and ctx_on(schema, v[1]) and not ctx_on(schema, c)]
        # format-method-subclass-dispatch: value.__mashumaro_to_dict_<fmt>__ of a subclass instance resolves through
        # the MRO to the method compiled for the declared class: its events, context keyword and output are the parent's
        fsub = []
        if is_format_method(schema, entry):
            subclass_positions(schema, root_ty, value, fsub)

        def uids_of(vs):
            u = set()
            for v in vs:
                u |= subtree_uids(v)
            return u
        u_union, u_decl, u_fmt = uids_of(aff), uids_of(aff2), uids_of(fsub)
        ev_ok = [e for e in obs_e if e[2] not in u_fmt] == [e for e in exp_e if e[2] not in u_fmt]
        if ev_ok and not order_ok:
            # the traces differ only inside the format-method subtrees: the context delivered OUTSIDE them is still checked
            lo = [e for e in log if e[2] not in u_fmt]
            le = [e for e in exp if e[2] not in u_fmt]
            for (k, c, u, code), (_, _, _, want) in zip(lo, le):
                if want == "T" and code != "T":
                    ctx_bad.append((k, c, u, code))
        ctx_ok = all(u in u_fmt or (code == "N" and u in (u_union | u_decl)) for _, _, u, code in ctx_bad)
        fmt_needed = (not order_ok) or (not out_ok) or (not res["ok"]) \
            or any(not (code == "N" and u in (u_union | u_decl)) for _, _, u, code in ctx_bad)
        if ev_ok and ctx_ok:
            if fmt_needed:
                if fsub:
                    kind = "format-method-subclass-dispatch"
            elif ctx_bad and all(u in u_union for _, _, u, _ in ctx_bad):
                kind = "union-member-flags"
            elif ctx_bad:
                kind = "subclass-declared-class-flags"
    sig["kind"] = kind
    return "; ".join(problems)[:900], sig


def _drop_none(x):
    if isinstance(x, dict):
        return {k: _drop_none(v) for k, v in x.items() if v is not None}
    if isinstance(x, list):
        return [_drop_none(v) for v in x]
    return x


def check_de(schema, root_ty, wire, entry, res):
    """Property text: __post_deserialize__ exactly once for every instance that ends up in the result,
    __pre_deserialize__ before its fields are read, return values used.  Events of attempts that were
    discarded (union members tried speculatively) concern no instance of the result and are ignored."""
    if not res["ok"]:
        return f"deserialization of a valid document raised {res['exc']}", {"direction": "de", "via": entry["via"], "kind": "raised"}
    problems = []
    tree = res["result"]
    obs = {o["uid"]: o for o in res["obs"]}
    exp = []

    def go(v):
        if v[0] == "inst":
            _, c, uid, _, fs = v
            o = obs.get(uid, {})
            if has_hook(schema, c, "prede"):
                exp.append(("PreDe", c, o.get("tok")))
            for _, x in fs:
                go(x)
            if has_hook(schema, c, "postde"):
                exp.append(("PostDe", c, uid))
        elif v[0] == "list":
            for x in v[2]:
                go(x)
    go(tree)
    toks = {t for k, _, t in exp if k == "PreDe"}
    uids = {i[2] for i in insts_of(tree)}
    restricted = []
    for k, c, p, _ in res["log"]:
        if k == "PreDe" and p in toks:
            restricted.append((k, c, p))
        elif k == "PostDe" and p in uids:
            restricted.append((k, c, p))
    if restricted != exp:
        problems.append(f"hook events about the result {restricted} != pre/post-order traversal of the result {exp}")
    for o in res["obs"]:
        if has_hook(schema, o["c"], "postde"):
            if o["post_ret"] != 1:
                problems.append(f"instance {o['uid']} of K{o['c']} in the result did not come out of __post_deserialize__")
            if schema["repl"] and o["is_logged_obj"]:
                problems.append(f"__post_deserialize__ return value ignored for instance {o['uid']} of K{o['c']}")
        if has_hook(schema, o["c"], "prede") and o["tok"] is None:
            problems.append(f"__pre_deserialize__ return value not used for instance {o['uid']} of K{o['c']}")
    if not problems:
        return None
    return "; ".join(problems)[:900], {"direction": "de", "via": entry["via"], "kind": "other"}


# ---------------------------------------------------------------------------
# Coq rendering
# ---------------------------------------------------------------------------

def coq_ty(t):
    if t[0] == "int":
        return "TInt"
    if t[0] == "dc":
        return f"(TDc {t[1]})"
    if t[0] == "list":
        return f"(TList {coq_ty(t[2])})"
    if t[0] == "opt":
        return f"(TOpt {coq_ty(t[1])})"
    if t[0] == "disc":
        return f"(TDisc {t[1]} {coq_bool(t[2])} {coq_bool(t[3])})"
    if t[0] == "discu":
        return "(TDiscU [" + "; ".join(str(c) for c in t[1]) + f"] {coq_bool(t[2])} {coq_bool(t[3])} {coq_bool(t[4])})"
    return "(TUnion [" + "; ".join(str(c) for c in t[1]) + "])"


def coq_bool(b):
    return "true" if b else "false"


def coq_xf(flags):
    return "(" + ", ".join(coq_bool(f in flags) for f in ("omit_none", "by_alias", "dialect")) + ")"


def coq_env(schema):
    cs = []
    for c in range(len(schema["classes"])):
        fl = "; ".join(f"Build_field {n} {coq_ty(name_ty(schema, n))} {coq_bool(name_default(schema, n))}"
                       for n in flat_fields(schema, c))
        k = schema["classes"][c]
        par = "None" if k["parent"] is None else f"(Some {k['parent']})"
        tag = f"(Some {c})" if k.get("tag") else "None"
        disc = {None: "None", False: "None", "field": "(Some true)", True: "(Some true)", "nofield": "(Some false)"}[k.get("disc")]
        cs.append(f"Build_cinfo [{fl}] " + " ".join(coq_bool(has_hook(schema, c, h)) for h in HOOKS)
                  + " " + coq_bool(ctx_on(schema, c)) + f" {par} {tag} {disc} " + coq_xf(class_flags(schema, c))
                  + " " + coq_bool(k.get("tagger")))
    return "[" + ";\n      ".join(cs) + "]"


def coq_val(schema, v):
    if v[0] == "int":
        return "VInt"
    if v[0] == "none":
        return "VNone"
    if v[0] == "list":
        return "(VList [" + "; ".join(coq_val(schema, x) for x in v[2]) + "])"
    _, c, uid, ruid, fs = v
    j = ruid if (ruid is not None and has_hook(schema, c, "pre")) else uid
    return f"(VInst {c} {uid} {j} [" + "; ".join(f"({n}, {coq_val(schema, x)})" for n, x in fs) + "])"


def coq_wire(w):
    if w is None:
        return "WNone"
    if isinstance(w, int):
        return "WInt"
    if isinstance(w, list):
        return "(WList [" + "; ".join(coq_wire(x) for x in w) + "])"
    if isinstance(w, dict):
        if all(k.startswith("f") and k[1:].isdigit() for k in w) and w:
            return "(WDict [" + "; ".join(f"({int(k[1:])}, {coq_wire(x)})" for k, x in w.items()) + "])"
        return "(WList [" + "; ".join(coq_wire(x) for x in w.values()) + "])"
    raise ValueError(w)


def coq_wire_typed(schema, t, w):
    """wire term driven by the type (an empty dict is a WDict for a dataclass, a WList for Dict[str,T])"""
    if w is None:
        return "WNone"
    if t[0] == "opt":
        return coq_wire_typed(schema, t[1], w)
    if t[0] == "int":
        return "WInt"
    if t[0] == "list":
        items = list(w.values()) if isinstance(w, dict) else list(w)
        return "(WList [" + "; ".join(coq_wire_typed(schema, t[2], x) for x in items) + "])"
    # dc / union / disc: keys are field names, each name has one type; "kind" is the discriminator tag
    tag = f"(Some {int(w['kind'][1:])})" if "kind" in w else "None"
    return f"(WDict {tag} [" + "; ".join(f"({int(k[1:])}, {coq_wire_typed(schema, name_ty(schema, int(k[1:])), x)})"
                                         for k, x in w.items() if k != "kind") + "])"


def coq_events(log):
    out = []
    for k, c, p, code in log:
        if k in ("Pre", "Post"):
            tok = {"A": "CAbsent", "N": "CNone", "T": "CTok"}.get(code)
            if tok is None:
                return None
            out.append(f"{k} {c} {p} {tok}")
        elif k == "PreDe":
            out.append(f"PreDe {c}")
        else:
            out.append(f"PostDe {c} {p}")
    return "[" + "; ".join(out) + "]"
