"""Entry point: ./check <Cxx> [quick|thorough] [--replay file]"""
from __future__ import annotations

import importlib
import json
import os
import sys
import traceback

from harness import vlib


def main(argv):
    if len(argv) < 1:
        print("usage: check <Cxx> [quick|thorough] [--replay <file>]")
        return 2
    pid = argv[0]
    tier = os.environ.get("VERIF_TIER", "quick")
    replay = None
    rest = argv[1:]
    while rest:
        a = rest.pop(0)
        if a in ("quick", "thorough"):
            tier = a
        elif a == "--replay":
            replay = rest.pop(0)
    seed = int(os.environ.get("VERIF_SEED", "0") or 0)
    mod = importlib.import_module(f"harness.props.{pid.lower()}")
    if replay:
        rep = json.load(open(replay))
        return mod.replay(rep)
    ctx = vlib.Ctx(pid, tier, seed)
    try:
        ctx.kernel_report = vlib.regen_kernels()
        mod.run(ctx)
    except Exception as e:  # a crashing check must not look like a pass
        tb = traceback.format_exc()
        ctx.not_shown("check-crashed", f"{type(e).__name__}: {e}\n{tb[-2500:]}")
        print(tb, file=sys.stderr)
    return vlib.finish(ctx)


if __name__ == "__main__":
    sys.exit(main(sys.argv[1:]))
