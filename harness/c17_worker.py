"""C17 worker: builds a range of schemas under capture in its own process (a schema that makes the
library loop cannot block the check) and writes JSON results.
usage: python -m harness.c17_worker <seed> <family> <start> <end> <exercise> <out.json>"""
from __future__ import annotations

import json
import random
import sys

from harness import c17_gen, c17_run


def schema_for(seed: int, family: str, idx: int) -> dict:
    rng = random.Random(f"c17-{seed}-{family}-{idx}")
    if family == "grammar":
        return c17_gen.gen_schema(rng, idx)
    if family == "multimod":
        return c17_gen.gen_multimod_schema(rng, idx)
    if family == "defaults":
        return c17_gen.gen_defaults_schema(rng, idx)
    if family == "latename":
        return c17_gen.gen_latename_schema(rng, idx)
    d = c17_gen.IDENTITY_TEMPLATES_DISTINCT
    return c17_gen.gen_identity_schema(rng, idx, d[idx] if idx < len(d) else None)


def run_one(schema: dict, rng, exercise: int) -> dict:
    sr = c17_run.run_schema(schema, rng, exercise)
    d = sr.module.__dict__ if sr.module is not None else {}
    fs = []
    seen = set()
    static_sig = {}
    for f in sr.findings:
        if f["kind"].startswith("static-"):
            static_sig.setdefault((f.get("name")), c17_run.classify(f, d, schema["module"], schema["src"]))
    for f in sr.findings:
        sig = c17_run.classify(f, d, schema["module"], schema["src"])
        if sig.get("cause") == "other" and f["kind"].startswith("own-") and f.get("name") in static_sig \
                and static_sig[f.get("name")].get("kind") == sig.get("kind"):
            sig = static_sig[f.get("name")]      # the executed error path hit what the static oracle located
        key = (json.dumps(sig, sort_keys=True), f.get("name"), f.get("entry") if f["kind"].startswith("own") else None)
        if key in seen:
            continue
        seen.add(key)
        fs.append({"kind": f["kind"], "what": f["what"][:400], "name": f.get("name"), "entry": f.get("entry"),
                   "input": f.get("input"), "signature": sig, "program": (f.get("program") or "")[:6000]})
    progs = []
    reads, sets = [], []
    oid = c17_run.Oids()
    heap: dict = {}
    classes = c17_run._all_schema_classes(d) if d else []
    classes = [c for c in dict.fromkeys(list(d.get("CLASSES", [])) if d else [])]
    for rec in sr.programs:
        w = c17_run.program_world(rec, oid, heap, classes, schema["module"].split(".")[0] if sr.build_error is not None else None)
        progs.append({"code": rec["code"], "gnames": sorted(rec["gnames"] or []), "lnames_pre": sorted(rec["pre_l"]),
                      "gnames_pre": sorted(rec["pre_g"]), "unres": [n for _, n in c17_run.unresolved_names(rec)],
                      "glob_f": w["glob_f"], "glob_m": w["glob_m"], "expect": w["expect"], "chains_unres": w["chains_unres"],
                      "assembly": c17_run.program_assembly(rec, oid)})
        if not c17_run._is_lazy_stub(rec["code"]):
            # reads rooted at a global are judged exactly (holder object + attribute) by check_closed on the world model;
            # the name inclusion covers the reads rooted at parameters / locals (cls, self, value)
            rg = c17_run.real_globals(rec)
            # (an attribute compiled on demand - `if '<attr>' not in x.__dict__: CodeBuilder(..)...` right before the read - is
            #  installed by that call: stated exception, like the lazy stub)
            reads += [("*", a) for r, a in c17_run.holder_attr_reads(rec)
                      if r not in rg and not (f"'{a}' not in " in rec["code"] and "CodeBuilder(" in rec["code"])]
        sets += [("*", a) for r, a in c17_run.holder_attr_sets(rec)]
    # rendering: independent reading of every field annotation (Render.rty) + what the real type_name says + whether the
    # generated error path of a required field contains it
    render_cases = []
    ident_cases = []
    import_cases = []
    spec_cases = []
    contain = {"checked": 0, "missing": []}
    if d and sr.build_error is None:
        import dataclasses
        from harness import c17_render, c17_imports
        from mashumaro.core.meta.helpers import type_name
        alltext = "\n".join(rec["code"] for rec in sr.programs)
        seen_rc = set()
        def _ident_case(t):
            # kernel K44: the real get_type_name_identifier on this type (rendering -> pasted text, registered alias)
            if len(ident_cases) >= 80:
                return
            try:
                case = list(c17_run.real_type_ident(t))
            except Exception:
                return
            if case not in ident_cases:
                ident_cases.append(case)
        for c in list(dict.fromkeys(list(d.get("ROOTS", [])) + [c for c in d.get("CLASSES", []) if isinstance(c, type)])):
            _ident_case(c)
            for fn, t in c17_render.field_types(c):
                _ident_case(t)
                for sc in c17_run.spec_key_cases(t, d.get("CLASSES", [])):
                    if sc not in spec_cases and len(spec_cases) < 40:
                        spec_cases.append(sc)
                if len(import_cases) < 40:
                    ic = c17_imports.case(t)
                    if ic is not None and [ic[0], [list(o) for o in ic[1]]] not in import_cases:
                        import_cases.append([ic[0], [list(o) for o in ic[1]]])
                term = c17_render.to_rty(t)
                if term is None:
                    continue
                try:
                    exp = type_name(t)
                except Exception:
                    continue
                if (term, exp) not in seen_rc and len(render_cases) < 60:
                    seen_rc.add((term, exp))
                    render_cases.append([term, exp])
                # the defaultdict factory is the identifier of the value type pasted as code (unpack.py unpack_collection, defaultdict branch)
                import collections as _c
                import typing as _t
                if _t.get_origin(t) is _c.defaultdict and len(_t.get_args(t)) == 2 and c in d.get("ROOTS", []):
                    try:
                        fexp = type_name(_t.get_args(t)[1])
                    except Exception:
                        fexp = None
                    own_f = [rec["code"] for rec in sr.programs
                             if f"Argument for {c.__module__}.{c.__qualname__}.__mashumaro_from_" in rec["code"] and "collections.defaultdict(" in rec["code"]]
                    if fexp is not None:
                        # a type reference like every other one (get_type_name_identifier): the rendering itself, or its
                        # clean_id alias when the rendering names a local class
                        fid = c17_run.clean(fexp) if "<locals>" in fexp else fexp
                        for code in own_f:
                            contain["checked"] += 1
                            if f"collections.defaultdict({fid}, " not in code:
                                contain["missing"].append(f"{c.__name__}.{fn}: defaultdict factory {fid}")
                fld = next((f for f in dataclasses.fields(c) if f.name == fn), None)
                if (c in d.get("ROOTS", []) and fld is not None and fld.default is dataclasses.MISSING
                        and fld.default_factory is dataclasses.MISSING and fld.init):
                    # the from_dict programs of this very class (they carry its qualified name in the non-dict message)
                    own = [rec["code"] for rec in sr.programs
                           if f"Argument for {c.__module__}.{c.__qualname__}.__mashumaro_from_" in rec["code"] and f"MissingField('{fn}'," in rec["code"]]
                    for code in own:
                        contain["checked"] += 1
                        if f"MissingField('{fn}',{exp},cls)" not in code and f"MissingField('{fn}',{c17_run.clean(exp)},cls)" not in code:
                            contain["missing"].append(f"{c.__name__}.{fn}: {exp}")
    out = {"idx": schema["idx"], "module": schema["module"], "tags": schema["tags"], "defloc": schema["defloc"],
           "render_cases": render_cases, "ident_cases": ident_cases, "import_cases": import_cases, "render_contain": contain, "spec_cases": spec_cases,
           "build_error": (type(sr.build_error).__name__ + ": " + str(sr.build_error)[:200]) if sr.build_error else None,
           "findings": fs, "programs": progs, "calls": sr.calls, "errors_seen": sr.errors_seen, "info": sr.info,
           "attr_reads": sorted(set(reads)), "attr_sets": sorted(set(sets)),
           "heap": [[o, k, sorted(a.items())] for o, (k, a) in sorted(heap.items())], "reachable": sr.reachable, "unknown_fns": sr.unknown_fns,
           "ns_not_builder": sum(1 for rec in sr.programs if rec.get("ns_is_builder_globals") is False)}
    c17_run.cleanup(sr)
    return out


def main(argv):
    seed, family, start, end, exercise, outp = int(argv[0]), argv[1], int(argv[2]), int(argv[3]), int(argv[4]), argv[5]
    c17_run.install_capture()
    res = []
    for idx in range(start, end):
        schema = schema_for(seed, family, idx)
        rng = random.Random(f"c17-run-{seed}-{family}-{idx}")
        try:
            res.append(run_one(schema, rng, exercise))
        except Exception as e:   # a crashing harness must not look like a pass
            import traceback
            res.append({"idx": idx, "module": schema["module"], "tags": schema["tags"], "defloc": schema["defloc"],
                        "crash": f"{type(e).__name__}: {e}\n{traceback.format_exc()[-1500:]}", "findings": [], "programs": [],
                        "calls": 0, "errors_seen": {}, "info": [], "attr_reads": [], "attr_sets": [], "build_error": None})
        with open(outp, "w") as fh:      # progressive: a later hang keeps the earlier results
            json.dump(res, fh)
    return 0


if __name__ == "__main__":
    sys.exit(main(sys.argv[1:]))
