"""C15 - per-run tie of the holder model (coq/theories/C15Holders.v over kernel K115a) with the real codec builders.

For every root type of every tied scenario a BasicEncoder and a BasicDecoder are constructed while
CodecCodeBuilder.new is observed (the builder object is recorded, nothing in /repo is changed): the registry the
builder ends with (which classes have a holder, does the holder own the generated method), the identities of the
holders (no holder may be shared between two codecs or be a dataclass), and the `__dict__` of every dataclass before
and after (codec creation must not install anything on a class).  The Coq side evaluates
`holders_ok isp E t expected` (compile_dir = the model's compilation with the kernel's decisions).

A self-referencing dataclass is kept as a fixed scenario: with the strict binding the kernel reads off
pack_dataclass / unpack_dataclass today, constructing the codec raises AttributeError while the mixin path works -
known finding C15/codec-selfref-construction; when the kernel reports the late binding (repaired code) the same
scenario is checked at full strength (codec == mixin)."""
from __future__ import annotations

import os
import re

from harness import vlib
from harness import c15lib as L

CASE_TYPE = "env * (bool * ty) * option (list (string * bool))"
OK_FUN = ("fun c : (" + CASE_TYPE + ") => match c with (E, (isp, t), ex) => holders_ok isp E t ex end")


def kernel_flags():
    p = os.path.join(vlib.COQ, "gen", "K115a.v")
    try:
        txt = open(p).read()
    except OSError:
        return None
    out = {}
    for d in ("pack", "unpack"):
        m = re.search(rf"Definition {d}_selfref_late : bool := (true|false)\.", txt)
        if not m:
            return None
        out[d] = m.group(1) == "true"
    return out


def observe(make):
    """run make() with CodecCodeBuilder.new observed; returns (result of make or exception, builders created)"""
    from mashumaro.codecs import _builder
    orig = _builder.CodecCodeBuilder.__dict__["new"]
    seen = []

    def new(cls, **kwargs):
        b = orig.__func__(cls, **kwargs)
        seen.append(b)
        return b
    _builder.CodecCodeBuilder.new = classmethod(new)
    try:
        try:
            r = ("ok", make())
        except Exception as e:      # noqa: BLE001 - the constructor's exception is the observation
            r = ("err", e)
    finally:
        _builder.CodecCodeBuilder.new = orig
    return r, seen


def class_state(mod, sc):
    out = {}
    for c in sc.classes:
        k = getattr(mod, c.name)
        out[c.name] = tuple(sorted(a for a in k.__dict__ if "mashumaro" in a))
    return out


def selfref_scenario():
    sc = L.Scenario("fx-selfref")
    sc.pep563 = True
    a = L.Cls("K0", None, False, [("x", None, ("int",)), ("n", None, ("opt", ("data", "K0")))], False, None)
    sc.classes = [a]
    sc.roots = [("data", "K0"), ("list", ("data", "K0"))]
    v = ("obj", "K0", [("x", ("int", 1)), ("n", ("obj", "K0", [("x", ("int", 2)), ("n", ("none",))]))])
    return sc, [(0, v), (1, ("list", [v]))]


def run_holders_tie(ctx, tied):
    """tied: list of (sc, vals, src, mod) of loaded scenarios inside the model"""
    from mashumaro.codecs.basic import BasicDecoder, BasicEncoder
    flags = kernel_flags()
    ctx.hist("holders_kernel", "stub" if flags is None else ("late-binding" if flags["pack"] else "strict-binding"))
    sc_self, vals_self = selfref_scenario()
    src_self = L.scenario_src(sc_self)
    try:
        mod_self = L.load_module(src_self, "fx_selfref")
    except Exception as e:      # noqa: BLE001
        ctx.not_shown("holders tie: the self-referencing scenario does not load", repr(e)[:300])
        mod_self = None
    items = [(sc, src, mod, False) for (sc, vals, src, mod) in tied]
    if mod_self is not None:
        items.append((sc_self, src_self, mod_self, True))
    defs, cases, meta = [], [], []
    all_ids: dict[int, str] = {}
    shared = 0
    for n, (sc, src, mod, is_self) in enumerate(items):
        env_name = f"H{n}"
        defs.append(f"Definition {env_name} : env :=\n  {L.coq_env(sc)}.")
        Dl = getattr(mod, "Dl") if sc.dialect is not None else None
        kw = {"default_dialect": Dl} if Dl else {}
        data_classes = {id(getattr(mod, c.name)) for c in sc.classes}
        for i, t in enumerate(sc.roots):
            for isp, K in ((True, BasicEncoder), (False, BasicDecoder)):
                before = class_state(mod, sc)
                (st, val), builders = observe(lambda: K(mod.ROOTS[i], **kw))
                after = class_state(mod, sc)
                ctx.count(("holders", sc.sid, i, isp))
                if before != after:
                    ctx.fail(f"constructing {K.__name__}({L.py_ty(t)}) changed a dataclass: {before} -> {after}",
                             {"entry": "holders-frame", "source": src, "root": i, "encoder": isp},
                             {"kind": "codec-creation-touches-class"})
                if len(builders) != 1:
                    ctx.not_shown("holders tie", f"{len(builders)} top-level codec builders for one constructor")
                    continue
                b = builders[0]
                if st == "ok":
                    view = []
                    mname = "__mashumaro_to_dict__" if isp else "__mashumaro_from_dict__"
                    import dataclasses as _dc
                    for k, h in b.attrs_registry.items():
                        is_dc = isinstance(k, type) and _dc.is_dataclass(k)
                        if is_dc:
                            # (other keys - typing.Union, ... - are the holders of union / literal methods: identity only)
                            owns = any(a.startswith(mname) for a in h.__dict__)
                            view.append((L.cname(k), owns))
                        else:
                            ctx.hist("holders_other_key", str(k)[:40])
                        if id(h) in data_classes:
                            ctx.fail(f"{K.__name__}({L.py_ty(t)}): the holder of {L.cname(k)} is a dataclass",
                                     {"entry": "holders-frame", "source": src, "root": i, "encoder": isp},
                                     {"kind": "codec-holder-is-class"})
                        tag = f"{sc.sid}:{i}:{isp}"
                        if id(h) in all_ids and all_ids[id(h)] != tag:
                            shared += 1
                        all_ids[id(h)] = tag
                    # keep the builders alive until the end of the run: object identities must stay distinct
                    meta.append(b)
                    ex = "Some [" + "; ".join(f'({vlib.coq_str(c)}, {"true" if o else "false"})' for c, o in view) + "]"
                    ctx.hist("holders_case", ("encoder" if isp else "decoder") + f":holders={len(view)}")
                else:
                    ex = "None"
                    ctx.hist("holders_case", ("encoder" if isp else "decoder") + ":constructor-raises:" + type(val).__name__)
                    if not (is_self and isinstance(val, AttributeError)):
                        # only the self-reference is allowed to fail here (the tied scenarios construct their codecs elsewhere too)
                        ctx.fail(f"{K.__name__}({L.py_ty(t)}) cannot be constructed: {type(val).__name__}: {str(val)[:120]}",
                                 {"entry": "holders-frame", "source": src, "root": i, "encoder": isp},
                                 {"kind": "codec-constructor-raises"})
                cases.append(f"({env_name}, ({'true' if isp else 'false'}, {L.coq_ty(t)}), {ex})")
    if shared:
        ctx.fail(f"{shared} holder objects are shared between two codecs", {"entry": "holders-frame"}, {"kind": "codec-holder-shared"})
    bad, log = vlib.coq_bad_idx("c15_holders", "C15Model C15Proofs C15Site C15Holders", "From VerifGen Require Import K115a.",
                                "\n".join(defs) + "\n", cases, OK_FUN, CASE_TYPE, shard=400, timeout=1800,
                                needs=["theories/C15Holders.vo"])
    if bad is None:
        ctx.correspondence("holder registries model-vs-impl (BasicEncoder/BasicDecoder construction)", len(cases), -1, log)
        ctx.not_shown("correspondence holder registries", log)
    else:
        ctx.correspondence("holder registries model-vs-impl (BasicEncoder/BasicDecoder construction)", len(cases), len(bad),
                           "; ".join(cases[k][:300] for k in bad[:4]))
        if bad:
            ctx.not_shown("correspondence holder registries", "; ".join(cases[k][:300] for k in bad[:4]))

    # ---- the self-referencing dataclass through both paths
    def raw(fn):
        try:
            return ("ok", fn())
        except RecursionError:
            raise
        except Exception as e:      # noqa: BLE001
            return ("err", e)

    def key(r):
        return ("ok", L.canon(r[1])) if r[0] == "ok" else ("err", type(r[1]).__name__)

    if mod_self is not None:
        for (i, v) in vals_self:
            obj = L.build(mod_self, v)
            W = getattr(mod_self, f"W{i}")
            a = raw(lambda: W(f=obj).to_dict()["f"])
            bq = raw(lambda: BasicEncoder(mod_self.ROOTS[i]).encode(obj))
            ctx.count(("selfref", i))
            ka, kb = key(a), key(bq)
            if ka != kb:
                strict = flags is not None and not flags["pack"]
                sig = ({"kind": "codec-selfref-construction"} if strict and ka[0] == "ok" and kb == ("err", "AttributeError")
                       else {"kind": "selfref-disagreement"})
                ctx.fail(f"self-referencing dataclass: W(f=v).to_dict()['f'] = {ka} but BasicEncoder({L.py_ty(sc_self.roots[i])}) gives {kb}",
                         {"entry": "agree", "source": src_self, "root": i, "value": v, "dialect": None,
                          "observed_mixin": str(ka)[:200], "observed_codec": str(kb)[:200], "expected": "identical results"},
                         sig)
            if a[0] == "ok" and bq[0] == "ok":
                wire = a[1]
                da = raw(lambda: W.from_dict({"f": wire}).f)
                db = raw(lambda: BasicDecoder(mod_self.ROOTS[i]).decode(wire))
                ctx.count(("selfref-unpack", i))
                if key(da) != key(db) or da[0] != "ok":
                    ctx.fail(f"self-referencing dataclass: decoding paths disagree or fail: {key(da)} vs {key(db)}",
                             {"entry": "agree-unpack", "source": src_self, "root": i, "wire": L.canon(wire), "dialect": None},
                             {"kind": "selfref-disagreement"})
        L.unload_module(mod_self)
    del meta
    run_generic_self(ctx)


# ---------------------------------------------------------------------------
# which classes own __mashumaro_to_dict__ after the module is executed (C15Nailed.v over K115a)
# ---------------------------------------------------------------------------

FLAGS_CASE_TYPE = "env * list string * list ty * list (string * bool)"
FLAGS_OK_FUN = ("fun c : (" + FLAGS_CASE_TYPE + ") => match c with (E, mx, roots, ex) => flags_ok E mx roots ex end")


def run_flags_tie(ctx, tied):
    """tied: (sc, vals, src, mod) of scenarios inside the model.  A FRESH module is executed from the same source (no
    call has been made on it) and the `__dict__` of every dataclass is read; the model executes the class statements of
    the mixin classes and of the wrappers over the kernel's decisions, starting from a table in which nobody owns a method."""
    defs, cases, descr = [], [], []
    pred_bad = []
    for n, (sc, vals, src, mod) in enumerate(tied):
        if sc.lazy:
            ctx.hist("flags_tie", "skipped:lazy_compilation (methods appear at the first call)")
            continue
        try:
            fresh = L.load_module(src, f"flags_{n}")
        except Exception as e:      # noqa: BLE001
            ctx.not_shown("flags tie: module does not load", repr(e)[:200])
            continue
        try:
            real = {c.name: "__mashumaro_to_dict__" in getattr(fresh, c.name).__dict__ for c in sc.classes}
        finally:
            L.unload_module(fresh)
        d, sc.dialect = sc.dialect, None
        try:
            pred = L.predicted_has_method(sc)       # (without the dialect-call refinement, which is not about __dict__)
        finally:
            sc.dialect = d
        if pred != real:
            pred_bad.append((str(sc.sid), {k: (pred[k], real[k]) for k in real if pred[k] != real[k]}))
        env_name = f"N{n}"
        defs.append(f"Definition {env_name} : env :=\n  {L.coq_env(sc, has={c.name: False for c in sc.classes})}.")
        order = [c for h in ("A", "B", None) for c in sc.classes if c.home == h]
        mixins = "[" + "; ".join(vlib.coq_str(c.name) for c in order if c.mixin) + "]"
        roots = "[" + "; ".join(L.coq_ty(t) for t in sc.roots) + "]"
        ex = "[" + "; ".join(f'({vlib.coq_str(k)}, {"true" if v else "false"})' for k, v in real.items()) + "]"
        cases.append(f"({env_name}, {mixins}, {roots}, {ex})")
        descr.append(f"{sc.sid}: real={real}")
        ctx.count(("flags", str(sc.sid)))
        ctx.hist("flags_tie", f"plain classes with an installed method={sum(1 for c in sc.classes if real[c.name] and not c.mixin)}")
    if pred_bad:
        ctx.not_shown("c15lib.predicted_has_method differs from the real class __dict__s", str(pred_bad[:3])[:600])
    if not cases:
        return
    bad, log = vlib.coq_bad_idx("c15_flags", "C15Model C15Proofs C15Site C15Holders C15Nailed", "From VerifGen Require Import K115a.",
                                "\n".join(defs) + "\n", cases, FLAGS_OK_FUN, FLAGS_CASE_TYPE, shard=400, timeout=1800,
                                needs=["theories/C15Nailed.vo"])
    name = "installed-method flags model-vs-impl (class statements over K115a vs class __dict__ of a fresh module)"
    if bad is None:
        ctx.correspondence(name, len(cases), -1, log)
        ctx.not_shown("correspondence " + name, log)
    else:
        ctx.correspondence(name, len(cases), len(bad), "; ".join(descr[k][:300] for k in bad[:4]))
        if bad:
            ctx.not_shown("correspondence " + name, "; ".join(descr[k][:300] + " | " + cases[k][:400] for k in bad[:3]))


# ---------------------------------------------------------------------------
# a specialised generic dataclass with a Self field (the codec path keys the holder of `Self` by builder.cls - the
# APRegistry AKBuilderCls part of K115a.attrs_plan; repaired by 108dd9a): fixed scenario, oracle only
# ---------------------------------------------------------------------------

GENERIC_SELF_SRC = """from dataclasses import dataclass
from typing import Generic, List, Optional, TypeVar
from typing import Self
from mashumaro import DataClassDictMixin
T = TypeVar("T")


@dataclass
class Box(DataClassDictMixin, Generic[T]):
    v: T
    nxt: Optional[Self] = None


@dataclass
class IntBox(Box[int]):
    pass
"""


def generic_self_results(mod):
    from mashumaro.codecs.basic import BasicDecoder, BasicEncoder

    def raw(fn):
        try:
            return ("ok", repr(fn()))
        except RecursionError:
            raise
        except Exception as e:      # noqa: BLE001
            return ("err", type(e).__name__)
    Box, IntBox = mod.Box, mod.IntBox
    x = IntBox(1, IntBox(2))
    y = Box(1, Box(2))
    a = [raw(lambda: x.to_dict()), raw(lambda: y.to_dict())]
    b = [raw(lambda: BasicEncoder(IntBox).encode(x)), raw(lambda: BasicEncoder(Box[int]).encode(y))]
    wire = {"v": "1", "nxt": {"v": 2}}
    da = [raw(lambda: IntBox.from_dict(wire)), raw(lambda: Box.from_dict({"v": 1, "nxt": {"v": 2}}))]
    db = [raw(lambda: BasicDecoder(IntBox).decode(wire)), raw(lambda: BasicDecoder(Box[int]).decode({"v": 1, "nxt": {"v": 2}}))]
    return a, b, da, db


def run_generic_self(ctx):
    try:
        mod = L.load_module(GENERIC_SELF_SRC, "fx_generic_self")
    except Exception as e:      # noqa: BLE001
        ctx.not_shown("generic Self scenario does not load", repr(e)[:300])
        return
    try:
        a, b, da, db = generic_self_results(mod)
        ctx.count(("generic-self",), n=8)
        if a != b or da != db or any(r[0] != "ok" for r in a + da):
            ctx.fail(f"specialised generic dataclass with a Self field: mixin {a} {da} but codec {b} {db}",
                     {"entry": "generic-self", "source": GENERIC_SELF_SRC, "observed_mixin": str(a + da)[:300],
                      "observed_codec": str(b + db)[:300], "expected": "identical results"},
                     {"kind": "generic-self-codec"})
    finally:
        L.unload_module(mod)
