"""C15: correspondence of the FORMAT part of the Coq model (theories/C15Format.v) with the real format entry points.

For a Coq-tied scenario materialised with a format mixin in place of DataClassDictMixin:
  EMixin    x.to_<fmt>([dialect=Dl]) / D.from_<fmt>(doc[, dialect=Dl])      (root = a mixin dataclass, exact instance)
  ECodec    <Fmt>Encoder(T[, default_dialect=Dl]).encode(x) / <Fmt>Decoder(..).decode(doc)
  EOneShot  <fmt>_encode(x, T) / <fmt>_decode(doc, T)                        (no dialect)
are compared with fmt_encode / fmt_decode of the model, where the built-in dialect of the format is read off the REAL
dialect class on every run (five option attributes -> namespace) and Dialect.merge is the translated kernel K2.
Documents are compared after parsing them with the format library (TOML date/time literals are rendered as ISO text:
the strategy part of dialects is outside the model)."""
from __future__ import annotations

import copy
import datetime
import importlib
import json

from harness import c15lib as L
from harness import c15fmt as F
from harness import vlib
from harness.vlib import coq_str

OPTION_KEYS = ["serialize_by_alias", "namedtuple_as_dict", "omit_none", "omit_default", "no_copy_collections"]
FMT_DIALECT = {"msgpack": ("mashumaro.mixins.msgpack", "MessagePackDialect"), "orjson": ("mashumaro.mixins.orjson", "OrjsonDialect"),
               "toml": ("mashumaro.mixins.toml", "TOMLDialect"), "json": None, "yaml": None}

CASE_TYPE = "env * (entry * bool * string) * list (string * kv) * option (list (string * kv)) * ty * val * res val"
# strategy_sensitive (decided in Coq from the K13C tables): a union is reached and the format's built-in dialect has a
# strategy for `date` or sets no_copy_collections - outside the domain of the format model, the case counts as agreeing (and is counted)
OK_FUN = ("fun c : (" + CASE_TYPE + ") => match c with (E, (e, isp, fmt), fd, x, t, v, ex) => "
          "if strategy_sensitive fmt E t then true else "
          "let r := if isp then fmt_encode (doc_for fmt) e E fd x t v "
          "else fmt_decode (fun d : val => Some d) e E t v in "
          "match r, ex with "
          "| Ok a, Ok b => if isp && reorders_keys fmt then val_sim a b else val_eqb a b "
          "| Err XUnmodelled, _ => true "
          "| Err a, Err b => if isp then true else err_eqb a b "
          "| _, _ => false end end")
SENSITIVE_FUN = ("fun c : (" + CASE_TYPE + ") => match c with (E, (e, isp, fmt), fd, x, t, v, ex) => "
                 "negb (strategy_sensitive fmt E t) end")


def coq_kv(x) -> str:
    from mashumaro.core.const import Sentinel
    if x is Sentinel.MISSING:
        return "KMissing"
    if isinstance(x, bool):
        return "(KBool true)" if x else "(KBool false)"
    return f"(KStr {coq_str(repr(x))})"


def coq_ns(cls) -> str:
    from mashumaro.dialect import Dialect
    cls = cls or Dialect
    return "[" + "; ".join(f"({coq_str(k)}, {coq_kv(getattr(cls, k))})" for k in OPTION_KEYS) + "]"


def normalise(o):
    """parsed document -> basic value of the model's universe (TOML date literals as ISO text, tuples as lists)"""
    if isinstance(o, (datetime.datetime, datetime.date, datetime.time)):
        return o.isoformat()
    if isinstance(o, dict):
        return {k: normalise(v) for k, v in o.items()}
    if isinstance(o, (list, tuple)):
        return [normalise(v) for v in o]
    return o


def reaches_union(sc, t, seen=None) -> bool:
    seen = set() if seen is None else seen
    k = t[0]
    if k == "union":
        return True
    if k in ("list", "dict", "opt"):
        return reaches_union(sc, t[1], seen)
    if k == "tuple":
        return any(reaches_union(sc, x, seen) for x in t[1])
    if k == "data":
        if t[1] in seen:
            return False
        seen.add(t[1])
        return any(reaches_union(sc, ft, seen) for (_, _, ft) in sc.cls(t[1]).fields)
    return False


def run_format_tie(ctx, tied, budget):
    """tied: [(sc, vals)] Coq-tied scenarios; one format per scenario, rotating"""
    fmts = list(F.FORMATS)
    cases, defs, descr = [], [], []
    n_env = 0
    for k, (sc0, vals) in enumerate(tied[:budget]):
        fmt = fmts[k % len(fmts)]
        f = F.FORMATS[fmt]
        sc = copy.deepcopy(sc0)
        sc.sid = f"{sc0.sid}~{fmt}"
        sc.mixin_override = (f[0], f[1])
        if sc.dialect is None and k % 2 == 1:
            # give every second scenario a caller dialect (the user-dialect x built-in-dialect merge is what is tied here);
            # every class gets its own Config (ADD_DIALECT_SUPPORT) with the options it effectively had
            eff = {c.name: (c.by_alias, c.omit_none, c.omit_default) for c in sc.classes}
            for c in sc.classes:
                c.by_alias_own, on, od = eff[c.name]
                c.own_config = True
                c.extra.pop("omit_none", None)
                c.extra.pop("omit_default", None)
                if on is not None:
                    c.extra["omit_none"] = str(on)
                if od is not None:
                    c.extra["omit_default"] = str(od)
            sc.dialect = ctx.rng.choice([True, False, "unset"])
            sc.dialect_omit = ctx.rng.choice([None, True, False])
            sc.dialect_omit_default = ctx.rng.choice([None, None, True, False])
        src = L.scenario_src(sc)
        try:
            mod = L.load_module(src, f"fmttie{fmt}{k}")
        except Exception as e:
            ctx.hist("format_tie", f"{fmt}:module-rejected:{type(e).__name__}")
            continue
        try:
            codec = importlib.import_module(f[4])
            Enc, Dec, one_enc, one_dec = (getattr(codec, f[5]), getattr(codec, f[6]), getattr(codec, f[7]), getattr(codec, f[8]))
            Dl = getattr(mod, "Dl", None) if sc.dialect is not None else None
            call_kw = {"dialect": Dl} if Dl else {}
            codec_kw = {"default_dialect": Dl} if Dl else {}
            fdc = FMT_DIALECT[fmt]
            FD = getattr(importlib.import_module(fdc[0]), fdc[1]) if fdc else None
            env_name = f"FE{n_env}"
            n_env += 1
            defs.append(f"Definition {env_name} : env :=\n  {L.coq_env(sc)}.")
            fd_ns = coq_ns(FD)
            x_ns = f"(Some {coq_ns(Dl)})" if Dl else "None"
            istoml = coq_str(fmt)
            ctx.hist("format_tie", f"{fmt}:" + ("dialect" if Dl else "plain"))

            def add(entry, isp, t, vast, exp, what):
                cases.append(f"({env_name}, ({entry}, {'true' if isp else 'false'}, {istoml}), {fd_ns}, {x_ns}, "
                             f"{L.coq_ty(t)}, {L.coq_val(vast)}, {L.coq_res(exp)})")
                descr.append({"scenario": sc.sid, "format": fmt, "entry": entry, "direction": "pack" if isp else "unpack",
                              "type": L.py_ty(t), "value": repr(vast)[:300], "impl": repr(exp)[:300], "what": what})

            for (i, v, info) in vals:
                if info.get("junk") or info.get("subclass"):
                    continue
                t = sc.roots[i]
                if reaches_union(sc, t):
                    ctx.hist("format_tie", f"{fmt}:type-reaches-a-union")
                T = mod.ROOTS[i]
                obj = L.build(mod, v)
                direct = t[0] == "data" and sc.cls(t[1]).mixin and v[0] == "obj" and v[1] == t[1]
                D = getattr(mod, t[1]) if direct else None
                entries = []
                if direct:
                    entries.append(("EMixin", lambda: getattr(obj, f[2])(**call_kw)))
                entries.append(("ECodec", lambda: Enc(T, **codec_kw).encode(obj)))
                if not Dl:
                    entries.append(("EOneShot", lambda: one_enc(obj, T)))
                document = None
                for (ename, fn) in entries:
                    r = F.outcome(fn)
                    if r[0] == "ok":
                        parsed = F.outcome(lambda: normalise(F.parse_lenient(fmt, r[1])))
                        exp = ("ok", L.canon(parsed[1])) if parsed[0] == "ok" else ("err", "raw")
                        if ename == "ECodec" and parsed[0] == "ok":
                            document = r[1]
                    else:
                        exp = ("err", "raw")
                    if exp[0] == "ok" and not L.in_universe(exp[1]):
                        continue
                    add(ename, True, t, v, exp, "encode")
                if document is None:
                    continue
                # decoding: the codec's own document, and (not for TOML: its date literals bypass validation through the
                # pass_through strategy) a perturbed one re-dumped with the library
                docs = [document]
                base = L.canon(normalise(F.parse_lenient(fmt, document)))
                if fmt != "toml" and L.in_universe(base):
                    w2 = L.mutate_wire(ctx.rng, base)
                    d2 = F.outcome(lambda: F.DUMPS[fmt][0](L.build(mod, w2)))
                    if d2[0] == "ok":
                        docs.append(d2[1])
                for doc in docs:
                    wire = L.canon(normalise(F.parse_lenient(fmt, doc)))
                    if not L.in_universe(wire):
                        continue
                    dentries = []
                    if direct:
                        dentries.append(("EMixin", lambda: getattr(D, f[3])(doc, **call_kw)))
                    dentries.append(("ECodec", lambda: Dec(T, **codec_kw).decode(doc)))
                    if not Dl:
                        dentries.append(("EOneShot", lambda: one_dec(doc, T)))
                    for (ename, fn) in dentries:
                        r = L.call(fn)
                        exp = r if r[0] == "ok" else L.classify_exc(r[1])
                        if exp[0] == "ok" and not L.in_universe(exp[1]):
                            continue
                        add(ename, False, t, wire, exp, "decode")
        finally:
            L.unload_module(mod)
    if not cases:
        return
    bad, log = vlib.coq_bad_idx("c15_fmt", "DialectMerge C15Model C15Proofs C15Format", "From VerifGen Require Import K2 K13.",
                                "\n".join(defs), cases, OK_FUN, CASE_TYPE, shard=300, timeout=1800,
                                needs=["gen/K13C.vo", "theories/C15Format.vo"])
    name = "format-model-vs-impl (mixin/codec/one-shot x msgpack/orjson/json/yaml/toml, K2 merge)"
    if bad is None:
        ctx.correspondence(name, len(cases), -1, log)
        ctx.not_shown("correspondence " + name, log)
    else:
        detail = json.dumps([descr[i] for i in bad[:5]], default=str)
        ctx.correspondence(name, len(cases), len(bad), detail)
        if bad:
            ctx.not_shown("correspondence " + name, detail)
    sens, _ = vlib.coq_bad_idx("c15_fmt_sens", "DialectMerge C15Model C15Proofs C15Format", "From VerifGen Require Import K2 K13.",
                               "\n".join(defs), cases, SENSITIVE_FUN, CASE_TYPE, shard=300, timeout=1800, needs=["theories/C15Format.vo"])
    ctx.hist("format_tie", "outside-domain:union+built-in date strategy or no_copy_collections (K13C)", len(sens or []))
    ctx.count(n=len(cases))
