"""Shared machinery of the checks: kernel regeneration, Coq builds, case evaluation
inside Coq, evidence, replay files, known findings, verdict lines."""
from __future__ import annotations

import fcntl
import hashlib
import json
import os
import random
import re
import subprocess
import sys
import time
from dataclasses import dataclass, field
from typing import Any, Callable

VERIF = os.path.dirname(os.path.dirname(os.path.abspath(__file__)))
REPO = os.environ.get("VERIF_REPO", "/repo")
COQ = os.path.join(VERIF, "coq")
EVID = os.path.join(VERIF, "evidence")
REPLAYS = os.path.join(VERIF, "replays")
CASES = os.path.join(COQ, "cases")
KF_FILE = os.path.join(VERIF, "known_findings.json")

sys.path.insert(0, os.path.join(VERIF, "tools"))

COQ_FLAGS = ["-Q", "theories", "Verif", "-Q", "gen", "VerifGen", "-Q", "props", "VerifProps",
             "-w", "-notation-overridden,-deprecated"]

TRUSTED_COMMON = [
    "Coq 8.16.1 kernel incl. vm_compute (no native_compute); no Axiom/Parameter/Admitted in the development",
    "tools/py2gallina.py (Python-ast -> Gallina translator, fail-closed) for kernels under coq/gen",
    "harness/ (case generation, materialisation of schemas as Python classes and Coq terms, canonicalisation, comparison)",
    "CPython semantics of the primitives called by generated code are modelled, not verified (see DESIGN.md 2.6)",
]


class Lock:
    def __init__(self, name: str = "build"):
        self.path = os.path.join(COQ, f".{name}.lock")

    def __enter__(self):
        self.f = open(self.path, "w")
        fcntl.flock(self.f, fcntl.LOCK_EX)
        return self

    def __exit__(self, *a):
        fcntl.flock(self.f, fcntl.LOCK_UN)
        self.f.close()


def run(cmd, cwd=None, timeout=600, env=None, input=None):
    t0 = time.time()
    try:
        p = subprocess.run(cmd, cwd=cwd, timeout=timeout, capture_output=True, text=True, env=env, input=input)
        return p.returncode, p.stdout + p.stderr, time.time() - t0
    except subprocess.TimeoutExpired as e:
        out = (e.stdout or b"").decode(errors="replace") if isinstance(e.stdout, bytes) else (e.stdout or "")
        return 124, out + "\nTIMEOUT", time.time() - t0


def coqproject_text() -> str:
    """_CoqProject is derived from the directory contents (theories/, gen/, props/), so that
    adding a file needs no edit and parallel work never conflicts on it."""
    lines = ["-Q theories Verif", "-Q gen VerifGen", "-Q props VerifProps",
             "-arg -w -arg -notation-overridden,-deprecated"]
    for d in ("theories", "gen", "props"):
        dd = os.path.join(COQ, d)
        if os.path.isdir(dd):
            for f in sorted(os.listdir(dd)):
                if f.endswith(".v"):
                    lines.append(f"{d}/{f}")
    return "\n".join(lines) + "\n"


def ensure_makefile():
    mk = os.path.join(COQ, "Makefile")
    cp = os.path.join(COQ, "_CoqProject")
    txt = coqproject_text()
    old = open(cp).read() if os.path.exists(cp) else None
    if old != txt:
        with open(cp, "w") as f:
            f.write(txt)
    if not os.path.exists(mk) or old != txt or os.path.getmtime(mk) < os.path.getmtime(cp):
        run(["coq_makefile", "-f", "_CoqProject", "-o", "Makefile"], cwd=COQ)


def regen_kernels(only=None) -> dict:
    import gen_kernels
    with Lock("gen"):
        return gen_kernels.main(only)


@dataclass
class BuildResult:
    ok: bool
    log: str
    secs: float
    failed_file: str | None = None
    error: str | None = None
    assumptions: dict = field(default_factory=dict)


def parse_assumptions(log: str) -> dict:
    """`Print Assumptions X.` output is either 'Closed under the global context' or
    'Axioms:' followed by the list.  We keep them in order of appearance."""
    out = []
    lines = log.splitlines()
    i = 0
    while i < len(lines):
        ln = lines[i]
        if "Closed under the global context" in ln:
            out.append("Closed under the global context")
        elif ln.strip() == "Axioms:":
            ax = []
            i += 1
            while i < len(lines) and (lines[i].startswith(" ") or ":" in lines[i]) and not lines[i].startswith("COQC") and "Closed under" not in lines[i] and lines[i].strip() != "Axioms:":
                ax.append(lines[i].strip())
                i += 1
            out.append("Axioms: " + " | ".join(ax))
            continue
        i += 1
    return {"print_assumptions": out}


def coq_make(targets: list[str], timeout=900, force: list[str] | None = None, jobs=8) -> BuildResult:
    """Build .vo targets (and their cones) with the generated Makefile; `force` lists
    .v files to touch first so that their Print Assumptions output is captured."""
    with Lock("build"):
        ensure_makefile()
        for f in force or []:
            p = os.path.join(COQ, f)
            if os.path.exists(p):
                os.utime(p, None)
        rc, log, secs = run(["timeout", str(timeout), "make", f"-j{jobs}"] + targets, cwd=COQ, timeout=timeout + 30)
    ok = rc == 0
    failed = None
    err = None
    if not ok:
        m = re.search(r'File "\./([^"]+)", line (\d+), characters [\d-]+:\n((?:.*\n){1,12})', log)
        if m:
            failed = m.group(1)
            err = f"{m.group(1)}:{m.group(2)}: " + m.group(3).strip()[:600]
        else:
            err = log[-800:]
    br = BuildResult(ok=ok, log=log, secs=secs, failed_file=failed, error=err)
    br.assumptions = parse_assumptions(log)
    return br


def coq_eval(name: str, vtext: str, timeout=600) -> tuple[bool, str]:
    """Compile one generated .v file under coq/cases and return its output."""
    os.makedirs(CASES, exist_ok=True)
    path = os.path.join(CASES, f"{name}.v")
    with open(path, "w") as f:
        f.write(vtext)
    rc, log, secs = run(["timeout", str(timeout), "coqc"] + COQ_FLAGS + [os.path.join("cases", f"{name}.v")],
                        cwd=COQ, timeout=timeout + 30)
    return rc == 0, log


def coq_eval_many(named: list[tuple[str, str]], timeout=600, jobs=12) -> list[tuple[bool, str]]:
    """Compile several case files in parallel."""
    os.makedirs(CASES, exist_ok=True)
    procs = []
    results: list[tuple[bool, str] | None] = [None] * len(named)
    pending = list(enumerate(named))
    running: list[tuple[int, subprocess.Popen, float]] = []
    while pending or running:
        while pending and len(running) < jobs:
            i, (name, vtext) = pending.pop(0)
            path = os.path.join(CASES, f"{name}.v")
            with open(path, "w") as f:
                f.write(vtext)
            p = subprocess.Popen(["timeout", str(timeout), "coqc"] + COQ_FLAGS + [os.path.join("cases", f"{name}.v")],
                                 cwd=COQ, stdout=subprocess.PIPE, stderr=subprocess.STDOUT, text=True)
            running.append((i, p, time.time()))
        still = []
        for i, p, t0 in running:
            if p.poll() is None:
                still.append((i, p, t0))
            else:
                out = p.stdout.read() if p.stdout else ""
                results[i] = (p.returncode == 0, out)
        running = still
        if running:
            time.sleep(0.05)
    return [r if r is not None else (False, "not run") for r in results]


# ---------------------------------------------------------------------------
# strings across the boundary: Coq `string` literals from arbitrary bytes
# ---------------------------------------------------------------------------

def coq_str(s: str | bytes) -> str:
    """A Coq term of type string denoting the UTF-8 bytes of s (hex decoded inside Coq
    unless the text is plain printable ASCII without quotes)."""
    b = s.encode("utf-8", "surrogatepass") if isinstance(s, str) else bytes(s)
    if all(32 <= c < 127 and c != 34 for c in b):
        return '"' + b.decode("ascii") + '"'
    return '(hx "' + b.hex() + '")'


def coq_z(n: int) -> str:
    return f"({n})" if n < 0 else str(n)


def coq_list(items) -> str:
    return "[" + "; ".join(items) + "]"


def coq_bool(b) -> str:
    return "true" if b else "false"


# ---------------------------------------------------------------------------
# known findings
# ---------------------------------------------------------------------------

def load_known_findings() -> dict:
    kf = {"findings": [], "fixed": []}
    if os.path.exists(KF_FILE):
        kf = json.load(open(KF_FILE))
    # per-property parts (folded into known_findings.json by the lead when branches are merged)
    d = os.path.join(VERIF, "known_findings.d")
    if os.path.isdir(d):
        for f in sorted(os.listdir(d)):
            if f.endswith(".json"):
                part = json.load(open(os.path.join(d, f)))
                kf.setdefault("findings", []).extend(part.get("findings", []))
                kf.setdefault("fixed", []).extend(part.get("fixed", []))
    return kf


# ---------------------------------------------------------------------------
# check context
# ---------------------------------------------------------------------------

@dataclass
class Failure:
    what: str                 # one-line description
    replay: dict              # self-contained replay (entry, schema source, input, observed, expected)
    signature: dict = field(default_factory=dict)   # features used to match a known finding


class Ctx:
    def __init__(self, pid: str, tier: str, seed: int):
        self.pid = pid
        self.tier = tier
        self.seed = seed
        self.rng = random.Random(seed * 1000003 + int(hashlib.sha256(pid.encode()).hexdigest()[:6], 16))
        self.t0 = time.time()
        self.obligations: list[dict] = []       # {name, ok, detail}
        self.corr: list[dict] = []              # {name, cases, mismatches, detail}
        self.failures: list[Failure] = []
        self.unshown: list[dict] = []           # broken obligation / correspondence without failing input
        self.coverage: dict[str, Any] = {"evaluations": 0, "distinct_nontrivial": 0, "samples": []}
        self.assumptions: list[str] = []
        self.trusted: list[str] = list(TRUSTED_COMMON)
        self.notes: list[str] = []
        self.kernel_report: dict = {}
        self.axioms: list[str] = []
        self._distinct: set = set()
        self.level = "proof"
        self.checker_cmd = ""

    # -- bookkeeping helpers
    def quick(self) -> bool:
        return self.tier == "quick"

    def budget(self, quick: int, thorough: int) -> int:
        return quick if self.tier == "quick" else thorough

    def count(self, key: Any = None, nontrivial: bool = True, n: int = 1):
        self.coverage["evaluations"] += n
        if key is not None and nontrivial:
            self._distinct.add(key if isinstance(key, (str, int, tuple)) else repr(key))

    def sample(self, s: Any, limit: int = 6):
        if len(self.coverage["samples"]) < limit:
            self.coverage["samples"].append(s)

    def hist(self, name: str, key: str, n: int = 1):
        h = self.coverage.setdefault(name, {})
        h[key] = h.get(key, 0) + n

    def obligation(self, name: str, ok: bool, detail: str = ""):
        self.obligations.append({"name": name, "ok": bool(ok), "detail": detail[:1500]})

    def correspondence(self, name: str, cases: int, mismatches: int, detail: str = ""):
        self.corr.append({"name": name, "cases": cases, "mismatches": mismatches, "detail": detail[:3000]})

    def fail(self, what: str, replay: dict, signature: dict | None = None):
        self.failures.append(Failure(what, replay, signature or {}))

    def not_shown(self, name: str, detail: str):
        self.unshown.append({"name": name, "detail": detail[:3000]})

    def coqchk(self, modules: list[str], timeout: int = 900):
        """thorough tier only: second opinion of the independent checker on the compiled property files and everything
        they depend on; records the axioms it reports ("<none>" expected)"""
        if self.quick():
            return
        rc, out, secs = run(["timeout", str(timeout), "coqchk", "-silent", "-o"] + COQ_FLAGS[:9] + modules, cwd=COQ, timeout=timeout + 60)
        good = rc == 0 and "* Axioms: <none>" in out
        name = "coqchk " + " ".join(modules) + " (axioms: none)"
        self.obligation(name, good, out[-600:])
        if not good:
            self.not_shown(name, out[-1500:])
        else:
            self.trusted.append("coqchk -o on " + ", ".join(modules) + f": Axioms: <none> ({secs:.0f} s)")

    # -- Coq
    def build(self, targets: list[str], force: list[str] | None = None, timeout=900) -> BuildResult:
        br = coq_make(targets, timeout=timeout, force=force)
        self.checker_cmd = f"make -C {COQ} " + " ".join(targets) + " (coqc 8.16.1, full .vo build)"
        for a in br.assumptions.get("print_assumptions", []):
            self.axioms.append(a)
        return br

    def theorems(self, target_vo: str, names: list[str], kernels: list[str] | None = None) -> BuildResult:
        """Build a props file and register each named theorem as an obligation."""
        v = target_vo[:-1] if target_vo.endswith(".vo") else target_vo
        br = self.build([target_vo], force=[v])
        kr = self.kernel_report
        kfail = [k for k in (kernels or []) if k in kr and not kr[k]["ok"]]
        for n in names:
            if br.ok and not kfail:
                self.obligation(n, True, "accepted by coqc")
            else:
                why = br.error or ""
                if kfail:
                    why = "translator failed closed for " + ",".join(f"{k}: {kr[k]['error']}" for k in kfail) + " | " + why
                self.obligation(n, False, why)
        if not br.ok or kfail:
            self.not_shown(f"theorems of {target_vo}", (br.error or "") + (" kernels: " + str(kfail) if kfail else ""))
        return br


# ---------------------------------------------------------------------------
# finishing: classification, evidence, verdict
# ---------------------------------------------------------------------------

def match_known(pid: str, f: Failure, kfs: dict) -> dict | None:
    for k in kfs.get("findings", []):
        if pid not in k.get("properties", []):
            continue
        sig = k.get("signature", {})
        if sig and all(f.signature.get(a) == b for a, b in sig.items()):
            return k
    return None


def finish(ctx: Ctx) -> int:
    os.makedirs(EVID, exist_ok=True)
    os.makedirs(REPLAYS, exist_ok=True)
    kfs = load_known_findings()
    lines = []
    violations = 0
    known_hits: dict[str, int] = {}
    new_failures = []
    for f in ctx.failures:
        k = match_known(ctx.pid, f, kfs)
        if k is not None:
            known_hits[k["id"]] = known_hits.get(k["id"], 0) + 1
        else:
            new_failures.append(f)
    # listed findings are printed on every run (they are part of the state of the tree)
    for k in kfs.get("findings", []):
        if ctx.pid in k.get("properties", []):
            n = known_hits.get(k["id"], 0)
            lines.append(f"KNOWN-FINDING: property={ctx.pid} {k['id']}: {k['what']} (reproduced {n}x in this run)")
    seen = set()
    for i, f in enumerate(new_failures):
        key = json.dumps(f.signature, sort_keys=True, default=str) + f.what[:80]
        if key in seen and i > 0:
            continue
        seen.add(key)
        if violations >= 5:
            break
        path = os.path.join(REPLAYS, f"{ctx.pid}-{ctx.seed}-{violations}.json")
        rep = {"property": ctx.pid, "kind": "failing-input", "what": f.what, "seed": ctx.seed,
               "signature": f.signature, **f.replay,
               "broken_obligations": [o for o in ctx.obligations if not o["ok"]],
               "correspondence": [c for c in ctx.corr if c["mismatches"]]}
        with open(path, "w") as fh:
            json.dump(rep, fh, indent=1, default=str)
        lines.append(f"VIOLATION property={ctx.pid} replay={path}")
        violations += 1
    if not new_failures and ctx.unshown:
        path = os.path.join(REPLAYS, f"{ctx.pid}-{ctx.seed}-unshown.json")
        rep = {"property": ctx.pid, "kind": "no-failing-input-found", "seed": ctx.seed,
               "not_shown": ctx.unshown,
               "broken_obligations": [o for o in ctx.obligations if not o["ok"]],
               "correspondence": [c for c in ctx.corr if c["mismatches"]],
               "search": {"evaluations": ctx.coverage.get("evaluations", 0)}}
        with open(path, "w") as fh:
            json.dump(rep, fh, indent=1, default=str)
        lines.append(f"VIOLATION property={ctx.pid} replay={path} no-failing-input-found")
        violations += 1

    cov = dict(ctx.coverage)
    cov["distinct_nontrivial"] = max(cov.get("distinct_nontrivial", 0), len(ctx._distinct))
    cov["obligations"] = len(ctx.obligations)
    cov["discharged"] = sum(1 for o in ctx.obligations if o["ok"])
    cov["obligation_list"] = ctx.obligations
    cov["checker_cmd"] = ctx.checker_cmd or f"make -C {COQ}"
    cov["trusted_base"] = ctx.trusted
    cov["correspondence"] = ctx.corr
    cov["traces_validated_against_impl"] = sum(c["cases"] for c in ctx.corr)
    cov["print_assumptions"] = ctx.axioms
    cov["kernels"] = ctx.kernel_report
    cov["known_findings_reproduced"] = known_hits
    cov["notes"] = ctx.notes
    cov.setdefault("rule", "see DESIGN.md section 4 for this property")
    if not cov["samples"]:
        cov["samples"] = [o["name"] for o in ctx.obligations][:5] or ["(no sample)"]
    ev = {"property_id": ctx.pid, "tier": ctx.tier, "seed": ctx.seed, "level": ctx.level,
          "coverage": cov, "assumptions": ctx.assumptions, "wall_s": round(time.time() - ctx.t0, 2),
          "violations": violations}
    with open(os.path.join(EVID, f"{ctx.pid}.json"), "w") as fh:
        json.dump(ev, fh, indent=1, default=str)
    for ln in lines:
        print(ln)
    print(f"[{ctx.pid}] tier={ctx.tier} seed={ctx.seed} obligations={cov['discharged']}/{cov['obligations']} "
          f"corr_cases={cov['traces_validated_against_impl']} evals={cov['evaluations']} "
          f"violations={violations} wall={ev['wall_s']}s")
    return 1 if violations else 0


# ---------------------------------------------------------------------------
# evaluating `bad_idx ok cases` inside Coq
# ---------------------------------------------------------------------------

CASE_HEADER = """From Coq Require Import List String Ascii ZArith Bool.
From Verif Require Import Regex PyK Wire {imports}.
{gen_imports}
Import ListNotations.
Open Scope string_scope.
Open Scope Z_scope.
"""


def parse_nat_list(out: str) -> list[int] | None:
    m = re.search(r"=\s*(\[[^\]]*\])\s*(?:%nat)?\s*:\s*list nat", out, re.S)
    if not m:
        return None
    body = m.group(1).strip()[1:-1].strip()
    if not body:
        return []
    return [int(x.replace("%nat", "").strip()) for x in body.split(";")]


def coq_bad_idx(name: str, imports: str, gen_imports: str, defs: str, cases: list[str], ok_fun: str,
                case_type: str, shard: int = 400, timeout=600, needs: list[str] | None = None) -> tuple[list[int] | None, str]:
    """Evaluate `bad_idx ok_fun cases` in shards; returns (bad indices, log) or (None, log) if Coq failed."""
    br = coq_make(["theories/Wire.vo", "theories/PyK.vo"] + (needs or []))
    if not br.ok:
        return None, "model does not build: " + (br.error or "")
    files = []
    for si in range(0, max(len(cases), 1), shard):
        chunk = cases[si:si + shard]
        txt = CASE_HEADER.format(imports=imports, gen_imports=gen_imports) + defs + "\n"
        txt += f"Definition cases : list ({case_type}) :=\n  [" + ";\n   ".join(chunk) + "].\n"
        txt += f"Eval vm_compute in (bad_idx ({ok_fun}) cases).\n"
        files.append((f"{name}_{si // shard}", txt))
    res = coq_eval_many(files, timeout=timeout)
    bad: list[int] = []
    logs = []
    for n, (ok, out) in enumerate(res):
        if not ok:
            return None, out[-3000:]
        idx = parse_nat_list(out)
        if idx is None:
            return None, "unparsable coq output: " + out[-1500:]
        bad.extend(n * shard + i for i in idx)
        logs.append(out[-200:])
    return bad, "\n".join(logs)
