#!/bin/bash
# Offline setup: python deps for the search oracles, kernel regeneration, full Coq build.
set -u
cd "$(dirname "$0")"
if [ ! -d .pydeps/jsonschema ]; then
  /venv/bin/pip install -q --no-index --find-links /opt/veriftools/wheels --target .pydeps jsonschema >/dev/null 2>&1 || echo "warning: jsonschema not installed"
fi
export PYTHONPATH="${VERIF_REPO:-/repo}:$(pwd):$(pwd)/.pydeps" PYTHONHASHSEED=0 PYTHONDONTWRITEBYTECODE=1
/venv/bin/python tools/gen_kernels.py >/dev/null
/venv/bin/python -c "from harness import vlib; vlib.ensure_makefile()"
cd coq
mkdir -p ../.log
# -k: a proof that does not check (e.g. against an edited /repo) must not stop the rest
timeout 3000 make -k -j14 >../.log/setup_make.log 2>&1
rc=$?
tail -5 ../.log/setup_make.log
echo "setup: make exit $rc"
exit 0
