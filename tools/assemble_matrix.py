#!/usr/bin/env python3
"""Assemble seeded/MATRIX.md from the logs of the background matrix runs (vp run -- tools/seed_matrix.py ...).
For every (seeded change, check) the NEWEST run wins; the commit of /verif the run started from is recorded.
usage: assemble_matrix.py [runs_dir=/root/.vp/runs]"""
import json, os, re, sys, glob
V = os.path.dirname(os.path.dirname(os.path.abspath(__file__)))
runs = sys.argv[1] if len(sys.argv) > 1 else "/root/.vp/runs"
rows = {}
pat = re.compile(r"^(\S+) (C\d\d) (CAUGHT|MISSED|SUPERSEDED|NOT-FLAGGED\(expected\)|FLAGGED\(unexpected\)|PATCH-FAILED\S*|RC\d+) ?(.*)$")
for d in sorted(glob.glob(os.path.join(runs, "*")), key=lambda p: int(os.path.basename(p)) if os.path.basename(p).isdigit() else -1):
    n = os.path.basename(d)
    log = os.path.join(d, "log")
    if not n.isdigit() or not os.path.exists(log):
        continue
    commit = "?"
    for mf in ("meta.json", "run.json"):
        mp = os.path.join(d, mf)
        if os.path.exists(mp):
            try:
                commit = str(json.load(open(mp)).get("verif_commit", "?"))[:7]
            except Exception:
                pass
    for line in open(log, errors="replace"):
        m = pat.match(line.strip())
        if m and os.path.isdir(os.path.join(V, "seeded", m.group(1))):
            rows[(m.group(1), m.group(2))] = (m.group(3), m.group(4)[:160], n, commit)
def prop_of(name):
    mp = os.path.join(V, "seeded", name, "meta.json")
    try:
        return json.load(open(mp)).get("property", "?")
    except Exception:
        m = re.match(r"^(C\d\d)-", name)
        return m.group(1) if m else "?"
out = os.path.join(V, "seeded", "MATRIX.md")
with open(out, "w") as f:
    f.write("# Seeded changes x checks (quick tier, seed 0)\n\nAssembled by tools/assemble_matrix.py from background runs of tools/seed_matrix.py "
            "(each run: scratch copy of /repo with the change applied, VERIF_REPO, `./check Cxx quick`; the newest run per row wins; "
            "`run` = number of the background run, `verif` = the /verif commit it started from). Rows of changes that have no run yet are listed at the end.\n\n")
    f.write("| seeded change | property | check | result | detail | run | verif |\n|---|---|---|---|---|---|---|\n")
    for (name, chk), (st, det, n, c) in sorted(rows.items()):
        f.write(f"| {name} | {prop_of(name)} | {chk} | {st} | {det} | {n} | {c} |\n")
    have = {k[0] for k in rows}
    missing = [x for x in sorted(os.listdir(os.path.join(V, 'seeded'))) if os.path.isdir(os.path.join(V, 'seeded', x)) and x not in have]
    f.write("\nNo matrix run recorded (run by the engineers with tools/run_seeded.py, see meta.json `ran`): " + ", ".join(missing) + "\n")
    tot = len(rows); caught = sum(1 for v in rows.values() if v[0] == "CAUGHT"); missed = sum(1 for v in rows.values() if v[0] == "MISSED")
    f.write(f"\nTotals: {tot} rows, {caught} CAUGHT, {missed} MISSED, {tot-caught-missed} other (expected not-flagged / superseded / patch no longer applies).\n")
print("written", out, len(rows))
