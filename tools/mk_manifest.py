#!/usr/bin/env python3
"""Writes /verif/MANIFEST.json from the table below (kept in one place so it stays valid)."""
import json
import os

VERIF = os.path.dirname(os.path.dirname(os.path.abspath(__file__)))

# id -> (technique, level text, level note, design ref)
CLAIMS = {
    "C01": ("Coq proof (finite sweep lifted by forallb_forall) over the kernel translated from source; model/implementation correspondence in Coq vm_compute; exhaustive implementation oracle",
            "Theorem C01_timezone about parse_timezone as translated from /repo on every run: every whole-minute offset in (-24h,24h) round-trips (proved, closed under the global context).",
            "Trusted: Coq kernel + vm_compute, tools/py2gallina.py, TzName.tzname model of CPython (compared exhaustively each run).",
            "4 C01"),
}

ALL = [f"C{i:02d}" for i in range(1, 21)]


def main():
    checks = []
    for pid, (tech, text, note, ref) in CLAIMS.items():
        checks.append({
            "property_id": pid,
            "quick_cmd": f"./check {pid} quick",
            "thorough_cmd": f"./check {pid} thorough",
            "evidence_file": f"/verif/evidence/{pid}.json",
            "replay_cmd_template": f"./check {pid} --replay {{path}}",
            "engine": "coq-proof+correspondence",
            "level_claimed": {"category": "proof", "text": text, "design_ref": ref},
            "level_note": note,
            "technique": tech,
        })
    na = [{"property_id": p, "reason": "check not built yet in this round (planned, see DESIGN.md section 4); not claimed until a theorem about it compiles"}
          for p in ALL if p not in CLAIMS]
    m = {
        "version": 1,
        "setup_cmd": "./setup.sh",
        "hooks": {
            "guard": "MASHUMARO_VERIF",
            "enable": "no instrumentation hooks are needed: generated code is captured by rebinding the module-global exec from the harness; checks export MASHUMARO_VERIF=1 for uniformity",
            "baseline_off_cmd": "cd /repo && /venv/bin/python -m pytest -q -p no:cacheprovider -n 8",
            "source_commits": [],
            "add_only": True,
        },
        "engines": [{"name": "coq-proof+correspondence", "path": "/verif/coq", "serves_properties": list(CLAIMS),
                     "kind_free_text": "Rocq/Coq 8.16.1 development: kernels translated from source on every run (tools/py2gallina.py) + hand-written generator model tied by vm_compute correspondence (harness/)"}],
        "checks": checks,
        "not_applicable": na,
        "notes": "Technique family: machine-checked proof in Rocq (Coq). See DESIGN.md. known_findings.json lists genuine defects (open and fixed).",
    }
    with open(os.path.join(VERIF, "MANIFEST.json"), "w") as f:
        json.dump(m, f, indent=1)
    print("MANIFEST.json written:", len(checks), "checks,", len(na), "not claimed")


if __name__ == "__main__":
    main()
