#!/usr/bin/env python3
"""Writes /verif/MANIFEST.json from the table below (kept in one place so it stays valid)."""
import json
import os

VERIF = os.path.dirname(os.path.dirname(os.path.abspath(__file__)))

# id -> (technique, level text, level note, design ref)
CLAIMS = {
    "C01": ("Coq proof by nested induction on (value, type) over a hand-written model of the generated (un)packers, composed from C02/C03 theorems; timezone codec proved over the kernel translated from source (finite sweep lifted by forallb_forall); model/implementation correspondence by vm_compute; round-trip oracle on the implementation",
            "Theorems C01_roundtrip / C01_roundtrip_codec / C01_roundtrip_total: for every class table, lossless type (any depth, recursive dataclasses, NamedTuples (as_list form, with defaults), TypedDicts (total / Required / NotRequired keys), collections incl. Sequence / Mapping / Deque / OrderedDict / DefaultDict / MappingProxyType / Counter / ChainMap, mappings keyed by scalars, leaves, enums or bytes (under vals_ok: the wire forms of the keys present pairwise distinct), fixed / variadic tuples and tuples with an unpacked segment, Optional, Literal of int/str/bool/None constants, leaves, enums, bytes, Any) and conforming value, decoding the generated packer's output returns the value with the same concrete classes; the side condition conf_ord = conformance + TypedDict keys in the decoder's order (C01_conf_ord_is_conf; == on dicts ignores the order, = on terms does not); C01_timezone about parse_timezone as translated from /repo on every run. All closed under the global context.",
            "Trusted: Coq kernel + vm_compute (+ coqchk in the thorough tier); TyModel.v is hand-written and tied to /repo only by the per-run vm_compute correspondence (BasicEncoder/BasicDecoder on generated schemas, values and foreign inputs) except for the index/slice plan of unpacked tuples, which is proved equal to the arg_indexes loop translated from /repo (kernel K7, TyK7.v); stdlib render/parse pairs are oracle functions whose law is a hypothesis (atoms_ok); tools/py2gallina.py for K1/K7; unions (C11), enum-member / bytes literals, namedtuple_as_dict (dialect / Config option: dedicated round-trip scenario), generic NamedTuples/TypedDicts, Config options (aliases, sort_keys) and the defaultdict factory are decided by the implementation oracle only.",
            "4 C01"),
    "C02": ("Coq proof by nested induction (pk (cp t) = ref_enc t on conforming values) over the hand-written generator model; vm_compute correspondence with BasicEncoder; independent reference-interpreter oracle incl. format dialects",
            "Theorems C02_pack_ref / C02_field_packer / C02_basic: the generated packer with all its optimisations (copy vs comprehension, elided None tests, identity packers, index/slice plan of unpacked tuples) equals the README-level reference encoder for every conforming value of every type of the grammar (incl. NamedTuple as_list, TypedDict required-then-optional keys, tuples with an unpacked segment, Sequence / Mapping / Deque / OrderedDict / DefaultDict / MappingProxyType / Counter / ChainMap), at any depth, and emits only basic values. Closed under the global context.",
            "Trusted: Coq kernel (+ coqchk in the thorough tier); TyModel.v (model of pack.py decisions) tied by per-run vm_compute correspondence, the unpacked-tuple plan by kernel K7; stdlib renderings are oracle tables; format dialects (orjson/msgpack/TOML native types, TOML null dropping), unions, enum-member / bytes literals, namedtuple_as_dict (dialect / Config option: dict of all items in field order) and generic NamedTuples/TypedDicts are decided by the independent Python reference interpreter only.",
            "4 C02"),
    "C03": ("Coq proof by nested induction (uk (cu t) = the as-generated reading of the reference on EVERY input; documented reference = as-generated reading or 'too few items') over the hand-written generator model; index/slice plan of unpacked tuples proved equal to the arg_indexes loop translated from /repo (K7); vm_compute correspondence with BasicDecoder on encoder output and foreign inputs; independent reference-decoder + exact-class oracle",
            "Proof (partial): C03_unpack_ref (generated unpacker = ref_dec_l on every input, every class table, every type of the grammar: str iterating characters, dict iterating keys, surplus tuple items and unknown keys ignored, recursive constant positions, NamedTuple positions with trailing defaults, TypedDict required/optional keys, unpacked tuples through the K7 plan, collection unpackers rebuilding the canonical concrete classes: list / dict / deque / OrderedDict / defaultdict / MappingProxyType / Counter / ChainMap, Literal constants matched by exact class), C03_strict_or_same and C03_unpack_ref_partial (= the documented reference ref_dec unless that one says 'too few items'), C03_well_typed(_ord) (results conform to the annotation), C03_str_fuel_sufficient (acyclic class table: no RecursionError), C03_model_plan_is_code, C03_tuple_indexes; the unguarded statement C03_unpack_ref_full is refuted (C03_unpack_ref_refuted, C03_unpack_short_input_refuted: known finding unpacked-tuple-short-input). Closed under the global context.",
            "Trusted: Coq kernel (+ coqchk in the thorough tier); TyModel.v (model of unpack.py decisions) tied by per-run vm_compute correspondence (incl. inputs with one nested sequence cut short and every prefix of unpacked-tuple inputs); tools/kernels/k7_tuple_indexes.py; stdlib constructors are oracle tables; sequence-like inputs other than list/tuple/str (bytes, dicts with integer keys, NamedTuple instances), unions, enum-member / bytes literals, namedtuple_as_dict (dialect / Config option; reference = lookup by field name, a missing key legal exactly for a defaulted field; every key removed / surplus key / nested list cut short) and generic NamedTuples/TypedDicts are decided by the implementation oracle only.",
            "4 C03"),
    "C05": ("Coq proof (outcome-set, first-bad-field, exact-extra-keys, no-silent-default theorems over all field lists, inputs and decoder behaviours) over a hand-written field-loop model; vm_compute correspondence; AST shape check of every generated from_dict; direct oracle with corruption stream",
            "Proof (partial): C05_outcomes_partial, C05_first_bad, C05_extra_exact_partial, C05_no_silent_default_partial, C05_union_outcomes, C05_discr_partial (17 theorems, closed under the global context) for classes with >=1 init field, unions without a None member, discriminators on mapping inputs with hashable tags; the leak sites are _refuted theorems and known findings. Input immutability is checked by the oracle, not proved.",
            "Trusted: Coq kernel + vm_compute; hand-written Errs.v tied by ~1.1k (quick) / 20k (thorough) correspondence cases per run plus the AST shape check of generated code; harness materialiser/encoders; Python semantics of dict.get, isinstance, bare except and except Exception modelled, not verified.",
            "4 C05"),
    "C11": ("Coq proof (equality of the generated union/Optional/Literal methods with the property's reference on stated domains, exact characterisation of the deviations) over a hand-written model parametric in member codecs; vm_compute correspondence; independent ref_union oracle",
            "Proof (partial): C11_union_decode_partial (under none_safe and no_shadow), C11_union_deviation_char (nothing else deviates), C11_no_cross_coercion, C11_union_raises_iff, C11_deterministic, C11_nested_union_partial, C11_opt, C11_union_encode_partial (under wire_disjoint), C11_literal theorems; refutation witnesses for the listed deviations (known findings, two pinned by upstream tests). Closed under the global context.",
            "Trusted: Coq kernel + vm_compute; hand-written UnionModel.v (parametric in member (un)packers and scalar coercions) tied by ~5.7k (quick) / 32k (thorough) correspondence cases per run; py_eq / kind_of models of Python == and exact type tests; harness conforms() and identity-packer classification.",
            "4 C11"),
    "C07": ("Coq proof over a model of the from_dict field blocks, argument assembly and dataclass __init__ binding (all layouts, key subsets, values, conversions); vm_compute correspondence on all 2^n key subsets; independent introspection oracle",
            "Proof (partial): C07_binding_partial / C07_binding / C07_missing / C07_null_wins / C07_positional_prefix / C07_noninit_unread / C07_factory_fresh hold for every layout where the builder's view of the class equals the dataclass truth; the full statement is refuted by two known findings (override inheriting a class default; annotated attribute of a non-dataclass base). Closed under the global context.",
            "Trusted: Coq kernel + vm_compute; hand-written Bind.v tied by 8-11k (quick) / 130k (thorough) correspondence cases per run; CPython __init__ binding and default/factory materialisation modelled, not verified; harness extraction of class facts.",
            "4 C07"),
    "C08": ("Coq proof by induction over field lists and instance trees of a branch-faithful model of the generated to_dict body; kernels K3 (option lookup) and K8 (flag forwarding, kwargs-vs-literal test) translated from source each run; vm_compute correspondence incl. the full 21168-point namespace lattice (thorough); independent projection oracle",
            "Proof (partial): C08_project_partial and C08_nested_partial: over the whole option lattice x keyword arguments x unbounded field lists and instance trees the generated mapping equals the projection of the plain output, nested classes receive exactly the flags enabled on both sides (K8_forward, C08_no_leak); K3_order re-proved against the source on every run. The full statements are refuted exactly at three corners (known findings D14, D8b, NaN default under omit_default). Closed under the global context.",
            "Trusted: Coq kernel + vm_compute (+ coqchk in thorough); py2gallina + the K8 plugin's abstractions; hand models OptProj/OptNested tied by ~1.9k quick / 39k thorough cases; harness shape classification and twin generator; model of Python ==.",
            "4 C08"),
    "C09": ("Coq proof (reference keymodel = model of the generated from_dict built on three kernels translated from builder.py: alias precedence, key lookup plan, allowed-key set); vm_compute correspondence on all subsets of candidate keys; independent keymodel oracle",
            "Proof: C09_keys_partial, K4_precedence, K4_key_plan, K4_allowed_keys, C09_alias_wins, C09_fallback, C09_accepted_covers_reads, C09_extra_exact, C09_ignored (17 theorems, closed) for every class configuration and input dict incl. shadowed/shared aliases and field-less classes; excluded: fields whose resolved alias is the empty string (refuted, known finding).",
            "Trusted: Coq kernel + vm_compute; py2gallina + the K4 plugin's statement-shape slicer; encoding of Alias/Annotated/metadata/Config.aliases as kernel values; hand-written sequencing in KeyImpl checked against the real from_dict on every run; harness materialiser.",
            "4 C09"),
    "C13": ("Coq proof (state-machine invariant of the per-class dialect caches over every hierarchy and history; kernels K2 Dialect.merge, K3 option lookup, K13 Dialect attribute inventory translated from source each run); vm_compute correspondence of cache transitions; twin-class and cross-format oracle",
            "Proof (partial): C13_isolation, C13_default_unaltered, C13_merge_total (all options bound by class Dialect, re-extracted each run: C13_merge_covers_all_options), C13_merge_strategies, C13_codec_option_uniform proved; 'dialect=D == twin class' proved off two refuted corners (known findings D14, D8b); C13_shared_cache_refuted documents why own-namespace cache creation matters. Cross-format document equality is by exhaustive option-vector sweep over six codecs, not by proof.",
            "Trusted: Coq kernel + vm_compute (+ coqchk in thorough); hand models DialectCache.step, merge_strategies, call_effective, union_forward compared with /repo every run; py2gallina and the K13 extractor; harness materialiser; format libraries as parsers.",
            "4 C13"),
    "C14": ("Coq proof over an executable state-machine model of method installation (stubs, compiled slots, dialect caches, on-demand nested compilation), thread model with arbitrary schedules of GIL-atomic steps; vm_compute correspondence of slot/cache transitions with real cls.__dict__; twin-family history and thread oracle",
            "Proof (partial): C14_call_state_independent / C14_history_partial (every answering call is independent of history and compilation mode), C14_first_call_terminates (measure 1+pending, after fix D5), C14_lazy_dialect_diverges (pre-fix model), C14_schedules_partial (safety + liveness for n threads, any schedule); the full history statement is refuted in the faithful model (4 known findings). Closed under the global context.",
            "Trusted: Coq kernel + vm_compute; c14fam.py renderer and stub detector; GIL-atomic step model (pre-emption inside exec only sampled by stress runs); MRO, codecs, discriminators and non-dialect flags covered only by the Python oracle.",
            "4 C14"),
    "C15": ("Coq proof over a two-path (mixin dynamic dispatch / codec static dispatch) interpreter model: agreement, compositionality, creation-history frame; vm_compute correspondence with both real paths; entry-point oracle incl. one-shot functions and interleaved codec/subclass creation",
            "Proof (partial): C15_agree_partial, C15_compositional_{list,dict,tuple,optional,field,wrapper}, C15_unpack_compositional_*, C15_frame_partial / C15_frame_history for all depths on exact-class values (closed); the four ways it fails off that domain are _refuted witnesses and known findings. No agreement theorem for decoding (tie + oracle only).",
            "Trusted: Coq kernel + vm_compute; c15lib.py materialiser, has-method prediction, exception reduction; CPython primitives modelled; codec holders abstracted.",
            "4 C15"),
    "C16": ("Coq proof by induction over all strings (repr/ascii/bytes-repr followed by the string-literal lexer returns the string) + finite splice-site table regenerated from source by an AST taint scan (K10, vm_compute) + vm_compute correspondence of the repr/lexer model with CPython + adversarial oracle on the implementation",
            "Proof: C16_repr_lex, C16_ascii_lex, C16_repr_bytes_lex for all strings; C16_sites / C16_site_literal: every data splice site of the generator as it is in /repo now is a repr/ascii site in an admissible context (34 rows), hence holds a literal denoting exactly s. Closed under the global context. Enum member names in Literal[...] and the empty alias are known findings.",
            "Trusted: Coq kernel + vm_compute; PyStrLit model of CPython repr and tokenizer (compared every run); k10_splices.py and its explicit origin rules; before_ok/after_ok look only at the static text around the value.",
            "4 C16"),
    "C19": ("Coq proof over a hook-trace model of the generated to_dict/from_dict (writer monad of Pre/Post events, mixin vs codec dispatch, union try-each, context forwarding); vm_compute correspondence against the real hook log; independent traversal oracle",
            "Proof (partial): C19_trace_partial (trace = pre/post-order traversal, union-free, both paths), C19_mixin_once (exactly once and in order with unions on the mixin path), C19_context, C19_de_trace_partial, C19_de_post_once (any schema, any input); the full statement is refuted by two known findings (codec union double pre hook; context lost for a later union member). Closed under the global context.",
            "Trusted: Coq kernel + vm_compute; hand-written Hooks.v control-flow model checked on ~1k (quick) / 19.5k (thorough) cases per run; c19lib.py materialiser; CPython attribute lookup, keyword and exception semantics modelled.",
            "4 C19"),
    "C04": ("Coq proof by induction over a small (value, type) model composed with assumed library laws (Section hypotheses fmt_law / leaf_law, never axioms); kernel K11 (per-format method names) translated from source each run; vm_compute correspondence against the implementation and the real format libraries; generated-schema oracle over 5 formats x 4 entry-point kinds",
            "Proof (partial): C04_roundtrip_partial and C04_doc_is_basic / C04_doc_exact for all five formats relative to the assumed laws of the format libraries and stdlib leaf codecs (validated on every generated document); the TOML round trip carries the premise that Optional fields default to None, the full statement is refuted with a witness reproducing on /repo (known finding); C04_method_names_injective over the code translated on every run. Closed under the global context.",
            "Trusted: Coq kernel + vm_compute (+ coqchk in thorough); fmt_law/leaf_law are hypotheses about third-party libraries (json, orjson, yaml, msgpack, tomli_w/tomllib) validated by sampling; harness materialiser; K11 translator extension; the codec wrapper and all types outside the small grammar are covered by the oracle only.",
            "4 C04"),
    "C10": ("Coq proof (general: first hit of a sorted complete enumeration is the unique minimum) over the resolution code translated from /repo on every run (kernel K5: iter_serialization_strategies, get_overridden_(de)serialization_method, the first registry handlers); kernel validation and tagged real classes/codecs by vm_compute; independent lexicographic-minimum oracle",
            "Proof: C10_precedence (for arbitrary registration tables and type keys the translated functions return exactly the unique minimum of the enabled (field option, field strategy, key, level) slots), C10_empty, C10_pass_through, C10_sym; 'exactly one level applies' is proved off Annotated aliases and refuted for them (two known findings). Closed under the global context.",
            "Trusted: Coq kernel + vm_compute (+ coqchk in thorough); py2gallina + the K5 plugin (generators, CPS loops) and its PyK_strat primitives (validated each run); hand-modelled NewType / use_annotations re-entry; harness materialiser.",
            "4 C10"),
    "C18": ("Coq proof of a label-sharing semantics of the generated packers/unpackers (every mutable container carries a label; by-reference keeps it, copies draw fresh ones) by induction over types/values; vm_compute correspondence of normalised result trees with id()-labelled real results; id-graph + snapshot oracle",
            "Proof: C18_share (old-labelled parts of a serialization result are exactly the input sub-values at Any/pass_through positions and at collection positions whose origin is in the effective no_copy_collections and whose element packer is the identity), C18_default_fresh, C18_decode_fresh, C18_decode_all_fresh, C18_no_mutation; partial w.r.t. the semantic reading of 'conversion-free' (Optional/Literal elements, C18_share_full_refuted) and refuted for unions under no_copy (3 known findings). Closed under the global context. Real mutation-freedom is checked by the oracle, not proved.",
            "Trusted: Coq kernel + vm_compute; Share.v as a model of CPython identity (comprehension/.copy()/display build a new object, a bare name evaluates to the same object) and of option lookup / dialect forwarding (effN); harness materialisation and id() labelling; unions, Literal, TypedDict, ChainMap, bytearray are oracle-only.",
            "4 C18"),
    "C06": ("Coq proof by induction (soundness of the schema model w.r.t. a Draft 2020-12 validator model) + kernel K6 (on_tuple bounds arithmetic) translated from source each run; four vm_compute correspondences (kernel, schema model vs build_json_schema, jvalid vs the jsonschema package, encoding/domain); direct validator oracle",
            "Proof (partial): C06_sound_partial (for every type, value, dialect prefix, all_refs mode and fuel of the modelled grammar: the serialized document validates against the generated schema) under ty_ok/env_ok which exclude exactly the seven known findings and fixed tuples with Unpack segments; for those tuples K6_spec / K6_min_le_max / K6_accepts_lengths over the kernel re-translated each run; C06_required_iff_no_default, C06_satisfiable, C06_tz_pattern; refutation witnesses per finding. Closed under the global context.",
            "Trusted: Coq kernel + vm_compute; the K6 plugin translator; harness emitters (keyword order canonicalised, default/description stripped, union member order from the real typing object); stdlib leaf rendering, tzname, regex semantics modelled; the jsonschema 4.26 Draft202012Validator as the standard validator.",
            "4 C06"),
    "C12": ("Coq proofs by induction over define/decode histories of a registry state machine; kernel K12 (iter_all_subclasses, variant enumeration) translated from source each run; vm_compute correspondence with real dynamically created class hierarchies; direct oracle",
            "Proof: C12_registry_invariant, C12_registry (a field-discriminated decode returns exactly the eligible class defined so far that carries the tag, SuitableVariantNotFound iff none, MissingDiscriminator iff the key is absent), C12_history_independent, C12_eligible_exact, C12_nofield, C12_code_variants (over the kernel re-translated each run), under uniqueness of the decoded tag and no self-dispatching carrier; known finding nofield-inherited-unpacker refuted in Coq. Closed under the global context.",
            "Trusted: Coq kernel + vm_compute (coqchk in thorough); the K12 translator; model of __subclasses__ order, dict semantics and dataclass acceptance (compared with /repo on every run); harness rendering of histories.",
            "4 C12"),
    "C20": ("Coq proof (state-passing model of schema building + generic invariant over build sequences; totality by rank, divergence for every fuel on cyclic tables) + kernel K9 (context defaults, ref prefix, reference/registration key) translated from source each run; vm_compute correspondence with build_json_schema; metaschema / refs / round-trip oracle",
            "Proof (partial): C20_refs_closed (every $ref of every output and definition names a key of the final definitions, over any sequence of builds on one context), C20_wf (metaschema-relevant well-formedness), C20_total on ranked (acyclic) class tables, C20_cyclic_diverges (known finding D10), C20_K9_prefix / C20_K9_ref_names_key over the kernel re-translated each run. The JSONSchema.from_dict/to_dict round trip and everything outside the model grammar are checked on the real code by the oracle only; 10 known findings. Closed under the global context.",
            "Trusted: Coq kernel + vm_compute; the K9 plugin with its structure-checked slices; the model grammar; the jsonschema package (check_schema); the generator's known-finding predicates.",
            "4 C20"),
    "C17": ("Coq proof of a definite-assignment + free-name analysis (soundness over a nondeterministic semantics: every branch, exception edge, loop count) with per-program translation validation: every generated program captured on this run is translated fail-closed from its Python ast and gets a kernel-checked check_closed = true; setdefault-namespace binding model; dis-based oracle on the real code objects",
            "Proof: C17_closed_sound (check_closed p = true implies no execution path of p, including error paths never exercised, raises NameError/UnboundLocalError), C17_shard_sound (instantiated for every captured program: ~4.8k per quick run, ~57k thorough), C17_attrs_closed_sound; identity binding C17_binding_partial under injective rendered names, refuted for same-named classes and clean_id collisions (known findings). Quantification over schemas is by sampling; per captured program it is a proof for all inputs and paths. Closed under the global context.",
            "Trusted: Coq kernel + vm_compute; Closed.v as a model of CPython name lookup (function frames LOAD_FAST, comprehension scopes, module-level LOAD_NAME, except-as unbinding); harness/c17_translate.py (fail-closed ast translator); the exec-rebinding capture (checked each run that no other exec/eval site exists); module/class attribute chains and type identity are checked by the oracle only.",
            "4 C17"),
}

ALL = [f"C{i:02d}" for i in range(1, 21)]


def main():
    # refreshed claims (final reports of the engineers) override the table above
    ov = os.path.join(VERIF, "tools", "claims.json")
    if os.path.exists(ov):
        for pid, c in json.load(open(ov)).items():
            CLAIMS[pid] = (c["technique"], c["text"], c["note"], f"Part I, I.4 ({pid}) and I.0 table")
    for pid in list(CLAIMS):
        t = CLAIMS[pid]
        CLAIMS[pid] = (t[0], t[1], t[2], f"Part I, I.4 ({pid}); Part II section {t[3]}" if not t[3].startswith("Part I") else t[3])
    checks = []
    for pid, (tech, text, note, ref) in sorted(CLAIMS.items()):
        checks.append({
            "property_id": pid,
            "quick_cmd": f"./check {pid} quick",
            "thorough_cmd": f"./check {pid} thorough",
            "evidence_file": f"/verif/evidence/{pid}.json",
            "replay_cmd_template": f"./check {pid} --replay {{path}}",
            "engine": "coq-proof+correspondence",
            "level_claimed": {"category": "proof", "text": text, "design_ref": ref},
            "level_note": note,
            "technique": tech,
        })
    na = [{"property_id": p, "reason": "check not built yet in this round (planned, see DESIGN.md section 4); not claimed until a theorem about it compiles"}
          for p in ALL if p not in CLAIMS]
    m = {
        "version": 1,
        "setup_cmd": "./setup.sh",
        "hooks": {
            "guard": "MASHUMARO_VERIF",
            "enable": "no instrumentation hooks are needed: generated code is captured by rebinding the module-global exec from the harness; checks export MASHUMARO_VERIF=1 for uniformity",
            "baseline_off_cmd": "cd /repo && /venv/bin/python -m pytest -q -p no:cacheprovider -n 8",
            "source_commits": [],
            "add_only": True,
        },
        "engines": [{"name": "coq-proof+correspondence", "path": "/verif/coq", "serves_properties": list(CLAIMS),
                     "kind_free_text": "Rocq/Coq 8.16.1 development: kernels translated from source on every run (tools/py2gallina.py) + hand-written generator model tied by vm_compute correspondence (harness/)"}],
        "checks": checks,
        "not_applicable": na,
        "notes": "Technique family: machine-checked proof in Rocq (Coq). See DESIGN.md. known_findings.json lists genuine defects (open and fixed).",
    }
    with open(os.path.join(VERIF, "MANIFEST.json"), "w") as f:
        json.dump(m, f, indent=1)
    print("MANIFEST.json written:", len(checks), "checks,", len(na), "not claimed")


if __name__ == "__main__":
    main()
