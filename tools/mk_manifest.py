#!/usr/bin/env python3
"""Writes /verif/MANIFEST.json from the table below (kept in one place so it stays valid)."""
import json
import os

VERIF = os.path.dirname(os.path.dirname(os.path.abspath(__file__)))

# id -> (technique, level text, level note, design ref)
CLAIMS = {
    "C01": ("Coq proof by nested induction on (value, type) over a hand-written model of the generated (un)packers, composed from C02/C03 theorems; timezone codec proved over the kernel translated from source (finite sweep lifted by forallb_forall); model/implementation correspondence by vm_compute; round-trip oracle on the implementation",
            "Theorems C01_roundtrip / C01_roundtrip_codec: for every class table, lossless type (any depth, recursive dataclasses, collections, Optional, leaves, enums, bytes, Any) and conforming value, decoding the generated packer's output returns the value with the same concrete classes; C01_timezone about parse_timezone as translated from /repo on every run. All closed under the global context.",
            "Trusted: Coq kernel + vm_compute; TyModel.v is hand-written and tied to /repo only by the per-run vm_compute correspondence (BasicEncoder/BasicDecoder on generated schemas, values and foreign inputs); stdlib render/parse pairs are oracle functions whose law is a hypothesis (atoms_ok); tools/py2gallina.py for K1; unions, NamedTuple/TypedDict/abstract collections and leaf-typed mapping keys are decided by the implementation oracle only.",
            "4 C01"),
    "C02": ("Coq proof by nested induction (pk (cp t) = ref_enc t on conforming values) over the hand-written generator model; vm_compute correspondence with BasicEncoder; independent reference-interpreter oracle incl. format dialects",
            "Theorems C02_pack_ref / C02_field_packer: the generated packer with all its optimisations (copy vs comprehension, elided None tests, identity packers) equals the README-level reference encoder for every conforming value of every type of the grammar, at any depth. Closed under the global context.",
            "Trusted: Coq kernel; TyModel.v (model of pack.py decisions) tied by per-run vm_compute correspondence; stdlib renderings are oracle tables; format dialects (orjson/msgpack/TOML native types, TOML null dropping), NamedTuple/TypedDict/ChainMap/Counter/unions/literals are decided by the independent Python reference interpreter only.",
            "4 C02"),
    "C03": ("Coq proof by nested induction (uk (cu t) = ref_dec t on EVERY input) over the hand-written generator model; vm_compute correspondence with BasicDecoder on encoder output and foreign inputs; independent reference-decoder + exact-class oracle",
            "Theorems C03_unpack_ref / C03_field_unpacker: for every input (arbitrary JSON-like data), class table and type of the grammar the generated unpacker returns exactly what the reference decoder returns and fails exactly when the reference is undefined (str iterating characters, dict iterating keys, surplus tuple items and unknown keys ignored, constant positions). Closed under the global context.",
            "Trusted: Coq kernel; TyModel.v (model of unpack.py decisions) tied by per-run vm_compute correspondence; stdlib constructors are oracle tables; conformance of results to the annotation (exact classes) and NamedTuple/TypedDict/abstract collections are decided by the implementation oracle only.",
            "4 C03"),
    "C05": ("Coq proof (outcome-set, first-bad-field, exact-extra-keys, no-silent-default theorems over all field lists, inputs and decoder behaviours) over a hand-written field-loop model; vm_compute correspondence; AST shape check of every generated from_dict; direct oracle with corruption stream",
            "Proof (partial): C05_outcomes_partial, C05_first_bad, C05_extra_exact_partial, C05_no_silent_default_partial, C05_union_outcomes, C05_discr_partial (17 theorems, closed under the global context) for classes with >=1 init field, unions without a None member, discriminators on mapping inputs with hashable tags; the leak sites are _refuted theorems and known findings. Input immutability is checked by the oracle, not proved.",
            "Trusted: Coq kernel + vm_compute; hand-written Errs.v tied by ~1.1k (quick) / 20k (thorough) correspondence cases per run plus the AST shape check of generated code; harness materialiser/encoders; Python semantics of dict.get, isinstance, bare except and except Exception modelled, not verified.",
            "4 C05"),
    "C11": ("Coq proof (equality of the generated union/Optional/Literal methods with the property's reference on stated domains, exact characterisation of the deviations) over a hand-written model parametric in member codecs; vm_compute correspondence; independent ref_union oracle",
            "Proof (partial): C11_union_decode_partial (under none_safe and no_shadow), C11_union_deviation_char (nothing else deviates), C11_no_cross_coercion, C11_union_raises_iff, C11_deterministic, C11_nested_union_partial, C11_opt, C11_union_encode_partial (under wire_disjoint), C11_literal theorems; refutation witnesses for the listed deviations (known findings, two pinned by upstream tests). Closed under the global context.",
            "Trusted: Coq kernel + vm_compute; hand-written UnionModel.v (parametric in member (un)packers and scalar coercions) tied by ~5.7k (quick) / 32k (thorough) correspondence cases per run; py_eq / kind_of models of Python == and exact type tests; harness conforms() and identity-packer classification.",
            "4 C11"),
}

ALL = [f"C{i:02d}" for i in range(1, 21)]


def main():
    checks = []
    for pid, (tech, text, note, ref) in CLAIMS.items():
        checks.append({
            "property_id": pid,
            "quick_cmd": f"./check {pid} quick",
            "thorough_cmd": f"./check {pid} thorough",
            "evidence_file": f"/verif/evidence/{pid}.json",
            "replay_cmd_template": f"./check {pid} --replay {{path}}",
            "engine": "coq-proof+correspondence",
            "level_claimed": {"category": "proof", "text": text, "design_ref": ref},
            "level_note": note,
            "technique": tech,
        })
    na = [{"property_id": p, "reason": "check not built yet in this round (planned, see DESIGN.md section 4); not claimed until a theorem about it compiles"}
          for p in ALL if p not in CLAIMS]
    m = {
        "version": 1,
        "setup_cmd": "./setup.sh",
        "hooks": {
            "guard": "MASHUMARO_VERIF",
            "enable": "no instrumentation hooks are needed: generated code is captured by rebinding the module-global exec from the harness; checks export MASHUMARO_VERIF=1 for uniformity",
            "baseline_off_cmd": "cd /repo && /venv/bin/python -m pytest -q -p no:cacheprovider -n 8",
            "source_commits": [],
            "add_only": True,
        },
        "engines": [{"name": "coq-proof+correspondence", "path": "/verif/coq", "serves_properties": list(CLAIMS),
                     "kind_free_text": "Rocq/Coq 8.16.1 development: kernels translated from source on every run (tools/py2gallina.py) + hand-written generator model tied by vm_compute correspondence (harness/)"}],
        "checks": checks,
        "not_applicable": na,
        "notes": "Technique family: machine-checked proof in Rocq (Coq). See DESIGN.md. known_findings.json lists genuine defects (open and fixed).",
    }
    with open(os.path.join(VERIF, "MANIFEST.json"), "w") as f:
        json.dump(m, f, indent=1)
    print("MANIFEST.json written:", len(checks), "checks,", len(na), "not claimed")


if __name__ == "__main__":
    main()
