#!/usr/bin/env python3
"""Fold the per-property parts known_findings.d/*.json into the single committed file known_findings.json
(the checks read both; the parts exist only so that engineers working in parallel never conflict).
usage: fold_findings.py [--remove-parts]"""
import json, os, sys

V = os.path.dirname(os.path.dirname(os.path.abspath(__file__)))


def main():
    main_file = os.path.join(V, "known_findings.json")
    kf = json.load(open(main_file))
    kf.setdefault("findings", [])
    kf.setdefault("fixed", [])
    have = {f.get("id") for f in kf["findings"]}
    fixed_lines = {json.dumps(x, sort_keys=True) for x in kf["fixed"]}
    d = os.path.join(V, "known_findings.d")
    n = 0
    if os.path.isdir(d):
        for fn in sorted(os.listdir(d)):
            if not fn.endswith(".json"):
                continue
            part = json.load(open(os.path.join(d, fn)))
            for f in part.get("findings", []):
                if f.get("id") in have:
                    # same id listed twice (shared finding): keep the first, merge the property lists
                    for g in kf["findings"]:
                        if g.get("id") == f.get("id"):
                            g["properties"] = sorted(set(g.get("properties", [])) | set(f.get("properties", [])))
                    continue
                kf["findings"].append(f)
                have.add(f.get("id"))
                n += 1
            for x in part.get("fixed", []):
                k = json.dumps(x, sort_keys=True)
                if k not in fixed_lines:
                    kf["fixed"].append(x)
                    fixed_lines.add(k)
            if "--remove-parts" in sys.argv:
                os.remove(os.path.join(d, fn))
        if "--remove-parts" in sys.argv and not os.listdir(d):
            os.rmdir(d)
    json.dump(kf, open(main_file, "w"), indent=1, ensure_ascii=False)
    print(f"folded {n} findings; total open {len(kf['findings'])}, fixed {len(kf['fixed'])}")


if __name__ == "__main__":
    main()
