#!/usr/bin/env python3
"""Apply a seeded change to a scratch copy of /repo and run checks against it.
usage: run_seeded.py <patch.diff> <Cxx> [<Cyy> ...] [--tier quick] [--seed N]
Prints one line per check: CAUGHT (exit 1 + VIOLATION line) / MISSED (exit 0)."""
import os, shutil, subprocess, sys, tempfile

V = os.path.dirname(os.path.dirname(os.path.abspath(__file__)))

def main():
    args = sys.argv[1:]
    tier, seed = "quick", "0"
    if "--tier" in args:
        i = args.index("--tier"); tier = args[i + 1]; del args[i:i + 2]
    if "--seed" in args:
        i = args.index("--seed"); seed = args[i + 1]; del args[i:i + 2]
    patch, checks = args[0], args[1:]
    scratch = tempfile.mkdtemp(prefix="seed_repo_", dir="/tmp")
    # evidence files describe runs on the unchanged tree only: keep them as they are
    saved = {}
    for c in checks:
        ep = os.path.join(V, "evidence", c + ".json")
        if os.path.exists(ep):
            saved[ep] = open(ep, "rb").read()
    try:
        subprocess.run(["cp", "-r", "/repo/mashumaro", scratch + "/mashumaro"], check=True)
        for f in ("pyproject.toml", "setup.py", "README.md"):
            if os.path.exists("/repo/" + f):
                shutil.copy("/repo/" + f, scratch + "/" + f)
        # patches come in several header styles (a/ b/, absolute paths of scratch copies, bare mashumaro/...):
        # normalise every file header to a/mashumaro/... b/mashumaro/... and apply with -p1 inside the scratch copy
        import re
        norm = []
        for line in open(patch, errors="replace").read().splitlines(True):
            m = re.match(r"^(---|\+\+\+) (\S*?)(mashumaro/\S+)(.*)$", line, re.S)
            if m and not line.startswith("--- a/") and not line.startswith("+++ b/"):
                line = f"{m.group(1)} {'a' if m.group(1) == '---' else 'b'}/{m.group(3)}{m.group(4)}"
                if not line.endswith("\n"):
                    line += "\n"
            norm.append(line)
        npatch = os.path.join(scratch, "_normalised.diff")
        open(npatch, "w").write("".join(norm))
        r = subprocess.run(["patch", "-p1", "-s", "-i", npatch], cwd=scratch, capture_output=True, text=True)
        if r.returncode != 0:
            print("PATCH-FAILED", patch, r.stdout[-300:], r.stderr[-300:])
            return 2
        env = dict(os.environ, VERIF_REPO=scratch, VERIF_SEED=seed)
        for c in checks:
            p = subprocess.run(["./check", c, tier], cwd=V, env=env, capture_output=True, text=True)
            viol = [l for l in p.stdout.splitlines() if l.startswith("VIOLATION")]
            last = p.stdout.strip().splitlines()[-1] if p.stdout.strip() else ""
            status = "CAUGHT" if p.returncode == 1 and viol else ("MISSED" if p.returncode == 0 else f"RC{p.returncode}")
            nf = sum("no-failing-input-found" in l for l in viol)
            print(f"{status} {c} {os.path.dirname(patch)} violations={len(viol)} (no-input={nf}) | {last[:150]}")
    finally:
        shutil.rmtree(scratch, ignore_errors=True)
        for ep, data in saved.items():
            open(ep, "wb").write(data)
        # bring generated kernels back in line with /repo
        subprocess.run(["/venv/bin/python", "tools/gen_kernels.py"], cwd=V, capture_output=True,
                       env=dict(os.environ, PYTHONPATH=f"/repo:{V}:{V}/.pydeps"))
    return 0

if __name__ == "__main__":
    sys.exit(main())
