#!/usr/bin/env python3
"""Confirm a change written by a blind sub-agent and file it under seeded/.
usage: confirm_seed.py <dir with patch.diff demo.py notes.md> <Cxx> <name>   (e.g. /tmp/m3out/c06/1 C06 sub3-c06-1)
Confirms, in a scratch git worktree of /repo's HEAD (removed afterwards):
  * demo.py exits 0 on the unchanged tree,
  * the patch applies, the package still imports, demo.py exits non-zero with it,
  * the upstream test suite passes with it (30503 passed).
Only then is seeded/<name>/ written (patch.diff, demo.py, notes.md, meta.json)."""
import json, os, shutil, subprocess, sys, tempfile, re

V = os.path.dirname(os.path.dirname(os.path.abspath(__file__)))
PY = "/venv/bin/python"

def sh(cmd, cwd=None, env=None, timeout=3600):
    p = subprocess.run(cmd, shell=True, cwd=cwd, env=env, capture_output=True, text=True, timeout=timeout)
    return p.returncode, (p.stdout + p.stderr)

def main():
    src, prop, name = sys.argv[1], sys.argv[2], sys.argv[3]
    jobs = os.environ.get("SUITE_JOBS", "6")
    wt = tempfile.mkdtemp(prefix="confirm_", dir="/tmp")
    os.rmdir(wt)
    rc, out = sh(f"git -C /repo worktree add -q --detach {wt} HEAD")
    if rc:
        print("WORKTREE-FAILED", out[-300:]); return 2
    head = sh("git -C /repo rev-parse --short HEAD")[1].strip()
    env = dict(os.environ, PYTHONPATH=wt, PYTHONHASHSEED="0")
    res = {"name": name}
    try:
        demo = os.path.join(src, "demo.py")
        rc0, o0 = sh(f"{PY} {demo}", cwd=src, env=env, timeout=600)
        res["demo_unchanged_exit"] = rc0
        rca, oa = sh(f"git apply --whitespace=nowarn {os.path.join(src, 'patch.diff')}", cwd=wt)
        if rca:
            rca, oa = sh(f"patch -p1 -s -i {os.path.join(src, 'patch.diff')}", cwd=wt)
        res["applies"] = (rca == 0)
        rci, oi = sh(f"{PY} -c 'import mashumaro, mashumaro.codecs, mashumaro.jsonschema, mashumaro.mixins.json; print(mashumaro.__file__)'", cwd="/", env=env)
        res["imports"] = (rci == 0 and wt in oi)
        rc1, o1 = sh(f"{PY} {demo}", cwd=src, env=env, timeout=600)
        res["demo_changed_exit"] = rc1
        res["demo_changed_tail"] = o1.strip().splitlines()[-1][:300] if o1.strip() else ""
        rcs, os_ = sh(f"{PY} -m pytest -q -p no:cacheprovider -n {jobs} 2>&1 | tail -1", cwd=wt, env=env, timeout=3000)
        res["suite_tail"] = os_.strip()[-200:]
        ok = (rc0 == 0 and res["applies"] and res["imports"] and rc1 != 0
              and re.search(r"\b30503 passed\b", res["suite_tail"]) and "failed" not in res["suite_tail"])
        res["confirmed"] = bool(ok)
    finally:
        sh(f"git -C /repo worktree remove --force {wt}")
        shutil.rmtree(wt, ignore_errors=True)
    if res.get("confirmed"):
        dst = os.path.join(V, "seeded", name)
        os.makedirs(dst, exist_ok=True)
        for f in ("patch.diff", "demo.py", "notes.md"):
            if os.path.exists(os.path.join(src, f)):
                shutil.copy(os.path.join(src, f), os.path.join(dst, f))
        notes = open(os.path.join(src, "notes.md"), errors="replace").read() if os.path.exists(os.path.join(src, "notes.md")) else ""
        needs = " ".join(notes.split())[:600]
        meta = {
            "property": prop,
            "origin": "fresh sub-agent (round 3) given only the property text and a scratch worktree of /repo outside /repo and /verif; nothing from /verif",
            "needs": needs,
            "confirmed": (f"by the lead with tools/confirm_seed.py in a scratch worktree of /repo {head} (removed afterwards): "
                          f"demo.py exit {res['demo_unchanged_exit']} on the unchanged tree, exit {res['demo_changed_exit']} with the patch "
                          f"({res['demo_changed_tail']}); package imports; upstream suite with the patch: {res['suite_tail']}"),
            "ran": f"tools/run_seeded.py seeded/{name}/patch.diff {prop} (scratch copy of /repo, VERIF_REPO, removed afterwards); result in seeded/MATRIX.md",
        }
        json.dump(meta, open(os.path.join(dst, "meta.json"), "w"), indent=1)
    print(json.dumps(res))
    return 0 if res.get("confirmed") else 1

if __name__ == "__main__":
    sys.exit(main())
