#!/usr/bin/env python3
"""usage: set_claim.py Cxx < json {"technique":..., "text":..., "note":...}  — updates tools/claims.json (read by mk_manifest.py)"""
import json, sys, os
V = os.path.dirname(os.path.dirname(os.path.abspath(__file__)))
p = os.path.join(V, "tools", "claims.json")
c = json.load(open(p))
new = json.load(sys.stdin)
c.setdefault(sys.argv[1], {}).update({k: v for k, v in new.items() if k in ("technique", "text", "note") and v})
json.dump(c, open(p, "w"), indent=1, ensure_ascii=False)
print("ok", sys.argv[1], list(c[sys.argv[1]]))
