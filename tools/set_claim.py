#!/usr/bin/env python3
"""usage: set_claim.py Cxx [--append] < json {"technique":..., "text":..., "note":...}
Updates tools/claims.json (read by mk_manifest.py). --append: append to the current value (claims.json, else MANIFEST.json)."""
import json, sys, os
V = os.path.dirname(os.path.dirname(os.path.abspath(__file__)))
p = os.path.join(V, "tools", "claims.json")
c = json.load(open(p))
pid = sys.argv[1]
app = "--append" in sys.argv
new = json.load(sys.stdin)
cur = c.setdefault(pid, {})
if app:
    chk = [x for x in json.load(open(os.path.join(V, "MANIFEST.json")))["checks"] if x["property_id"] == pid][0]
    base = {"technique": chk.get("technique", ""), "text": chk["level_claimed"]["text"], "note": chk["level_note"]}
    for k, v in new.items():
        if k in base and v:
            old = cur.get(k) or base[k]
            if v.strip() not in old:
                cur[k] = old.rstrip() + " " + v.strip()
else:
    cur.update({k: v for k, v in new.items() if k in ("technique", "text", "note") and v})
json.dump(c, open(p, "w"), indent=1, ensure_ascii=False)
print("ok", pid, {k: len(v) for k, v in cur.items()})
