#!/usr/bin/env python3
"""Regenerates the generated tables of DESIGN.md (between <!-- GEN:name --> … <!-- /GEN:name --> markers):
kernels, theorems per property, open findings, fixed defects.  usage: design_tables.py"""
import ast, glob, json, os, re, subprocess

V = os.path.dirname(os.path.dirname(os.path.abspath(__file__)))


def kernels():
    rows = []
    for p in sorted(glob.glob(os.path.join(V, "tools/kernels/k*.py")), key=lambda x: (len(os.path.basename(x).split("_")[0]), x)):
        src = open(p).read()
        m = re.search(r'^NAME\s*=\s*["\'](\w+)["\']', src, re.M)
        name = m.group(1) if m else os.path.basename(p).split("_")[0].upper()
        doc = ast.get_docstring(ast.parse(src)) or ""
        first = " ".join(doc.split("\n\n")[0].split())[:260]
        users = set()
        for f in glob.glob(os.path.join(V, "coq/props/*.v")) + glob.glob(os.path.join(V, "coq/theories/*.v")):
            t = open(f).read()
            if re.search(r"\b" + re.escape(name) + r"\b", t):
                mm = re.match(r"(C\d\d)_", os.path.basename(f))
                if mm:
                    users.add(mm.group(1))
        for f in glob.glob(os.path.join(V, "harness/props/c??*.py")):
            t = open(f).read()
            if re.search(r'["\']' + re.escape(name) + r'["\']', t):
                users.add("C" + os.path.basename(f)[1:3])
        rows.append(f"| {name} | `tools/kernels/{os.path.basename(p)}` | {first} | {' '.join(sorted(users))} |")
    # K1-K3 live in gen_kernels.py
    head = ["| kernel | plugin | what is translated from /repo on every run | used by |", "|---|---|---|---|",
            "| K1 | `tools/gen_kernels.py` | `core/helpers.py`: `UTC_OFFSET_PATTERN`, `parse_timezone` (regex → verified capture-regex matcher) | C01 C06 |",
            "| K2 | `tools/gen_kernels.py` | `dialect.py`: option loop of `Dialect.merge` | C13 C15 C04 |",
            "| K3 | `tools/gen_kernels.py` | `builder.py`: `get_dialect_or_config_option` | C08 C13 |"]
    return "\n".join(head + rows)


def theorems():
    out = ["| property | props files | theorems (all closed under the global context) | examples |", "|---|---|---|---|"]
    by = {}
    for f in sorted(glob.glob(os.path.join(V, "coq/props/*.v"))):
        m = re.match(r"(C\d\d)_", os.path.basename(f))
        if not m:
            continue
        t = open(f).read()
        th = re.findall(r"^(?:Theorem|Lemma|Corollary|Remark)\s+(\w+)", t, re.M)
        ex = re.findall(r"^Example\s+(\w+)", t, re.M)
        d = by.setdefault(m.group(1), {"files": [], "th": [], "ex": []})
        d["files"].append(os.path.basename(f)); d["th"] += th; d["ex"] += ex
    for k in sorted(by):
        d = by[k]
        out.append(f"| {k} | {', '.join('`' + x + '`' for x in d['files'])} | {len(d['th'])}: " + ", ".join(f"`{x}`" for x in d["th"]) + f" | {len(d['ex'])} |")
    return "\n".join(out)


def findings():
    kf = json.load(open(os.path.join(V, "known_findings.json")))
    fs = list(kf.get("findings", []))
    d = os.path.join(V, "known_findings.d")
    if os.path.isdir(d):
        for fn in sorted(os.listdir(d)):
            if fn.endswith(".json"):
                fs += json.load(open(os.path.join(d, fn))).get("findings", [])
    seen, out = set(), ["| finding | what fails (minimal input) |", "|---|---|"]
    for f in sorted(fs, key=lambda x: x.get("id", "")):
        if f.get("id") in seen:
            continue
        seen.add(f.get("id"))
        what = " ".join((f.get("what") or "").split())
        out.append(f"| `{f.get('id')}` | {what[:420].replace('|', '¦')} |")
    return f"{len(seen)} open findings.\n\n" + "\n".join(out)


def fixed():
    log = subprocess.run(["git", "-C", "/repo", "log", "--format=%h %s", "--reverse"], capture_output=True, text=True).stdout.splitlines()
    kf = json.load(open(os.path.join(V, "known_findings.json")))
    prop = {}
    for x in kf.get("fixed", []):
        m = re.match(r"fixed: property=(C\d\d) (\w+) ", x.get("line", ""))
        if m:
            prop.setdefault(m.group(2), []).append(m.group(1))
    out = ["| fix commit | property | subject |", "|---|---|---|"]
    n = 0
    for l in log:
        h, s = l.split(" ", 1)
        if s.startswith("fix:"):
            n += 1
            out.append(f"| {h} | {' '.join(sorted(set(prop.get(h, []))))} | {s[5:].replace('|', '¦')} |")
    return f"{n} `fix:` commits (each minimal and unguarded; the unedited upstream suite of 30503 tests passes after each one).\n\n" + "\n".join(out)


def main():
    p = os.path.join(V, "DESIGN.md")
    s = open(p).read()
    for name, fn in (("kernels", kernels), ("theorems", theorems), ("findings", findings), ("fixed", fixed)):
        a, b = f"<!-- GEN:{name} -->", f"<!-- /GEN:{name} -->"
        if a in s and b in s:
            i, j = s.index(a) + len(a), s.index(b)
            s = s[:i] + "\n" + fn() + "\n" + s[j:]
        else:
            print("marker missing:", name)
    open(p, "w").write(s)


if __name__ == "__main__":
    main()
