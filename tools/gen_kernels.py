#!/usr/bin/env python3
"""Regenerate coq/gen/K*.v from /repo (fail closed).  Returns a report dict:
{kernel: {"ok": bool, "error": str|None, "changed": bool, "file": path}}.
A kernel whose translation fails gets a stub file that defines nothing, so the
dependent proofs fail to compile (never silently pass)."""
from __future__ import annotations

import ast
import hashlib
import os
import sys

HERE = os.path.dirname(os.path.abspath(__file__))
sys.path.insert(0, HERE)
from py2gallina import (HEADER, Kernel, Unsupported, find_function, module_str_constant,  # noqa: E402
                        regex_to_coq, translate_kernel)

REPO = os.environ.get("VERIF_REPO", "/repo")
GEN = os.path.join(os.path.dirname(HERE), "coq", "gen")


def write_if_changed(path: str, text: str) -> bool:
    old = None
    if os.path.exists(path):
        old = open(path).read()
    if old == text:
        return False
    with open(path, "w") as f:
        f.write(text)
    return True


def gen_K1() -> str:
    src = os.path.join(REPO, "mashumaro/core/helpers.py")
    module = ast.parse(open(src).read())
    pat = module_str_constant(module, "UTC_OFFSET_PATTERN")
    # UTC_OFFSET_RE must be re.compile(UTC_OFFSET_PATTERN) with no flags
    ok = False
    for n in module.body:
        if isinstance(n, ast.Assign) and ast.unparse(n.targets[0]) == "UTC_OFFSET_RE":
            if ast.unparse(n.value) == "re.compile(UTC_OFFSET_PATTERN)":
                ok = True
    if not ok:
        raise Unsupported("UTC_OFFSET_RE is not re.compile(UTC_OFFSET_PATTERN)")
    k = Kernel(func="parse_timezone", coq_name="parse_timezone", params=["v_s"],
               regex_globals={"UTC_OFFSET_RE": "UTC_OFFSET_RE"})
    body = translate_kernel(src, k, module)
    text = HEADER.format(src="mashumaro/core/helpers.py")
    text += f"Definition UTC_OFFSET_RE : re :=\n  {regex_to_coq(pat)}.\n\n"
    text += body
    return text


def gen_K2() -> str:
    """Dialect.merge: the option-copy loop (the strategy-map loops are modelled by hand
    in DialectModel.v and tied by correspondence)."""
    src = os.path.join(REPO, "mashumaro/dialect.py")
    module = ast.parse(open(src).read())
    fn = find_function(module, "Dialect.merge")
    # slice: statements from `new_dialect = cast(...)` on, minus the strategy assignment
    stmts = []
    seen_new = False
    for s in fn.body:
        txt = ast.unparse(s)
        if txt.startswith("new_dialect = "):
            seen_new = True
            continue
        if not seen_new:
            # strategy loops: must only touch `serialization_strategy`
            for node in ast.walk(s):
                if isinstance(node, (ast.Attribute,)) and node.attr in (
                        "omit_none", "omit_default", "no_copy_collections", "serialize_by_alias", "namedtuple_as_dict"):
                    raise Unsupported("strategy part touches option attributes")
            continue
        if txt.startswith("new_dialect.serialization_strategy = "):
            continue
        stmts.append(s)
    if not seen_new:
        raise Unsupported("merge: new_dialect creation not found")
    newfn = ast.FunctionDef(name="merge_options", args=fn.args, body=stmts, decorator_list=[], lineno=1)
    ast.fix_missing_locations(newfn)
    mod2 = ast.Module(body=[newfn], type_ignores=[])
    k = Kernel(func="merge_options", coq_name="merge_options", params=["v_cls", "v_other", "v_new_dialect"])
    text = HEADER.format(src="mashumaro/dialect.py (Dialect.merge, option part)")
    text += translate_kernel(src, k, mod2)
    return text


def gen_K3() -> str:
    src = os.path.join(REPO, "mashumaro/core/meta/code/builder.py")
    k = Kernel(func="CodeBuilder.get_dialect_or_config_option", coq_name="get_dialect_or_config_option",
               params=["a_dialect", "a_cfg_dialect", "a_cfg", "a_default_dialect", "v_option", "v_default"],
               abstr={"self.dialect": "a_dialect",
                      "self.get_config(cls).dialect": "a_cfg_dialect",
                      "self.get_config(cls)": "a_cfg",
                      "self.default_dialect": "a_default_dialect"})
    text = HEADER.format(src="mashumaro/core/meta/code/builder.py (get_dialect_or_config_option)")
    text += translate_kernel(src, k)
    return text


KERNELS = {"K1": gen_K1, "K2": gen_K2, "K3": gen_K3}

# plugins: tools/kernels/<name>.py defining NAME (e.g. "K4") and gen() -> Coq text.
# A plugin may subclass py2gallina.FnTranslator to support more syntax (fail closed!).
_PLUG = os.path.join(HERE, "kernels")
if os.path.isdir(_PLUG):
    import importlib.util
    for _f in sorted(os.listdir(_PLUG)):
        if _f.endswith(".py") and not _f.startswith("_"):
            _spec = importlib.util.spec_from_file_location("vk_" + _f[:-3], os.path.join(_PLUG, _f))
            _m = importlib.util.module_from_spec(_spec)
            try:
                _spec.loader.exec_module(_m)
                KERNELS[_m.NAME] = _m.gen
            except Exception as _e:  # a broken plugin fails closed: its kernel becomes a stub
                _nm = getattr(_m, "NAME", _f[:-3])
                KERNELS[_nm] = (lambda err: (lambda: (_ for _ in ()).throw(Unsupported(err))))(f"plugin {_f}: {type(_e).__name__}: {_e}")


def stub(name: str, err: str) -> str:
    return ("(* GENERATED stub: translation of kernel %s failed closed.\n   %s *)\n"
            "Definition translation_failed_%s := tt.\n" % (name, err.replace("*)", "* )"), name))


def main(only=None) -> dict:
    os.makedirs(GEN, exist_ok=True)
    report = {}
    for name, fn in KERNELS.items():
        if only and name not in only:
            continue
        path = os.path.join(GEN, f"{name}.v")
        try:
            text = fn()
            err = None
        except Exception as e:  # fail closed (Unsupported, SyntaxError, OSError, ...)
            text = stub(name, f"{type(e).__name__}: {e}")
            err = f"{type(e).__name__}: {e}"
        changed = write_if_changed(path, text)
        report[name] = {"ok": err is None, "error": err, "changed": changed, "file": path,
                        "sha256": hashlib.sha256(text.encode()).hexdigest()[:16]}
    return report


if __name__ == "__main__":
    import json
    print(json.dumps(main(set(sys.argv[1:]) or None), indent=1))
