#!/usr/bin/env python3
"""Fail-closed translator from a small first-order subset of Python (ast) to
Gallina over the kernel universe of coq/theories/PyK.v.

Any syntax outside the subset raises Unsupported: the dependent .v file is then
not (re)generated and the proof obligation that needs it is reported broken.

Subset
  statements : Assign (single Name / tuple-free), AugAssign(+=) on ints, If/elif/else,
               Return, Raise (-> Raise <exn class>), Expr(setattr(...)),
               For over a *literal* tuple/list (unrolled at translation time),
               attribute assignment `obj.attr = e` (functional namespace update)
  expressions: constants, names, attribute paths listed in the kernel's abstraction
               map, unary -, not, comparisons (is, is not, ==, !=, >=), and/or with
               Python value semantics, conditional expressions, walrus,
               constant subscripts, whitelisted calls (int, getattr, setattr,
               RE.match, m.group, datetime.timedelta(hours=,minutes=),
               datetime.timezone, datetime.timezone.utc, dict.get)
"""
from __future__ import annotations

import ast
import re as _re
import sys
from dataclasses import dataclass, field

try:  # Python >= 3.11
    import re._parser as sre_parse  # type: ignore
    import re._constants as sre_c  # type: ignore
except ImportError:  # pragma: no cover
    import sre_parse  # type: ignore
    import sre_constants as sre_c  # type: ignore


class Unsupported(Exception):
    pass


def coq_string(s: str) -> str:
    for ch in s:
        o = ord(ch)
        if o < 32 or o > 126:
            raise Unsupported(f"non printable character in string constant {s!r}")
    return '"' + s.replace('"', '""') + '"'


def coq_z(n: int) -> str:
    return f"({n})" if n < 0 else str(n)


# ----------------------------------------------------------------------------
# regex front-end: Python pattern -> Regex.re term
# ----------------------------------------------------------------------------

def regex_to_coq(pattern: str) -> str:
    parsed = sre_parse.parse(pattern)

    def ch(code: int) -> str:
        if code < 32 or code > 126:
            raise Unsupported(f"regex literal code {code}")
        c = chr(code)
        return '"' + ('""' if c == '"' else c) + '"%char'

    def seq(items) -> str:
        parts = [one(op, av) for op, av in items]
        if len(parts) == 1:
            return parts[0]
        return "(RSeq [" + "; ".join(parts) + "])"

    def one(op, av) -> str:
        name = str(op)
        if name == "LITERAL":
            return f"(RChr {ch(av)})"
        if name == "IN":
            rs = []
            for iop, iav in av:
                iname = str(iop)
                if iname == "LITERAL":
                    rs.append(f"({ch(iav)}, {ch(iav)})")
                elif iname == "RANGE":
                    rs.append(f"({ch(iav[0])}, {ch(iav[1])})")
                else:
                    raise Unsupported(f"regex class item {iname}")
            return "(RSet [" + "; ".join(rs) + "])"
        if name == "SUBPATTERN":
            group, add_flags, del_flags, sub = av
            if add_flags or del_flags or group is None:
                raise Unsupported("regex group flags / non-capturing group")
            return f"(RGrp {group} {seq(sub)})"
        if name == "MAX_REPEAT":
            lo, hi, sub = av
            if (lo, hi) != (0, 1):
                raise Unsupported(f"regex repeat {{{lo},{hi}}}")
            return f"(ROpt {seq(sub)})"
        if name == "AT":
            an = str(av)
            if an == "AT_BEGINNING":
                return "RBeg"
            if an == "AT_END":
                return "REnd"
            raise Unsupported(f"regex anchor {an}")
        raise Unsupported(f"regex op {name}")

    if parsed.state.flags & ~sre_c.SRE_FLAG_UNICODE:
        raise Unsupported("regex flags")
    return seq(list(parsed))


# ----------------------------------------------------------------------------
# function translation
# ----------------------------------------------------------------------------

EXN = {"ValueError", "TypeError", "KeyError", "IndexError", "AttributeError"}


@dataclass
class Kernel:
    """What to translate and how free expressions are abstracted."""
    func: str                       # function name in the module (or Class.method)
    coq_name: str                   # Gallina name
    params: list[str]               # Gallina parameter names, in order
    abstr: dict[str, str] = field(default_factory=dict)   # ast.unparse(expr) -> Gallina term
    regex_globals: dict[str, str] = field(default_factory=dict)  # python global -> Gallina constant


class FnTranslator:
    def __init__(self, kernel: Kernel, module: ast.Module):
        self.k = kernel
        self.module = module
        self.n = 0
        self.locals: set[str] = set()

    def fresh(self) -> str:
        self.n += 1
        return f"t{self.n}"

    # -- expressions: return (prelude, atom) where prelude is a list of
    #    (name, monadic-code) to bind before atom (a pure kv term) is valid
    def expr(self, e: ast.expr):
        key = ast.unparse(e)
        if key in self.k.abstr:
            return [], self.k.abstr[key]
        if isinstance(e, ast.Constant):
            v = e.value
            if v is None:
                return [], "KNone"
            if v is True or v is False:
                return [], f"(KBool {'true' if v else 'false'})"
            if isinstance(v, int):
                return [], f"(KInt {coq_z(v)})"
            if isinstance(v, str):
                return [], f"(KStr {coq_string(v)})"
            raise Unsupported(f"constant {v!r}")
        if isinstance(e, ast.Name):
            if e.id in self.locals:
                return [], f"v_{e.id}"
            raise Unsupported(f"free name {e.id}")
        if isinstance(e, ast.Attribute):
            if key in ("Sentinel.MISSING", "MISSING"):
                return [], "KMissing"
            if key == "datetime.timezone.utc":
                return [], "k_tz_utc"
            raise Unsupported(f"attribute {key}")
        if isinstance(e, ast.NamedExpr):
            pre, a = self.expr(e.value)
            nm = e.target.id
            self.locals.add(nm)
            return pre + [(f"v_{nm}", f"Ok {a}")], f"v_{nm}"
        if isinstance(e, ast.UnaryOp):
            pre, a = self.expr(e.operand)
            if isinstance(e.op, ast.Not):
                return pre, f"(KBool (negb (k_truthy {a})))"
            if isinstance(e.op, ast.USub):
                t = self.fresh()
                return pre + [(t, f"k_neg {a}")], t
            raise Unsupported("unary op")
        if isinstance(e, ast.Compare):
            if len(e.ops) != 1:
                raise Unsupported("chained comparison")
            pl, a = self.expr(e.left)
            pr, b = self.expr(e.comparators[0])
            op = e.ops[0]
            if isinstance(op, ast.Is):
                return pl + pr, f"(KBool (k_is {a} {b}))"
            if isinstance(op, ast.IsNot):
                return pl + pr, f"(KBool (negb (k_is {a} {b})))"
            if isinstance(op, ast.Eq):
                return pl + pr, f"(KBool (k_eq {a} {b}))"
            if isinstance(op, ast.NotEq):
                return pl + pr, f"(KBool (negb (k_eq {a} {b})))"
            if isinstance(op, ast.GtE):
                t = self.fresh()
                return pl + pr + [(t, f"(b <- k_ge {a} {b} ;; Ok (KBool b))")], t
            raise Unsupported("comparison operator")
        if isinstance(e, ast.IfExp):
            pc, c = self.expr(e.test)
            t = self.fresh()
            code = f"(if k_truthy {c} then {self.mexpr(e.body)} else {self.mexpr(e.orelse)})"
            return pc + [(t, code)], t
        if isinstance(e, ast.BoolOp):
            # value semantics; later operands are evaluated lazily
            vals = e.values
            pre, a = self.expr(vals[0])
            for nxt in vals[1:]:
                t = self.fresh()
                rhs = self.mexpr(nxt)
                if isinstance(e.op, ast.Or):
                    code = f"(if k_truthy {a} then Ok {a} else {rhs})"
                else:
                    code = f"(if k_truthy {a} then {rhs} else Ok {a})"
                pre = pre + [(t, code)]
                a = t
            return pre, a
        if isinstance(e, ast.Subscript):
            if isinstance(e.slice, ast.Constant) and isinstance(e.slice.value, int):
                pre, a = self.expr(e.value)
                t = self.fresh()
                return pre + [(t, f"k_index {a} {coq_z(e.slice.value)}")], t
            raise Unsupported("subscript")
        if isinstance(e, ast.Call):
            return self.call(e)
        raise Unsupported(f"expression {type(e).__name__}: {key}")

    def call(self, e: ast.Call):
        f = ast.unparse(e.func)
        args = e.args
        kws = {k.arg: k.value for k in e.keywords}
        if f == "int" and len(args) == 1 and not kws:
            pre, a = self.expr(args[0])
            t = self.fresh()
            return pre + [(t, f"k_int {a}")], t
        if f == "getattr" and len(args) == 3:
            p1, a = self.expr(args[0]); p2, b = self.expr(args[1]); p3, c = self.expr(args[2])
            return p1 + p2 + p3, f"(k_getattr3 {a} {b} {c})"
        if f == "getattr" and len(args) == 2:
            p1, a = self.expr(args[0]); p2, b = self.expr(args[1])
            t = self.fresh()
            return p1 + p2 + [(t, f"k_getattr2 {a} {b}")], t
        if f.endswith(".match") and f[: -len(".match")] in self.k.regex_globals and len(args) == 1:
            pre, a = self.expr(args[0])
            t = self.fresh()
            return pre + [(t, f"k_re_match {self.k.regex_globals[f[:-6]]} {a}")], t
        if f.endswith(".group") and len(args) == 1 and isinstance(args[0], ast.Constant):
            pre, a = self.expr(e.func.value)
            t = self.fresh()
            return pre + [(t, f"k_group {a} {coq_z(args[0].value)}")], t
        if f.endswith(".get") and len(args) in (1, 2) and not kws:
            pre, a = self.expr(e.func.value)
            pk, kk = self.expr(args[0])
            t = self.fresh()
            if len(args) == 1:
                return pre + pk + [(t, f"k_dict_get {a} {kk}")], t
            pd, dd = self.expr(args[1])
            return pre + pk + pd + [(t, f"k_dict_get3 {a} {kk} {dd}")], t
        if f == "datetime.timedelta" and not args and set(kws) == {"hours", "minutes"}:
            p1, h = self.expr(kws["hours"]); p2, m = self.expr(kws["minutes"])
            t = self.fresh()
            return p1 + p2 + [(t, f"k_timedelta_hm {h} {m}")], t
        if f == "datetime.timezone" and len(args) == 1 and not kws:
            pre, a = self.expr(args[0])
            t = self.fresh()
            return pre + [(t, f"k_timezone {a}")], t
        raise Unsupported(f"call {ast.unparse(e)}")

    def wrap(self, pre, body: str) -> str:
        for name, code in reversed(pre):
            body = f"({name} <- {code} ;; {body})"
        return body

    def mexpr(self, e: ast.expr) -> str:
        pre, a = self.expr(e)
        return self.wrap(pre, f"Ok {a}")

    # -- statements with an explicit continuation (text of the remaining program)
    def always_exits(self, stmts) -> bool:
        if not stmts:
            return False
        last = stmts[-1]
        if isinstance(last, (ast.Return, ast.Raise)):
            return True
        if isinstance(last, ast.If):
            return self.always_exits(last.body) and self.always_exits(last.orelse)
        return False

    def assigned(self, stmts) -> list[str]:
        out: list[str] = []

        def add(n):
            if n not in out:
                out.append(n)

        for s in stmts:
            for node in ast.walk(s):
                if isinstance(node, ast.Assign):
                    for t in node.targets:
                        if isinstance(t, ast.Name):
                            add(t.id)
                        elif isinstance(t, ast.Attribute) and isinstance(t.value, ast.Name):
                            add(t.value.id)
                elif isinstance(node, ast.AugAssign) and isinstance(node.target, ast.Name):
                    add(node.target.id)
                elif isinstance(node, ast.NamedExpr):
                    add(node.target.id)
                elif isinstance(node, ast.Call) and ast.unparse(node.func) == "setattr" and isinstance(node.args[0], ast.Name):
                    add(node.args[0].id)
        return out

    def unroll(self, stmts):
        out = []
        for s in stmts:
            if isinstance(s, ast.For):
                if s.orelse:
                    raise Unsupported("for-else")
                if not isinstance(s.iter, (ast.Tuple, ast.List)):
                    raise Unsupported(f"for over non literal sequence: {ast.unparse(s.iter)}")
                for node in ast.walk(s):
                    if isinstance(node, (ast.Break, ast.Continue)):
                        raise Unsupported("break/continue")
                for elt in s.iter.elts:
                    out.append(ast.Assign(targets=[s.target], value=elt, lineno=s.lineno))
                    out.extend(self.unroll(s.body))
            elif isinstance(s, ast.If):
                out.append(ast.If(test=s.test, body=self.unroll(s.body), orelse=self.unroll(s.orelse)))
            else:
                out.append(s)
        return out

    def block(self, stmts, k: str | None) -> str:
        """k = code run when the block falls through (None: function end -> Ok KNone)."""
        if not stmts:
            return k if k is not None else "Ok KNone"
        s, rest = stmts[0], stmts[1:]
        if isinstance(s, ast.Return):
            if s.value is None:
                return "Ok KNone"
            return self.mexpr(s.value)
        if isinstance(s, ast.Raise):
            exc = s.exc
            name = None
            if isinstance(exc, ast.Call):
                name = ast.unparse(exc.func)
            elif isinstance(exc, ast.Name):
                name = exc.id
            if name not in EXN:
                raise Unsupported(f"raise {name}")
            return f"Raise {name}"
        if isinstance(s, ast.Expr):
            if isinstance(s.value, ast.Constant) and isinstance(s.value.value, str):
                return self.block(rest, k)  # docstring
            if isinstance(s.value, ast.Call) and ast.unparse(s.value.func) == "setattr":
                a0, a1, a2 = s.value.args
                if not isinstance(a0, ast.Name):
                    raise Unsupported("setattr on non-name")
                p1, o = self.expr(a0); p2, n = self.expr(a1); p3, v = self.expr(a2)
                self.locals.add(a0.id)
                return self.wrap(p1 + p2 + p3 + [(f"v_{a0.id}", f"k_setattr {o} {n} {v}")], self.block(rest, k))
            raise Unsupported(f"expression statement {ast.unparse(s)}")
        if isinstance(s, ast.Assign):
            if len(s.targets) != 1:
                raise Unsupported("multiple assignment targets")
            t = s.targets[0]
            if isinstance(t, ast.Name):
                pre, a = self.expr(s.value)
                self.locals.add(t.id)
                return self.wrap(pre, f"(let v_{t.id} := {a} in {self.block(rest, k)})")
            if isinstance(t, ast.Attribute) and isinstance(t.value, ast.Name):
                p1, o = self.expr(t.value)
                p3, v = self.expr(s.value)
                nm = t.value.id
                return self.wrap(p1 + p3 + [(f"v_{nm}", f"k_setattr {o} (KStr {coq_string(t.attr)}) {v}")], self.block(rest, k))
            raise Unsupported(f"assignment target {ast.unparse(t)}")
        if isinstance(s, ast.If):
            pc, c = self.expr(s.test)
            body_exits = self.always_exits(s.body)
            else_exits = self.always_exits(s.orelse)
            if body_exits and else_exits:
                saved = set(self.locals)
                b = self.block(s.body, None)
                self.locals = set(saved)
                o = self.block(s.orelse, None)
                self.locals = saved
                return self.wrap(pc, f"(if k_truthy {c} then {b} else {o})")
            if body_exits:
                saved = set(self.locals)
                b = self.block(s.body, None)
                self.locals = set(saved)
                o = self.block(list(s.orelse) + list(rest), k)
                return self.wrap(pc, f"(if k_truthy {c} then {b} else {o})")
            if else_exits:
                saved = set(self.locals)
                o = self.block(s.orelse, None)
                self.locals = set(saved)
                b = self.block(list(s.body) + list(rest), k)
                return self.wrap(pc, f"(if k_truthy {c} then {b} else {o})")
            # neither exits: both branches fall through with the variables they assign
            for node in s.body + s.orelse:
                for sub in ast.walk(node):
                    if isinstance(sub, (ast.Return, ast.Raise)):
                        raise Unsupported("conditional early exit inside a joining branch")
            ws = self.assigned(s.body + s.orelse)
            for w in ws:
                if w not in self.locals:
                    raise Unsupported(f"variable {w} defined only inside a branch")
            tup = "(" + ", ".join(f"v_{w}" for w in ws) + ")" if len(ws) != 1 else f"v_{ws[0]}"
            if not ws:
                tup = "tt"
            saved = set(self.locals)
            b = self.block(s.body, f"Ok {tup}")
            self.locals = set(saved)
            o = self.block(s.orelse, f"Ok {tup}")
            self.locals = saved
            pat = "'" + tup if len(ws) > 1 else tup
            if not ws:
                pat = "_"
            j = self.fresh()
            restc = self.block(rest, k)
            if len(ws) > 1:
                body = f"({j} <- (if k_truthy {c} then {b} else {o}) ;; (let {pat} := {j} in {restc}))"
            elif len(ws) == 1:
                body = f"({tup} <- (if k_truthy {c} then {b} else {o}) ;; {restc})"
            else:
                body = f"(_ <- (if k_truthy {c} then {b} else {o}) ;; {restc})"
            return self.wrap(pc, body)
        raise Unsupported(f"statement {type(s).__name__}")

    def translate(self, fn: ast.FunctionDef) -> str:
        stmts = self.unroll(fn.body)
        body = self.block(stmts, None)
        ps = " ".join(f"({p}: kv)" for p in self.k.params)
        return f"Definition {self.k.coq_name} {ps} : res kv :=\n  {body}.\n"


def find_function(module: ast.Module, path: str) -> ast.FunctionDef:
    parts = path.split(".")
    scope = module.body
    node = None
    for p in parts:
        found = None
        for n in scope:
            if isinstance(n, (ast.FunctionDef, ast.ClassDef)) and n.name == p:
                found = n
                break
        if found is None:
            raise Unsupported(f"{path}: {p} not found")
        node = found
        scope = found.body
    if not isinstance(node, ast.FunctionDef):
        raise Unsupported(f"{path} is not a function")
    return node


def module_str_constant(module: ast.Module, name: str) -> str:
    for n in module.body:
        if isinstance(n, ast.Assign) and len(n.targets) == 1 and isinstance(n.targets[0], ast.Name) and n.targets[0].id == name:
            if isinstance(n.value, ast.Constant) and isinstance(n.value.value, str):
                return n.value.value
            raise Unsupported(f"{name} is not a string literal")
    raise Unsupported(f"constant {name} not found")


HEADER = """(* GENERATED by tools/py2gallina.py from {src} -- do not edit.
   Regenerated from /repo on every check run. *)
From Coq Require Import List String Ascii ZArith Bool.
From Verif Require Import Regex PyK.
Import ListNotations.
Open Scope string_scope.
Open Scope Z_scope.

"""


def translate_kernel(src_path: str, kernel: Kernel, module: ast.Module | None = None, translator=None) -> str:
    """translator: optional subclass of FnTranslator (plugins extend the subset that way)."""
    if module is None:
        module = ast.parse(open(src_path).read())
    fn = find_function(module, kernel.func)
    tr = (translator or FnTranslator)(kernel, module)
    for a in fn.args.args:
        # python parameters that are *not* abstracted become Gallina parameters v_<name>
        pass
    for p in kernel.params:
        if p.startswith("v_"):
            tr.locals.add(p[2:])
    return tr.translate(fn)


if __name__ == "__main__":  # small manual driver: py2gallina.py file func
    src, func = sys.argv[1], sys.argv[2]
    k = Kernel(func=func, coq_name=func.split(".")[-1], params=[f"v_{a}" for a in sys.argv[3:]])
    print(translate_kernel(src, k))
