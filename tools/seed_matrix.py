#!/usr/bin/env python3
"""Run every seeded change against the check of its property (quick tier, seed 0) and write
seeded/MATRIX.md.  usage: seed_matrix.py [--only REGEX] [--out FILE] [--extra Cxx,Cyy]"""
import json, os, re, subprocess, sys

V = os.path.dirname(os.path.dirname(os.path.abspath(__file__)))


def prop_of(name: str) -> str | None:
    m = re.match(r"^(C\d\d)-", name) or re.match(r"^sub2?-c(\d\d)-", name)
    if m:
        g = m.group(1)
        return g if g.startswith("C") else "C" + g
    mp = os.path.join(V, "seeded", name, "meta.json")
    if os.path.exists(mp):
        try:
            return json.load(open(mp)).get("property")
        except Exception:
            return None
    return None


def main():
    args = sys.argv[1:]
    only = None
    out = os.path.join(V, "seeded", "MATRIX.md")
    if "--only" in args:
        i = args.index("--only"); only = re.compile(args[i + 1]); del args[i:i + 2]
    props = None
    if "--props" in args:
        i = args.index("--props"); props = set(args[i + 1].split(",")); del args[i:i + 2]
    if "--out" in args:
        i = args.index("--out"); out = args[i + 1]; del args[i:i + 2]
    rows = []
    for name in sorted(os.listdir(os.path.join(V, "seeded"))):
        d = os.path.join(V, "seeded", name)
        patch = os.path.join(d, "patch.diff")
        if not os.path.isdir(d) or not os.path.exists(patch):
            continue
        if only and not only.search(name):
            continue
        if "fix" in name and not name.startswith("revert"):
            continue                      # proposed repairs, not breaking changes
        p = prop_of(name)
        if not p:
            continue
        if props is not None and p not in props:
            continue
        meta = {}
        mp = os.path.join(d, "meta.json")
        if os.path.exists(mp):
            try:
                meta = json.load(open(mp))
            except Exception:
                meta = {}
        for chk in [p] + [c for c in meta.get("also", []) if c != p]:
            r = subprocess.run([sys.executable, os.path.join(V, "tools", "run_seeded.py"), patch, chk], capture_output=True, text=True, cwd=V)
            line = (r.stdout.strip().splitlines() or ["?"])[-1]
            status = line.split()[0] if line else "?"
            m = re.search(r"violations=(\d+) \(no-input=(\d+)\)", line)
            detail = f"{m.group(1)} violation line(s), {m.group(2)} without failing input" if m else line[:80]
            if status.startswith("PATCH-FAILED") and meta.get("superseded_by"):
                status = "SUPERSEDED"
                detail = "no longer applies to the current tree; regenerated as " + meta["superseded_by"]
            harmless = (meta.get("expect") == "not-flagged" or "equivalent_mutant" in meta
                        or str(meta.get("what", "")).lower().startswith("harmless") or str(meta.get("caught")) == "False" and "equivalent" in json.dumps(meta).lower())
            if harmless and chk == p:
                meta.setdefault("expect_why", str(meta.get("equivalent_mutant") or meta.get("what") or "")[:200])
                status = "NOT-FLAGGED(expected)" if status == "MISSED" else "FLAGGED(unexpected)"
                detail += "; " + meta.get("expect_why", "")
            rows.append((name, p if chk == p else f"{p} (also run: {chk})", status, detail))
            print(name, chk, status, detail, flush=True)
    with open(out, "w") as f:
        f.write("| seeded change | property | quick check | detail |\n|---|---|---|---|\n")
        for r in rows:
            f.write("| " + " | ".join(r) + " |\n")
    print("written", out)


if __name__ == "__main__":
    main()
