"""Kernel K107b (property C07): the code block that FieldUnpackerCodeBlockBuilder.build emits for one field.

Translated on every run from /repo/mashumaro/core/meta/code/builder.py (fail closed) into coq/gen/K107b.v:

  set_value      <- FieldUnpackerCodeBlockBuilder._set_value
  try_set_value  <- FieldUnpackerCodeBlockBuilder._try_set_value
  build_block    <- FieldUnpackerCodeBlockBuilder.build     (whole body)

The functions return the emitted block as a tree of the kernel universe instead of appending text to
`self.lines`: a block is a KList of nodes

    KTuple [KStr "line";   KStr <template>; KList <arguments>; KList []]
    KTuple [KStr "indent"; KStr <template>; KList <arguments>; <block>]       (`with self.indent(<header>):`)

where <template> is the (f-)string literal of the source with every `{expr}` replaced by `{}` (`{expr!r}` by `{!r}`)
and <arguments> the values of those expressions.  The rewriting of the emission statements is mechanical:

    self.add_line(S) / self.lines.append(S)              ->  out.append(("line", T, [args], []))
    with self.indent(S) / self.lines.indent(S): BODY     ->  sv_k = out; out = []; BODY; sv_k.append(("indent", T, [args], out)); out = sv_k
    self._set_value(..) / self._try_set_value(..)        ->  out = set_value(out, ..) / try_set_value(out, ..)
    return FieldUnpackerCodeBlock(self.lines, fname, X)  ->  return out       (X is kernel K107a's block_in_kwargs)

Everything else (conditions, assignments of packed_value / unpacked_value / key) goes through py2gallina unchanged.
Parameters of build_block (abstractions of the calls into the rest of the builder):
    a_default       = self.parent.get_field_default(fname)           (K107a.get_field_default)
    a_field_type    = self.parent.get_type_name_identifier(...)      (a name, only printed in the raise lines)
    a_could_be_none = self.parent.is_field_nullable(fname, ftype)    (K17)
    a_unpacked      = UnpackerRegistry.get(ValueSpec(...))           (the unpacker expression, a str)
    a_allow         = self.parent.get_config().allow_deserialization_not_by_alias
    v_fname, v_alias
What the emitted lines mean is given by the interpreter in coq/theories/BindK107b.v."""
from __future__ import annotations

import ast
import os

from py2gallina import HEADER, FnTranslator, Kernel, Unsupported, coq_string, find_function

NAME = "K107b"
REPO = os.environ.get("VERIF_REPO", "/repo")
SRC_REL = "mashumaro/core/meta/code/builder.py"
CLS = "FieldUnpackerCodeBlockBuilder"

ABSTR_BUILD = {
    "self.parent.get_field_default(fname)": "a_default",
    "self.parent.is_field_nullable(fname, ftype)": "a_could_be_none",
    "self.parent.get_config().allow_deserialization_not_by_alias": "a_allow",
}


def template_of(e):
    """(template text, [argument expressions]) of a str constant / f-string / implicit concatenation of them"""
    if isinstance(e, ast.Constant) and isinstance(e.value, str):
        return e.value.replace("{", "{{").replace("}", "}}") if False else e.value, []
    if isinstance(e, ast.JoinedStr):
        t, args = "", []
        for v in e.values:
            if isinstance(v, ast.Constant) and isinstance(v.value, str):
                if "{}" in v.value or "{!r}" in v.value:
                    raise Unsupported("literal braces in an emitted line")
                t += v.value
            elif isinstance(v, ast.FormattedValue):
                if v.format_spec is not None:
                    raise Unsupported("format spec in an emitted line")
                if v.conversion == -1:
                    t += "{}"
                elif v.conversion == ord("r"):
                    t += "{!r}"
                else:
                    raise Unsupported("conversion in an emitted line")
                args.append(v.value)
            else:
                raise Unsupported("f-string part")
        return t, args
    raise Unsupported(f"emitted text is not a string literal: {ast.unparse(e)[:60]}")


def node(kind, text_expr, children):
    t, args = template_of(text_expr)
    return ast.Tuple(elts=[ast.Constant(value=kind), ast.Constant(value=t), ast.List(elts=args, ctx=ast.Load()),
                           children], ctx=ast.Load())


def name(n, store=False):
    return ast.Name(id=n, ctx=ast.Store() if store else ast.Load())


def assign(n, value):
    return ast.Assign(targets=[name(n, True)], value=value, lineno=1)


def append(target, value):
    return ast.Expr(value=ast.Call(func=ast.Attribute(value=name(target), attr="append", ctx=ast.Load()),
                                   args=[value], keywords=[]))


class Rewriter:
    def __init__(self, add_line, indent):
        self.add_line = add_line          # texts of the callables that emit a line / open an indented block
        self.indent = indent
        self.depth = 0
        self.saved = []

    def stmts(self, body):
        out = []
        for s in body:
            out.extend(self.stmt(s))
        return out

    def stmt(self, s):
        if isinstance(s, ast.Expr) and isinstance(s.value, ast.Constant) and isinstance(s.value.value, str):
            return []
        if isinstance(s, ast.Expr) and isinstance(s.value, ast.Call):
            c = s.value
            f = ast.unparse(c.func)
            if f in self.add_line and len(c.args) == 1 and not c.keywords:
                return [append("out", node("line", c.args[0], ast.List(elts=[], ctx=ast.Load())))]
            if f in ("self._set_value", "self._try_set_value") and not c.keywords:
                return [assign("out", ast.Call(func=name(f[len("self._"):]), args=[name("out")] + list(c.args), keywords=[]))]
            raise Unsupported(f"call statement {ast.unparse(s)[:70]}")
        if isinstance(s, ast.With):
            if len(s.items) != 1 or s.items[0].optional_vars is not None:
                raise Unsupported("with statement")
            c = s.items[0].context_expr
            if not (isinstance(c, ast.Call) and ast.unparse(c.func) in self.indent and len(c.args) == 1 and not c.keywords):
                raise Unsupported(f"with {ast.unparse(c)[:60]}")
            self.depth += 1
            sv = f"sv{self.depth}"
            if sv not in self.saved:
                self.saved.append(sv)
            body = self.stmts(s.body)
            self.depth -= 1
            return ([assign(sv, name("out")), assign("out", ast.List(elts=[], ctx=ast.Load()))] + body +
                    [append(sv, node("indent", c.args[0], name("out"))), assign("out", name(sv))])
        if isinstance(s, ast.If):
            return [ast.If(test=s.test, body=self.stmts(s.body), orelse=self.stmts(s.orelse))]
        if isinstance(s, ast.Assign):
            return [s]
        if isinstance(s, ast.Return):
            return [s]
        raise Unsupported(f"statement {type(s).__name__} in an emitting function")


class K107bTranslator(FnTranslator):
    def block(self, stmts, k):
        if stmts:
            s = stmts[0]
            if isinstance(s, ast.Expr) and isinstance(s.value, ast.Call) and isinstance(s.value.func, ast.Attribute) \
                    and s.value.func.attr == "append" and isinstance(s.value.func.value, ast.Name):
                n = s.value.func.value.id
                if n not in self.locals:
                    raise Unsupported(f"append to unknown name {n}")
                pv, val = self.expr(s.value.args[0])
                return self.wrap(pv + [(f"v_{n}", f"k_append v_{n} {val}")], self.block(stmts[1:], k))
        return super().block(stmts, k)

    def assigned(self, stmts):
        out = [n for n in super().assigned(stmts)]
        for s in stmts:
            for nd in ast.walk(s):
                if isinstance(nd, ast.Call) and isinstance(nd.func, ast.Attribute) and nd.func.attr == "append" \
                        and isinstance(nd.func.value, ast.Name) and nd.func.value.id not in out:
                    out.append(nd.func.value.id)
        return out

    def expr(self, e):
        key = ast.unparse(e)
        if key in self.k.abstr:
            return [], self.k.abstr[key]
        if isinstance(e, ast.Name) and e.id == "MISSING" and "MISSING" not in self.locals:
            return [], "KMissing"
        if isinstance(e, (ast.Tuple, ast.List)):
            pre, items = [], []
            for x in e.elts:
                p, a = self.expr(x)
                pre += p
                items.append(a)
            return pre, ("(KTuple [" if isinstance(e, ast.Tuple) else "(KList [") + "; ".join(items) + "])"
        if isinstance(e, ast.JoinedStr):
            # a str value built by an f-string (packed_value = f"__{fname}"): template and arguments, as for lines
            t, args = template_of(e)
            pre, items = [], []
            for x in args:
                p, a = self.expr(x)
                pre += p
                items.append(a)
            return pre, f"(KTuple [KStr \"fstr\"; KStr {coq_string(t)}; KList [" + "; ".join(items) + "]])"
        return super().expr(e)

    def call(self, e):
        f = ast.unparse(e.func)
        if f in ("set_value", "try_set_value") and not e.keywords:
            pre, args = [], []
            for x in e.args:
                p, a = self.expr(x)
                pre += p
                args.append(a)
            t = self.fresh()
            return pre + [(t, f"{f} " + " ".join(args))], t
        return super().call(e)


def _function(fname, params, body):
    f = ast.FunctionDef(name=fname, args=ast.arguments(posonlyargs=[], args=[], kwonlyargs=[], kw_defaults=[], defaults=[]),
                        body=body, decorator_list=[], lineno=1)
    ast.fix_missing_locations(f)
    return f


def _prebind(body, params):
    """names bound inside branches only are pre-bound to None (py2gallina joins branches on the names they assign)"""
    names = []
    for s in body:
        for n in ast.walk(s):
            if isinstance(n, ast.Name) and isinstance(n.ctx, ast.Store) and n.id not in params and n.id not in names:
                names.append(n.id)
    top = {s.targets[0].id for s in body if isinstance(s, ast.Assign) and isinstance(s.targets[0], ast.Name)}
    return [assign(n, ast.Constant(value=None)) for n in names if n not in top or n.startswith("sv")] + body


def _translate(module, fn, coq_name, params, abstr):
    k = Kernel(func=coq_name, coq_name=coq_name, params=params, abstr=abstr)
    tr = K107bTranslator(k, module)
    for p in params:
        if p.startswith("v_"):
            tr.locals.add(p[2:])
    return tr.translate(fn)


def gen_helper(module, pyname, coq_name, expect_params, defaults):
    fn = find_function(module, f"{CLS}.{pyname}")
    if [a.arg for a in fn.args.args] != ["self"] + expect_params or [ast.unparse(d) for d in fn.args.defaults] != defaults \
            or fn.args.kwonlyargs or fn.args.vararg or fn.args.kwarg:
        raise Unsupported(f"{pyname} signature")
    rw = Rewriter(add_line={"self.lines.append"}, indent={"self.lines.indent"})
    body = rw.stmts(fn.body)
    for s in body:
        for n in ast.walk(s):
            if isinstance(n, ast.Return):
                raise Unsupported(f"return inside {pyname}")
    body = _prebind(body, ["out"] + expect_params) + [ast.Return(value=name("out"))]
    return _translate(module, _function(coq_name, None, body), coq_name, ["v_out"] + [f"v_{p}" for p in expect_params], {})


def gen_build(module):
    fn = find_function(module, f"{CLS}.build")
    if [a.arg for a in fn.args.args] != ["self", "fname", "ftype", "metadata"] or \
            [a.arg for a in fn.args.kwonlyargs] != ["alias"]:
        raise Unsupported("build signature")
    # add_line / indent of the builder are thin wrappers of self.lines
    al = find_function(module, f"{CLS}.add_line")
    ind = find_function(module, f"{CLS}.indent")
    if [ast.unparse(s) for s in al.body] != ["self.lines.append(line)"] or \
            [ast.unparse(s) for s in ind.body] != ["with self.lines.indent(expr):\n    yield"]:
        raise Unsupported("add_line / indent of the block builder changed")
    body = [s for s in fn.body if not (isinstance(s, ast.Expr) and isinstance(s.value, ast.Constant))]
    # the calls into the rest of the builder become parameters
    head = {}
    for s in body:
        if isinstance(s, ast.Assign) and len(s.targets) == 1 and isinstance(s.targets[0], ast.Name):
            head.setdefault(s.targets[0].id, s)
    for nm in ("default", "field_type", "could_be_none", "unpacked_value"):
        if nm not in head:
            raise Unsupported(f"build: {nm} is not assigned at the top level")
    if ast.unparse(head["default"].value) != "self.parent.get_field_default(fname)" or \
            ast.unparse(head["could_be_none"].value) != "self.parent.is_field_nullable(fname, ftype)":
        raise Unsupported("build: default / could_be_none are not get_field_default(fname) / is_field_nullable(fname, ftype)")
    ft = ast.unparse(head["field_type"].value)
    uv = ast.unparse(head["unpacked_value"].value)
    if not ft.startswith("self.parent.get_type_name_identifier(ftype") or not uv.startswith("UnpackerRegistry.get(ValueSpec(type=ftype, expression='value'"):
        raise Unsupported("build: field_type / unpacked_value")
    if "could_be_none=False if could_be_none else True" not in uv:
        raise Unsupported("build: the unpacker is not told could_be_none = not <field block handles None>")
    abstr = dict(ABSTR_BUILD)
    abstr[ft] = "a_field_type"
    abstr[uv] = "a_unpacked"
    ret = body[-1]
    if not (isinstance(ret, ast.Return) and isinstance(ret.value, ast.Call) and ast.unparse(ret.value.func) == "FieldUnpackerCodeBlock"
            and len(ret.value.args) == 3 and ast.unparse(ret.value.args[0]) == "self.lines"):
        raise Unsupported("build does not end with `return FieldUnpackerCodeBlock(self.lines, ...)`")
    for s in body[:-1]:
        for n in ast.walk(s):
            if isinstance(n, ast.Return):
                raise Unsupported("early return in build")
    rw = Rewriter(add_line={"self.add_line"}, indent={"self.indent"})
    new = rw.stmts(body[:-1])
    new = [assign("out", ast.List(elts=[], ctx=ast.Load()))] + _prebind(new, ["fname", "alias", "out"]) + [ast.Return(value=name("out"))]
    return _translate(module, _function("build_block", None, new), "build_block",
                      ["a_default", "a_field_type", "a_could_be_none", "a_unpacked", "a_allow", "v_fname", "v_alias"], abstr)


def gen() -> str:
    module = ast.parse(open(os.path.join(REPO, SRC_REL)).read())
    imports = [n for n in module.body if isinstance(n, ast.ImportFrom) and n.module == "dataclasses" and n.level == 0
               and any(a.name == "MISSING" and a.asname is None for a in n.names)]
    binds = [n for n in ast.walk(module) if (isinstance(n, ast.alias) and (n.asname or n.name) == "MISSING")
             or (isinstance(n, ast.Name) and n.id == "MISSING" and not isinstance(n.ctx, ast.Load))]
    if len(binds) != 1 or len(imports) != 1:
        raise Unsupported("MISSING is not (only) dataclasses.MISSING in builder.py")
    text = HEADER.format(src=SRC_REL + " (FieldUnpackerCodeBlockBuilder: _set_value, _try_set_value, build)")
    text = text.replace("From Verif Require Import Regex PyK.", "From Verif Require Import Regex PyK PyK_c08.")
    text += gen_helper(module, "_set_value", "set_value", ["fname", "unpacked_value", "in_kwargs"], ["False"]) + "\n"
    text += gen_helper(module, "_try_set_value", "try_set_value",
                       ["field_name", "field_type_name", "unpacked_value", "in_kwargs"], []) + "\n"
    text += gen_build(module)
    return text


if __name__ == "__main__":
    print(gen())
