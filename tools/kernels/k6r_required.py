"""K6R: is a dataclass field listed in the JSON Schema's `required`?  The decision inside the field loop of
mashumaro/jsonschema/schema.py:on_dataclass, sliced out and translated:

    may_be_omitted = bool(omit_none) and instance._self_builder.is_field_nullable(f_name, f_type)
    ...
    if not has_default and not may_be_omitted:
        required.append(f_name)

Parameters: has_default, bool(omit_none) (the owner's Config / dialect option), and the result of
is_field_nullable (kernel K20).  The slicer checks the provenance of omit_none and that nothing else in the
loop touches `required` / `may_be_omitted`; anything unexpected raises Unsupported."""
from __future__ import annotations

import ast
import os

from py2gallina import HEADER, Kernel, Unsupported, find_function, translate_kernel

NAME = "K6R"
REPO = os.environ.get("VERIF_REPO", "/repo")
SRC_REL = "mashumaro/jsonschema/schema.py"
NULLABLE = "instance._self_builder.is_field_nullable(f_name, f_type)"


def gen() -> str:
    src = os.path.join(REPO, SRC_REL)
    module = ast.parse(open(src).read())
    fn = find_function(module, "on_dataclass")
    txt = ast.unparse(fn)
    if "omit_none = instance._self_builder.get_dialect_or_config_option('omit_none', False)" not in txt:
        raise Unsupported("on_dataclass: omit_none is not the owner's dialect-or-config option")
    loops = [n for n in ast.walk(fn) if isinstance(n, ast.For) and "instance.fields()" in ast.unparse(n.iter)]
    if len(loops) != 1:
        raise Unsupported("on_dataclass: field loop not found")
    loop = loops[0]
    if ast.unparse(loop.target) != "(f_name, f_type, has_default, f_default)":
        raise Unsupported("on_dataclass: loop target changed")
    assign = [s for s in loop.body if isinstance(s, ast.Assign) and ast.unparse(s.targets[0]) == "may_be_omitted"]
    appends = [s for s in loop.body if isinstance(s, ast.If) and "required.append" in ast.unparse(s)]
    if len(assign) != 1 or len(appends) != 1:
        raise Unsupported("on_dataclass: may_be_omitted / required.append statements not found (exactly one each)")
    if loop.body.index(assign[0]) != 0:
        raise Unsupported("on_dataclass: may_be_omitted must be computed first (before f_name is replaced by the alias)")
    iff = appends[0]
    if iff.orelse or [ast.unparse(s) for s in iff.body] != ["required.append(f_name)"]:
        raise Unsupported("on_dataclass: shape of the required.append statement")
    for s in loop.body:
        if s is assign[0] or s is iff:
            continue
        for n in ast.walk(s):
            if isinstance(n, ast.Name) and n.id in ("may_be_omitted", "required", "has_default") and isinstance(n.ctx, ast.Store):
                raise Unsupported("on_dataclass: decision variables assigned elsewhere in the loop")
            if isinstance(n, ast.Attribute) and isinstance(n.value, ast.Name) and n.value.id == "required":
                raise Unsupported("on_dataclass: `required` used elsewhere in the loop")
    body = [assign[0],
            ast.If(test=iff.test, body=[ast.Return(value=ast.Constant(value=True))], orelse=[]),
            ast.Return(value=ast.Constant(value=False))]
    newfn = ast.FunctionDef(name="schema_requires", args=ast.arguments(posonlyargs=[], args=[], kwonlyargs=[], kw_defaults=[], defaults=[]),
                            body=body, decorator_list=[], lineno=1)
    ast.fix_missing_locations(newfn)
    mod2 = ast.Module(body=[newfn], type_ignores=[])
    k = Kernel(func="schema_requires", coq_name="schema_requires", params=["a_has_default", "a_omit_none", "a_nullable"],
               abstr={"has_default": "a_has_default", "bool(omit_none)": "a_omit_none", NULLABLE: "a_nullable"})
    text = HEADER.format(src=SRC_REL + " (on_dataclass: required decision)")
    text += translate_kernel(src, k, mod2)
    return text


if __name__ == "__main__":
    print(gen())
