"""Kernel K110a (property C10): the walk of the handler registry.

`Registry.get` (common.py) asks the registered handlers in registration order and takes the first answer that is not
None.  K5 / K5P translate the first handler (the overridden (de)serialization method), K5D the if/elif chains of the
special-typing and the collection handler.  K110a translates THE ORDER (the `@register` decorators of pack.py /
unpack.py, top to bottom) and the guard of EVERY other handler, so that "the dataclass handler answers before the
chains" and "the handlers between the two chains decline" are no longer hand-written in the model:

    handlers_<side> : list (name * (valuation -> tag))      in registration order, without the first handler
    first_handler_<side> : string                           its name

Every handler is translated like a K5D chain (decision tree over its own test expressions, kept as source text; a
`return` becomes the tag of its block).  Additional shapes (fail closed on anything else):

    try: <ifs that only return> except E: return None   a test that raises E declines: pseudo-test `_raises(lambda: (<test>), E)`
    with suppress(E): <if ...>                          the same
    for x in it: if <test>: return ...                  pseudo-test `any((<test>) for x in it)`

tags: "dataclass" = the block that calls spec.builder.get_(un)pack_method_flags(spec.type) (the call site K8 / K5P
translate), "final" = Registry.get(spec.copy(type=get_args(spec.type)[0])), else the K5D tags.
The two chain handlers are taken from VerifGen.K5D (dispatch_<side>_special / dispatch_<side>_collection).
"""
from __future__ import annotations

import ast
import importlib.util
import os

from py2gallina import HEADER, Unsupported, coq_string

NAME = "K110a"
REPO = os.environ.get("VERIF_REPO", "/repo")

_sp = importlib.util.spec_from_file_location("vk_k5d_for_k110a", os.path.join(os.path.dirname(os.path.abspath(__file__)), "k5d_dispatch.py"))
k5d = importlib.util.module_from_spec(_sp)
_sp.loader.exec_module(k5d)


def raises_text(test: str, exc: str) -> str:
    return f"_raises(lambda: ({test}), {exc})"


class Handler(k5d.Chain):
    """Chain + try/except-return-None, with suppress(...), for-if-return."""

    def __init__(self, side: str):
        super().__init__(side)
        self.guard: str | None = None       # exception name while inside try / suppress

    def tag(self, text: str) -> str:
        reg = "PackerRegistry" if self.side == "pack" else "UnpackerRegistry"
        if f"spec.builder.get_{self.side}_method_flags(spec.type)" in text:
            return "dataclass"
        if f"{reg}.get(spec.copy(type=get_args(spec.type)[0]))" in text:
            return "final"
        return k5d.tag_of(text, self.side)

    def note(self, t: str) -> str:
        if t not in self.tests:
            self.tests.append(t)
        return coq_string(t)

    def tr(self, stmts, k: str, seen: list) -> str:
        if not stmts:
            return k
        s, rest = stmts[0], stmts[1:]
        if isinstance(s, ast.Return):
            text = "\n".join(ast.unparse(x) for x in seen + [s])
            return coq_string(self.tag(text))
        if isinstance(s, ast.If) and any(isinstance(n, (ast.Return, ast.Raise)) for n in ast.walk(s)):
            for n in ast.walk(s.test):
                if isinstance(n, (ast.NamedExpr, ast.Lambda)):
                    raise Unsupported("walrus / lambda in a handler test")
            t = ast.unparse(s.test)
            after = self.tr(rest, k, seen)
            body = f"(if p {self.note(t)} then {self.tr(list(s.body), after, seen)} else {self.tr(list(s.orelse), after, seen)})"
            if self.guard:
                return f"(if p {self.note(raises_text(t, self.guard))} then \"decline\" else {body})"
            return body
        if isinstance(s, ast.Try):
            if s.orelse or s.finalbody or len(s.handlers) != 1 or self.guard:
                raise Unsupported("handler: try shape")
            h = s.handlers[0]
            if not (isinstance(h.type, ast.Name) and len(h.body) == 1 and ast.unparse(h.body[0]) == "return None"):
                raise Unsupported("handler: except clause is not `except E: return None`")
            for b in s.body:        # only tests and returns may be guarded (nothing else that could raise E)
                if not (isinstance(b, ast.If) and not b.orelse and all(isinstance(x, ast.Return) for x in b.body)):
                    raise Unsupported("handler: try body is not a list of `if test: return ...`")
            self.guard = h.type.id
            inner = self.tr(list(s.body), "@@AFTER@@", seen)
            self.guard = None
            return inner.replace("@@AFTER@@", self.tr(rest, k, seen))
        if isinstance(s, ast.With):
            if len(s.items) != 1 or s.items[0].optional_vars is not None or self.guard:
                raise Unsupported("handler: with shape")
            ce = s.items[0].context_expr
            if not (isinstance(ce, ast.Call) and ast.unparse(ce.func) == "suppress" and len(ce.args) == 1
                    and isinstance(ce.args[0], ast.Name) and not ce.keywords):
                raise Unsupported("handler: with is not suppress(E)")
            if not (len(s.body) == 1 and isinstance(s.body[0], ast.If)):
                raise Unsupported("handler: suppress body is not one if")
            self.guard = ce.args[0].id
            inner = self.tr(list(s.body), "@@AFTER@@", seen)
            self.guard = None
            return inner.replace("@@AFTER@@", self.tr(rest, k, seen))
        if isinstance(s, ast.For) and any(isinstance(n, ast.Return) for n in ast.walk(s)):
            if s.orelse or len(s.body) != 1 or not isinstance(s.body[0], ast.If) or s.body[0].orelse or self.guard:
                raise Unsupported("handler: for shape")
            i = s.body[0]
            if not (len(i.body) == 1 and isinstance(i.body[0], ast.Return)):
                raise Unsupported("handler: for-if body is not a return")
            t = f"any(({ast.unparse(i.test)}) for {ast.unparse(s.target)} in {ast.unparse(s.iter)})"
            hit = coq_string(self.tag("\n".join(ast.unparse(x) for x in [i.body[0]])))
            return f"(if p {self.note(t)} then {hit} else {self.tr(rest, k, seen)})"
        return super().tr(stmts, k, seen)


def registered(mod: ast.Module) -> list[ast.FunctionDef]:
    out = []
    for n in mod.body:
        if isinstance(n, ast.FunctionDef) and n.decorator_list:
            ds = [ast.unparse(d) for d in n.decorator_list]
            if "register" in ds:
                if ds != ["register"] or [a.arg for a in n.args.args] != ["spec"]:
                    raise Unsupported(f"{n.name}: signature/decorators")
                out.append(n)
        # a registration that is not a top-level decorator would escape the order read here
    src = ast.unparse(mod)
    if src.count("register(") != 0 or src.count("._registry") != 0:
        raise Unsupported("registry touched outside the @register decorators")
    return out


def _check_register_is_registry(mod: ast.Module, side: str):
    reg = "PackerRegistry" if side == "pack" else "UnpackerRegistry"
    found = [ast.unparse(n) for n in mod.body if isinstance(n, ast.Assign) and ast.unparse(n.targets[0]) in (reg, "register")]
    if found != [f"{reg} = Registry()", f"register = {reg}.register"]:
        raise Unsupported(f"{side}: `register` is not {reg}.register of a fresh Registry(): {found}")


def _side(mod: ast.Module, side: str):
    _check_register_is_registry(mod, side)
    fns = registered(mod)
    names = [f.name for f in fns]
    first = f"{side}_type_with_overridden_{'serialization' if side == 'pack' else 'deserialization'}"
    if not names or names[0] != first:
        raise Unsupported(f"{side}: the first registered handler is not {first}")
    text, entries, tests = "", [], []
    for f in fns[1:]:
        if f.name == f"{side}_special_typing_primitive":
            entries.append((f.name, f"dispatch_{side}_special"))
            continue
        if f.name == f"{side}_collection":
            entries.append((f.name, f"dispatch_{side}_collection"))
            continue
        h = Handler(side)
        body = h.tr(list(f.body), '"decline"', [])
        text += f"Definition h_{f.name} (p: string -> bool) : string :=\n  {body}.\n\n"
        entries.append((f.name, f"h_{f.name}"))
        tests += [t for t in h.tests if t not in tests]
    names1 = [n for n, _ in entries]
    dc, sp, co = f"{side}_dataclass", f"{side}_special_typing_primitive", f"{side}_collection"
    try:
        i, j, k = names1.index(dc), names1.index(sp), names1.index(co)
    except ValueError as e:
        raise Unsupported(f"{side}: {e}") from None
    if not i < j < k:
        raise Unsupported(f"{side}: registration order of the dataclass / special typing / collection handlers changed")

    def lst(es):
        return "[" + ";\n   ".join(f"({coq_string(n)}, {d})" for n, d in es) + "]"
    H = "list (string * ((string -> bool) -> string))"
    # the ordered list, cut at the three handlers the model names (registration order is kept: see handlers_<side>)
    text += (f"Definition first_handler_{side} : string := {coq_string(first)}.\n\n"
             f"Definition pre_dataclass_{side} : {H} :=\n  {lst(entries[:i])}.\n\n"
             f"Definition dataclass_handler_{side} : string * ((string -> bool) -> string) := ({coq_string(dc)}, {entries[i][1]}).\n\n"
             f"Definition mid_{side} : {H} :=\n  {lst(entries[i + 1:j])}.\n\n"
             f"Definition special_handler_{side} : string * ((string -> bool) -> string) := ({coq_string(sp)}, {entries[j][1]}).\n\n"
             f"Definition between_{side} : {H} :=\n  {lst(entries[j + 1:k])}.\n\n"
             f"Definition collection_handler_{side} : string * ((string -> bool) -> string) := ({coq_string(co)}, {entries[k][1]}).\n\n"
             f"Definition post_{side} : {H} :=\n  {lst(entries[k + 1:])}.\n\n"
             f"Definition handlers_{side} : {H} :=\n  pre_dataclass_{side} ++ dataclass_handler_{side} :: mid_{side} ++ "
             f"special_handler_{side} :: between_{side} ++ collection_handler_{side} :: post_{side}.\n\n")
    return text, tests, [first] + [n for n, _ in entries]


def _mods():
    pmod = ast.parse(open(os.path.join(REPO, "mashumaro/core/meta/types/pack.py")).read())
    umod = ast.parse(open(os.path.join(REPO, "mashumaro/core/meta/types/unpack.py")).read())
    return (("pack", pmod), ("unpack", umod))


def _check_registry_get():
    """the loop of Registry.get: first answer that is not None, in list order; register appends"""
    cmod = ast.parse(open(os.path.join(REPO, "mashumaro/core/meta/types/common.py")).read())
    cls = next(n for n in cmod.body if isinstance(n, ast.ClassDef) and n.name == "Registry")
    reg = next(n for n in cls.body if isinstance(n, ast.FunctionDef) and n.name == "register")
    if [ast.unparse(s) for s in reg.body] != ["self._registry.append(function)", "return function"]:
        raise Unsupported("Registry.register is not append + return")
    get = next(n for n in cls.body if isinstance(n, ast.FunctionDef) and n.name == "get")
    loops = [s for s in get.body if isinstance(s, ast.For)]
    want = "for packer in self._registry:\n    expr = packer(spec)\n    if expr is not None:\n        return expr"
    if len(loops) != 1 or ast.unparse(loops[0]) != want or not isinstance(get.body[-1], ast.Raise) or get.body[-2] is not loops[0]:
        raise Unsupported("Registry.get: the handler loop changed")
    fld = [ast.unparse(n) for n in cls.body if isinstance(n, ast.AnnAssign)]
    if fld != ["_registry: list[ValueSpecExprCreator] = field(default_factory=list)"]:
        raise Unsupported("Registry._registry is not a fresh list")


def gen() -> str:
    _check_registry_get()
    out = HEADER.format(src="pack.py / unpack.py (@register order and the guards of the registered handlers), common.py (Registry)")
    out += "From VerifGen Require Import K5D.\n\n"
    for side, mod in _mods():
        out += _side(mod, side)[0]
    return out


def test_texts() -> dict:
    """for the harness: the test expressions of the handlers other than the two chains, per side"""
    return {side: _side(mod, side)[1] for side, mod in _mods()}


def handler_names() -> dict:
    return {side: _side(mod, side)[2] for side, mod in _mods()}
