"""K6N: "are named tuples serialized as dicts at this position?" -- the decision is taken twice in /repo:
  pack_nt_as_dict    <- mashumaro/core/meta/types/pack.py:pack_named_tuple   (serializer)
  schema_nt_as_dict  <- mashumaro/jsonschema/schema.py:on_named_tuple        (JSON Schema)
Both are sliced out (class-wide option, then the field's `serialize` override) and translated;
coq/theories/K6NProofs.v proves that they agree and equal Schema.nt_mode.

Abstraction: the class-wide option (get_dialect_or_config_option("namedtuple_as_dict", False)) and the
overridden serialization method are parameters.  The slicer checks that the statements it drops cannot
affect `as_dict`, that `as_dict` alone selects object vs array afterwards, and maps
UnsupportedSerializationEngine to ValueError (fail closed on anything else)."""
from __future__ import annotations

import ast
import os

from py2gallina import HEADER, Kernel, Unsupported, find_function, translate_kernel

NAME = "K6N"
REPO = os.environ.get("VERIF_REPO", "/repo")


def slice_mode(fn: ast.FunctionDef, opt_call: str, ovr_call: str, tail_check) -> list:
    """statements `as_dict = <opt_call>`, `serialize_option = <ovr_call>`, the if-statements on
    serialize_option that follow them; then `return as_dict`"""
    body = list(fn.body)
    idx = [i for i, s in enumerate(body) if isinstance(s, ast.Assign) and ast.unparse(s.targets[0]) == "as_dict"]
    if len(idx) != 1:
        raise Unsupported("as_dict must be initialised exactly once at top level")
    i0 = idx[0]
    if ast.unparse(body[i0].value) != opt_call:
        raise Unsupported(f"as_dict initialiser changed: {ast.unparse(body[i0].value)}")
    out = [body[i0]]
    j = i0 + 1
    if not (isinstance(body[j], ast.Assign) and ast.unparse(body[j].targets[0]) == "serialize_option"
            and ast.unparse(body[j].value) == ovr_call):
        raise Unsupported("serialize_option assignment not found after as_dict")
    out.append(body[j])
    j += 1
    while j < len(body) and isinstance(body[j], ast.If) and "serialize_option" in ast.unparse(body[j].test):
        out.append(body[j])
        j += 1
    # nothing before / after may assign as_dict or serialize_option
    for s in body[:i0] + body[j:]:
        for n in ast.walk(s):
            if isinstance(n, ast.Name) and isinstance(n.ctx, ast.Store) and n.id in ("as_dict", "serialize_option"):
                raise Unsupported("as_dict / serialize_option assigned outside the slice")
    tail_check(body[j:])

    class Fix(ast.NodeTransformer):
        def visit_Raise(self, node):
            if isinstance(node.exc, ast.Call) and ast.unparse(node.exc.func) == "UnsupportedSerializationEngine":
                return ast.Raise(exc=ast.Name(id="ValueError", ctx=ast.Load()), cause=None)
            return node
    out = [Fix().visit(s) for s in out]
    ret = ast.Return(value=ast.Name(id="as_dict", ctx=ast.Load()))

    def close(stmts):
        """`return as_dict` pushed into every branch that falls through (same meaning, and every
        branch then exits, which is the shape the translator supports next to a raise)"""
        if stmts and isinstance(stmts[-1], ast.If):
            last = stmts[-1]
            return stmts[:-1] + [ast.If(test=last.test, body=close(list(last.body)), orelse=close(list(last.orelse)))]
        if stmts and isinstance(stmts[-1], (ast.Raise, ast.Return)):
            return stmts
        return stmts + [ret]
    return close(out)


def tail_pack(rest):
    txt = "\n".join(ast.unparse(s) for s in rest)
    if "if as_dict:" not in txt or txt.count("as_dict") != 1:
        raise Unsupported("pack_named_tuple: as_dict must be used exactly once, as the final object/list switch")


def tail_schema(rest):
    txt = "\n".join(ast.unparse(s) for s in rest)
    if "if as_dict:" not in txt or txt.count("as_dict") != 1 or "JSONObjectSchema" not in txt or "JSONArraySchema" not in txt:
        raise Unsupported("on_named_tuple: as_dict must be used exactly once, as the final object/array switch")


def one(src_rel, func, coq_name, opt_call, ovr_call, tail):
    src = os.path.join(REPO, src_rel)
    module = ast.parse(open(src).read())
    fn = find_function(module, func)
    stmts = slice_mode(fn, opt_call, ovr_call, tail)
    newfn = ast.FunctionDef(name=coq_name, args=fn.args, body=stmts, decorator_list=[], lineno=1)
    ast.fix_missing_locations(newfn)
    mod2 = ast.Module(body=[newfn], type_ignores=[])
    k = Kernel(func=coq_name, coq_name=coq_name, params=["a_class_option", "a_override"],
               abstr={opt_call: "a_class_option", ovr_call: "a_override"})
    return translate_kernel(src, k, mod2)


def gen() -> str:
    text = HEADER.format(src="mashumaro/core/meta/types/pack.py (pack_named_tuple) and mashumaro/jsonschema/schema.py (on_named_tuple): as_dict decision")
    text += one("mashumaro/core/meta/types/pack.py", "pack_named_tuple", "pack_nt_as_dict",
                "spec.builder.get_dialect_or_config_option('namedtuple_as_dict', False)",
                "get_overridden_serialization_method(spec)", tail_pack) + "\n"
    text += one("mashumaro/jsonschema/schema.py", "on_named_tuple", "schema_nt_as_dict",
                "instance.get_owner_dialect_or_config_option('namedtuple_as_dict', False)",
                "instance.get_overridden_serialization_method()", tail_schema)
    return text


if __name__ == "__main__":
    print(gen())
