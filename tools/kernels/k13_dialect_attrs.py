"""Kernel K13: the attribute inventory of `class Dialect` and the literal key tuple of the
option loop of `Dialect.merge`, extracted from the AST of /repo/mashumaro/dialect.py.

coq/gen/K13.v defines
  dialect_attrs   : list string   every attribute bound in the body of `class Dialect`
                                  (annotated or plain assignment)
  merge_loop_keys : list string   the tuple iterated by the option loop of Dialect.merge

  direct_option_reads : list string
      every place in mashumaro/**/*.py (outside class Dialect / BaseConfig themselves) that reads one of
      the option attributes (all of dialect_attrs except serialization_strategy) DIRECTLY --
      `<expr>.<option>` or `getattr(<expr>, "<option>"...)` -- instead of going through
      CodeBuilder.get_dialect_or_config_option (whose loop uses a variable name) or Dialect.merge.
      `spec.no_copy_collections` (a ValueSpec field, filled from the resolution function) is not an
      option namespace and is skipped.  The theorem C13_options_only_via_resolution says this list is
      empty: no code path can honour Config.<option> while ignoring Config.dialect / default_dialect.
  resolved_option_reads : list (string * string)   (option, default literal) of every
      get_dialect_or_config_option("<option>", <default>, ...) call site

Fail closed: any statement in the class body that is not an attribute binding, a docstring
or the `merge` classmethod, or a merge loop that is not `for key in (<string literals>)`,
raises Unsupported (the dependent proofs then do not build)."""
from __future__ import annotations

import ast
import os
import sys

HERE = os.path.dirname(os.path.abspath(__file__))
sys.path.insert(0, os.path.dirname(HERE))
from py2gallina import Unsupported, coq_string  # noqa: E402

NAME = "K13"
REPO = os.environ.get("VERIF_REPO", "/repo")


def extract(src_text: str):
    module = ast.parse(src_text)
    cls = None
    for n in module.body:
        if isinstance(n, ast.ClassDef) and n.name == "Dialect":
            cls = n
    if cls is None:
        raise Unsupported("class Dialect not found")
    attrs: list[str] = []
    merge = None
    for s in cls.body:
        if isinstance(s, ast.AnnAssign) and isinstance(s.target, ast.Name):
            attrs.append(s.target.id)
        elif isinstance(s, ast.Assign) and all(isinstance(t, ast.Name) for t in s.targets):
            attrs.extend(t.id for t in s.targets)
        elif isinstance(s, ast.Expr) and isinstance(s.value, ast.Constant) and isinstance(s.value.value, str):
            continue
        elif isinstance(s, ast.FunctionDef) and s.name == "merge":
            merge = s
        elif isinstance(s, ast.Pass):
            continue
        else:
            raise Unsupported(f"class Dialect: unexpected statement {ast.unparse(s)[:60]!r}")
    if merge is None:
        raise Unsupported("Dialect.merge not found")
    if len(set(attrs)) != len(attrs):
        raise Unsupported("class Dialect binds an attribute twice")
    loops = []
    seen_new = False
    for s in merge.body:
        if ast.unparse(s).startswith("new_dialect = "):
            seen_new = True
        if isinstance(s, ast.For) and seen_new:
            loops.append(s)
    if len(loops) != 1:
        raise Unsupported(f"Dialect.merge: expected exactly one option loop after new_dialect, found {len(loops)}")
    lp = loops[0]
    if not (isinstance(lp.target, ast.Name) and isinstance(lp.iter, (ast.Tuple, ast.List))):
        raise Unsupported("Dialect.merge: option loop is not `for <name> in (<literals>)`")
    keys = []
    for e in lp.iter.elts:
        if not (isinstance(e, ast.Constant) and isinstance(e.value, str)):
            raise Unsupported("Dialect.merge: option loop iterates a non-literal")
        keys.append(e.value)
    return attrs, keys


def scan_reads(attrs):
    opts = [a for a in attrs if a != "serialization_strategy"]
    direct, resolved = [], []
    root = os.path.join(REPO, "mashumaro")
    for dp, _dn, fns in sorted(os.walk(root)):
        for fn in sorted(fns):
            if not fn.endswith(".py"):
                continue
            path = os.path.join(dp, fn)
            rel = os.path.relpath(path, REPO)
            tree = ast.parse(open(path).read())
            skip = set()
            for n in ast.walk(tree):
                # the defining classes (annotated defaults) and merge's own getattr/setattr loop
                if isinstance(n, ast.ClassDef) and n.name in ("Dialect", "BaseConfig") and rel in ("mashumaro/dialect.py", "mashumaro/config.py"):
                    skip.update(id(x) for x in ast.walk(n))
            for n in ast.walk(tree):
                if id(n) in skip:
                    continue
                if isinstance(n, ast.Attribute) and n.attr in opts and isinstance(n.ctx, ast.Load):
                    recv = ast.unparse(n.value)
                    if recv == "spec" and n.attr == "no_copy_collections":
                        continue
                    direct.append(f"{rel}:{n.lineno}: {ast.unparse(n)}")
                if isinstance(n, ast.Call):
                    f = ast.unparse(n.func)
                    if f == "getattr" and len(n.args) >= 2 and isinstance(n.args[1], ast.Constant) and n.args[1].value in opts:
                        direct.append(f"{rel}:{n.lineno}: {ast.unparse(n)}")
                    if f.endswith("dialect_or_config_option"):
                        if n.args and isinstance(n.args[0], ast.Name):
                            continue        # a forwarding wrapper (its own callers are scanned by the same suffix rule)
                        if not n.args or not isinstance(n.args[0], ast.Constant) or not isinstance(n.args[0].value, str):
                            raise Unsupported(f"{rel}:{n.lineno}: get_dialect_or_config_option with a non-literal option name")
                        if len(n.args) < 2:
                            raise Unsupported(f"{rel}:{n.lineno}: get_dialect_or_config_option without default")
                        resolved.append((n.args[0].value, ast.unparse(n.args[1])))
    return direct, resolved


def gen() -> str:
    src = os.path.join(REPO, "mashumaro/dialect.py")
    attrs, keys = extract(open(src).read())
    direct, resolved = scan_reads(attrs)
    out = ("(* GENERATED by tools/kernels/k13_dialect_attrs.py from mashumaro/dialect.py -- do not edit.\n"
           "   Regenerated from /repo on every check run. *)\n"
           "From Coq Require Import List String.\nImport ListNotations.\nOpen Scope string_scope.\n\n")
    out += "Definition dialect_attrs : list string :=\n  [" + "; ".join(coq_string(a) for a in attrs) + "].\n\n"
    out += "Definition merge_loop_keys : list string :=\n  [" + "; ".join(coq_string(k) for k in keys) + "].\n\n"
    out += "Definition direct_option_reads : list string :=\n  [" + "; ".join(coq_string(d) for d in direct) + "].\n\n"
    out += ("Definition resolved_option_reads : list (string * string) :=\n  ["
            + "; ".join(f"({coq_string(o)}, {coq_string(d)})" for o, d in resolved) + "].\n")
    return out


if __name__ == "__main__":
    print(gen())
