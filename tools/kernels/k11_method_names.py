"""K11 (C04 part): CodeBuilder.get_pack_method_name / get_unpack_method_name and
InternalMethodName.from_public translated to Gallina, plus the format names the mixins declare.

Extends the translator (fail closed) with: f-strings over plain expressions, `+=`, the call
`InternalMethodName.from_public(e)` (sibling kernel) and `cls(e)` for a str subclass.
hash_type_args(type_args) is abstracted to the parameter a_hash after checking that it still is
md5(...).hexdigest() (the theorem assumes a hex string)."""
from __future__ import annotations

import ast
import os
import sys

HERE = os.path.dirname(os.path.abspath(__file__))
sys.path.insert(0, os.path.dirname(HERE))
from py2gallina import HEADER, FnTranslator, Kernel, Unsupported, coq_string, find_function, translate_kernel  # noqa: E402

NAME = "K11"
REPO = os.environ.get("VERIF_REPO", "/repo")


class NameTranslator(FnTranslator):
    def expr(self, e: ast.expr):
        key = ast.unparse(e)
        if key in self.k.abstr:
            return [], self.k.abstr[key]
        if isinstance(e, ast.JoinedStr):
            pre, parts = [], []
            for v in e.values:
                if isinstance(v, ast.Constant) and isinstance(v.value, str):
                    parts.append(f"(KStr {coq_string(v.value)})")
                elif isinstance(v, ast.FormattedValue):
                    if v.conversion != -1 or v.format_spec is not None:
                        raise Unsupported(f"f-string conversion/format spec in {key}")
                    p, a = self.expr(v.value)
                    pre += p
                    parts.append(a)
                else:
                    raise Unsupported(f"f-string part in {key}")
            t = self.fresh()
            return pre + [(t, "k_fstr [" + "; ".join(parts) + "]")], t
        return super().expr(e)

    def call(self, e: ast.Call):
        f = ast.unparse(e.func)
        if f == "InternalMethodName.from_public" and len(e.args) == 1 and not e.keywords:
            pre, a = self.expr(e.args[0])
            t = self.fresh()
            return pre + [(t, f"from_public {a}")], t
        if f == "cls" and len(e.args) == 1 and not e.keywords and getattr(self.k, "cls_is_plain_str_subclass", False):
            pre, a = self.expr(e.args[0])
            t = self.fresh()
            return pre + [(t, f"k_str_new {a}")], t
        return super().call(e)

    def block(self, stmts, k):
        if stmts and isinstance(stmts[0], ast.AugAssign):
            s, rest = stmts[0], stmts[1:]
            if not isinstance(s.op, ast.Add) or not isinstance(s.target, ast.Name):
                raise Unsupported(f"augmented assignment {ast.unparse(s)}")
            if s.target.id not in self.locals:
                raise Unsupported(f"+= on unbound {s.target.id}")
            pre, a = self.expr(s.value)
            nm = f"v_{s.target.id}"
            return self.wrap(pre + [(nm, f"k_add {nm} {a}")], self.block(rest, k))
        return super().block(stmts, k)


def _internal_method_name_consts(module: ast.Module):
    cls = None
    for n in module.body:
        if isinstance(n, ast.ClassDef) and n.name == "InternalMethodName":
            cls = n
    if cls is None:
        raise Unsupported("class InternalMethodName not found")
    if [ast.unparse(b) for b in cls.bases] != ["str"] or cls.keywords:
        raise Unsupported("InternalMethodName is not a plain subclass of str")
    consts = {}
    for n in cls.body:
        if isinstance(n, ast.Assign) and len(n.targets) == 1 and isinstance(n.targets[0], ast.Name) \
                and isinstance(n.value, ast.Constant) and isinstance(n.value.value, str):
            consts[n.targets[0].id] = n.value.value
        elif isinstance(n, ast.FunctionDef) and n.name in ("from_public", "public"):
            continue
        elif isinstance(n, ast.Expr) and isinstance(n.value, ast.Constant):
            continue
        else:
            raise Unsupported(f"unexpected member of InternalMethodName: {ast.unparse(n)[:60]}")
    if set(consts) != {"_PREFIX", "_SUFFIX"}:
        raise Unsupported(f"InternalMethodName constants {sorted(consts)}")
    return consts


def _check_hash_is_md5_hex():
    src = os.path.join(REPO, "mashumaro/core/meta/helpers.py")
    module = ast.parse(open(src).read())
    fn = find_function(module, "hash_type_args")
    body = [s for s in fn.body if not (isinstance(s, ast.Expr) and isinstance(s.value, ast.Constant))]
    if len(body) != 1 or ast.unparse(body[0]) != "return md5(','.join(map(type_name, type_args)).encode()).hexdigest()":
        raise Unsupported("hash_type_args is no longer md5(...).hexdigest(): " + ast.unparse(fn)[:200])
    ok = False
    for n in module.body:
        if isinstance(n, ast.ImportFrom) and n.module == "hashlib" and any(a.name == "md5" and a.asname is None for a in n.names):
            ok = True
    if not ok:
        raise Unsupported("md5 is not hashlib.md5")


def _mixin_format_names():
    """Every literal under a "format_name" key of a builder-params dict in mashumaro/mixins/*.py,
    with its role (packer / unpacker) and whether an encoder/decoder is given."""
    names = []
    d = os.path.join(REPO, "mashumaro/mixins")
    for f in sorted(os.listdir(d)):
        if not f.endswith(".py"):
            continue
        tree = ast.parse(open(os.path.join(d, f)).read())
        for node in ast.walk(tree):
            if isinstance(node, ast.Dict):
                for k, v in zip(node.keys, node.values):
                    if isinstance(k, ast.Constant) and k.value == "format_name":
                        if not (isinstance(v, ast.Constant) and isinstance(v.value, str)):
                            raise Unsupported(f"{f}: format_name is not a string literal")
                        names.append(v.value)
            if isinstance(node, ast.keyword) and node.arg == "format_name":
                raise Unsupported(f"{f}: format_name passed as keyword (not understood)")
    return sorted(set(names))


def _default_format_name(fn: ast.FunctionDef) -> str:
    args = fn.args
    pos = args.args
    defaults = args.defaults
    off = len(pos) - len(defaults)
    for i, a in enumerate(pos):
        if a.arg == "format_name":
            dv = defaults[i - off] if i >= off else None
            if isinstance(dv, ast.Constant) and isinstance(dv.value, str):
                return dv.value
    raise Unsupported("format_name has no string default")


def gen() -> str:
    src = os.path.join(REPO, "mashumaro/core/meta/code/builder.py")
    module = ast.parse(open(src).read())
    consts = _internal_method_name_consts(module)
    _check_hash_is_md5_hex()
    text = HEADER.format(src="mashumaro/core/meta/code/builder.py (InternalMethodName.from_public, "
                             "get_pack_method_name, get_unpack_method_name) + mashumaro/mixins/*.py (format names)")
    text += "From Verif Require Import PyK_names.\n\n"
    k0 = Kernel(func="InternalMethodName.from_public", coq_name="from_public", params=["v_value"],
                abstr={"cls._PREFIX": f"(KStr {coq_string(consts['_PREFIX'])})",
                       "cls._SUFFIX": f"(KStr {coq_string(consts['_SUFFIX'])})"})
    k0.cls_is_plain_str_subclass = True
    text += translate_kernel(src, k0, module, translator=NameTranslator) + "\n"
    dflt = set()
    for func, coq, codec in (("CodeBuilder.get_unpack_method_name", "get_unpack_method_name", "decoder"),
                             ("CodeBuilder.get_pack_method_name", "get_pack_method_name", "encoder")):
        fn = find_function(module, func)
        names = [a.arg for a in fn.args.args]
        if names != ["cls", "type_args", "format_name", codec] or fn.args.kwonlyargs or fn.args.vararg or fn.args.kwarg:
            raise Unsupported(f"{func}: signature {names}")
        if [ast.unparse(d) for d in fn.decorator_list] != ["classmethod"]:
            raise Unsupported(f"{func}: decorators")
        dflt.add(_default_format_name(fn))
        k = Kernel(func=func, coq_name=coq, params=["a_hash", "v_type_args", "v_format_name", f"v_{codec}"],
                   abstr={"hash_type_args(type_args)": "a_hash"})
        text += translate_kernel(src, k, module, translator=NameTranslator) + "\n"
    if len(dflt) != 1:
        raise Unsupported(f"different default format names {dflt}")
    text += f"Definition default_format_name : string := {coq_string(dflt.pop())}.\n"
    text += "Definition mixin_format_names : list string := [" + "; ".join(coq_string(n) for n in _mixin_format_names()) + "].\n"
    return text
