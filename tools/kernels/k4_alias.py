"""Kernel K4 (property C09): alias resolution and the key decisions of the generated
`from_dict`, translated from /repo/mashumaro/core/meta/code/builder.py on every run.

Three Gallina functions are emitted into coq/gen/K4.v:

  get_field_alias   <- CodeBuilder.__get_field_alias                  (whole function)
  key_plan          <- FieldUnpackerCodeBlockBuilder.build             (slice: the keys that the
                       emitted `d.get(...)` lines read, in order, as a function of the options)
  allowed_keys      <- CodeBuilder._add_unpack_method_lines            (slice: the set subtracted
                       from `set(d.keys())` under forbid_extra_keys)
  get_config        <- CodeBuilder.get_config                          (whole function; classes are objects with
                       an MRO of dictionaries, see PyK_alias.v)

The two slices are *structure checked*: the slicer recognises exactly the statement shapes it
knows (add_line of an f-string `X = d.get(<key>, MISSING)`, `with self.indent("if X is MISSING:")`,
assignments to packed_value/unpacked_value) and raises Unsupported for anything else, so a
rewrite of these places makes the kernel a stub and the dependent theorems fail closed.
The expressions (branch condition, key expressions, set construction) are translated, not
pattern matched.
"""
from __future__ import annotations

import ast
import os
import re
import sys

HERE = os.path.dirname(os.path.abspath(__file__))
sys.path.insert(0, os.path.dirname(HERE))
from py2gallina import (HEADER, FnTranslator, Kernel, Unsupported, coq_string,  # noqa: E402
                        find_function, translate_kernel)

NAME = "K4"
REPO = os.environ.get("VERIF_REPO", "/repo")
SRC_REL = "mashumaro/core/meta/code/builder.py"

# classes that may appear as second argument of isinstance, with the module they must be imported from
CLASSES = {"Alias": "mashumaro.types"}
# attributes of local objects that may be read (namespaces in the kernel universe)
ATTRS = {"name", "field"}


def names_loaded(stmts) -> set[str]:
    out = set()
    for s in stmts:
        for n in ast.walk(s):
            if isinstance(n, ast.Name):
                out.add(n.id)
    return out


class AliasTranslator(FnTranslator):
    """FnTranslator + tuples, attribute reads of locals, isinstance(x, <known class>),
    for-loops over a sequence with exactly one accumulator, set comprehension / .add / |=,
    and variables that live only inside one branch and are dead afterwards."""

    def __init__(self, kernel, module):
        super().__init__(kernel, module)
        self._rest: list = []

    # ---- expressions
    def expr(self, e):
        key = ast.unparse(e)
        if key in self.k.abstr:
            return [], self.k.abstr[key]
        if isinstance(e, ast.Tuple):
            pre, atoms = [], []
            for x in e.elts:
                if isinstance(x, ast.Starred):
                    raise Unsupported("starred tuple element")
                p, a = self.expr(x)
                pre += p
                atoms.append(a)
            return pre, "(KTuple [" + "; ".join(atoms) + "])"
        if isinstance(e, ast.Attribute) and isinstance(e.value, ast.Name) and e.value.id in self.locals:
            if e.attr not in ATTRS:
                raise Unsupported(f"attribute {key}")
            t = self.fresh()
            return [(t, f"k_getattr2 v_{e.value.id} (KStr {coq_string(e.attr)})")], t
        if isinstance(e, ast.SetComp):
            if len(e.generators) != 1:
                raise Unsupported("set comprehension with several generators")
            g = e.generators[0]
            if g.ifs or g.is_async or not isinstance(g.target, ast.Name):
                raise Unsupported("set comprehension with filter / pattern target")
            pi, it = self.expr(g.iter)
            nm = g.target.id
            if nm in self.locals:
                raise Unsupported(f"comprehension variable {nm} shadows a local")
            saved = set(self.locals)
            self.locals.add(nm)
            body = self.mexpr(e.elt)
            self.locals = saved
            t = self.fresh()
            return pi + [(t, f"k_setcomp {it} (fun v_{nm} => {body})")], t
        return super().expr(e)

    def call(self, e):
        f = ast.unparse(e.func)
        if f == "isinstance" and len(e.args) == 2 and not e.keywords:
            c = e.args[1]
            if not (isinstance(c, ast.Name) and c.id in CLASSES):
                raise Unsupported(f"isinstance against {ast.unparse(c)}")
            self.check_import(c.id, CLASSES[c.id])
            pre, a = self.expr(e.args[0])
            return pre, f"(KBool (k_isinstance {a} {coq_string(c.id)}))"
        return super().call(e)

    def check_import(self, name: str, mod: str):
        for n in self.module.body:
            if isinstance(n, ast.ImportFrom) and n.module == mod:
                for a in n.names:
                    if a.name == name and a.asname in (None, name):
                        return
        raise Unsupported(f"{name} is not imported from {mod}")

    # ---- statements
    def assigned(self, stmts):
        out = list(super().assigned(stmts))
        for s in stmts:
            for node in ast.walk(s):
                if (isinstance(node, ast.Call) and isinstance(node.func, ast.Attribute) and node.func.attr == "add"
                        and isinstance(node.func.value, ast.Name) and node.func.value.id not in out):
                    out.append(node.func.value.id)
        used_later = names_loaded(self._rest)
        # a variable first bound inside the branch and never mentioned afterwards is dead at the join
        return [w for w in out if w in self.locals or w in used_later]

    def unroll(self, stmts):
        out = []
        for s in stmts:
            if isinstance(s, ast.For) and not isinstance(s.iter, (ast.Tuple, ast.List)):
                if s.orelse:
                    raise Unsupported("for-else")
                for node in ast.walk(s):
                    if isinstance(node, (ast.Break, ast.Continue, ast.Return, ast.Raise)):
                        raise Unsupported("break/continue/return/raise inside a for loop")
                out.append(ast.For(target=s.target, iter=s.iter, body=self.unroll(s.body), orelse=[], lineno=s.lineno))
            elif isinstance(s, ast.If):
                out.append(ast.If(test=s.test, body=self.unroll(s.body), orelse=self.unroll(s.orelse)))
            else:
                out.extend(super().unroll([s]))
        return out

    def block(self, stmts, k):
        if not stmts:
            return super().block(stmts, k)
        s, rest = stmts[0], stmts[1:]
        if isinstance(s, ast.If):
            self._rest = list(rest)
            # a variable bound by a top-level assignment in *both* branches is bound after the join
            def top_assigned(ss):
                return {t.id for x in ss if isinstance(x, ast.Assign) for t in x.targets if isinstance(t, ast.Name)}
            if s.orelse and not self.always_exits(s.body) and not self.always_exits(s.orelse):
                for nm in top_assigned(s.body) & top_assigned(s.orelse):
                    self.locals.add(nm)
            return super().block(stmts, k)
        if isinstance(s, ast.For):
            if not isinstance(s.target, ast.Name):
                raise Unsupported("for with pattern target")
            tgt = s.target.id
            if tgt in self.locals:
                raise Unsupported(f"loop variable {tgt} shadows a local")
            if tgt in names_loaded(rest):
                raise Unsupported(f"loop variable {tgt} used after the loop")
            pi, it = self.expr(s.iter)
            self._rest = list(rest)
            accs = [w for w in self.assigned(s.body) if w != tgt]
            bound_in_body = [w for w in FnTranslator.assigned(self, s.body) if w not in self.locals and w != tgt]
            if set(bound_in_body) & names_loaded(rest):
                raise Unsupported("variable bound in a loop body and used after the loop")
            if len(accs) != 1 or accs[0] not in self.locals:
                raise Unsupported(f"for loop must update exactly one existing local, got {accs}")
            acc = accs[0]
            saved = set(self.locals)
            self.locals.add(tgt)
            body = self.block(list(s.body), f"Ok v_{acc}")
            self.locals = saved
            restc = self.block(rest, k)
            return self.wrap(pi, f"(v_{acc} <- k_for {it} (fun v_{tgt} v_{acc} => {body}) v_{acc} ;; {restc})")
        if isinstance(s, ast.AugAssign) and isinstance(s.op, ast.BitOr) and isinstance(s.target, ast.Name):
            nm = s.target.id
            if nm not in self.locals:
                raise Unsupported(f"|= on unknown {nm}")
            pre, a = self.expr(s.value)
            return self.wrap(pre, f"(v_{nm} <- k_set_union v_{nm} {a} ;; {self.block(rest, k)})")
        if (isinstance(s, ast.Expr) and isinstance(s.value, ast.Call) and isinstance(s.value.func, ast.Attribute)
                and s.value.func.attr == "add" and isinstance(s.value.func.value, ast.Name)
                and len(s.value.args) == 1 and not s.value.keywords):
            nm = s.value.func.value.id
            if nm not in self.locals:
                raise Unsupported(f".add on unknown {nm}")
            pre, a = self.expr(s.value.args[0])
            return self.wrap(pre, f"(v_{nm} <- k_set_add v_{nm} {a} ;; {self.block(rest, k)})")
        return super().block(stmts, k)


# ---------------------------------------------------------------------------
# slice 1: which keys the emitted d.get lines read
# ---------------------------------------------------------------------------

PH = "\x00%d\x01"


def render(js) -> tuple[str, list]:
    """f-string (or plain string) -> template text with placeholders + the formatted values."""
    if isinstance(js, ast.Constant) and isinstance(js.value, str):
        return js.value, []
    if not isinstance(js, ast.JoinedStr):
        raise Unsupported(f"not a string literal: {ast.unparse(js)}")
    txt, fvs = "", []
    for v in js.values:
        if isinstance(v, ast.Constant):
            txt += v.value
        elif isinstance(v, ast.FormattedValue):
            if v.format_spec is not None:
                raise Unsupported("format spec in f-string")
            txt += PH % len(fvs)
            fvs.append(v)
        else:
            raise Unsupported("f-string part")
    return txt, fvs


def show(txt: str, fvs) -> str:
    for i, v in enumerate(fvs):
        txt = txt.replace(PH % i, "{" + ast.unparse(v.value) + "}")
    return txt


def is_self_call(node, attr: str) -> bool:
    return (isinstance(node, ast.Call) and isinstance(node.func, ast.Attribute) and node.func.attr == attr
            and isinstance(node.func.value, ast.Name) and node.func.value.id == "self"
            and len(node.args) == 1 and not node.keywords)


READ_RE = re.compile(r"^(?P<var>[^=]+) = d\.get\((?P<key>.+), MISSING\)$", re.S)


def parse_read(call) -> tuple[str, ast.expr]:
    """self.add_line(f"<var> = d.get(<key>, MISSING)") -> (var text, key expression)."""
    txt, fvs = render(call.args[0])
    m = READ_RE.match(txt)
    if not m:
        raise Unsupported(f"emitted line is not a d.get read: {show(txt, fvs)!r}")
    var, key = m.group("var"), m.group("key")
    mk = re.fullmatch(r"\x00(\d+)\x01", key)
    if mk:
        fv = fvs[int(mk.group(1))]
        if fv.conversion != ord("r"):
            raise Unsupported("key spliced without !r")
        return show(var, fvs), fv.value
    mk = re.fullmatch(r"'\x00(\d+)\x01'", key)
    if mk:
        fv = fvs[int(mk.group(1))]
        # only the field name (a Python identifier, so quote-free) may be spliced between quotes
        if fv.conversion != -1 or ast.unparse(fv.value) != "fname":
            raise Unsupported("quoted splice of something else than fname")
        return show(var, fvs), fv.value
    raise Unsupported(f"key part not understood: {show(key, fvs)!r}")


def leaf_plan(stmts) -> list[ast.expr]:
    plan: list[ast.expr] = []
    var = None
    for st in stmts:
        if isinstance(st, ast.Expr) and is_self_call(st.value, "add_line"):
            if plan:
                raise Unsupported("second unconditional read in one leaf")
            var, key = parse_read(st.value)
            plan.append(key)
        elif isinstance(st, ast.With):
            if len(st.items) != 1 or st.items[0].optional_vars is not None or not is_self_call(st.items[0].context_expr, "indent"):
                raise Unsupported("with statement shape")
            txt, fvs = render(st.items[0].context_expr.args[0])
            if var is None or show(txt, fvs) != f"if {var} is MISSING:":
                raise Unsupported(f"guard of the fallback read: {show(txt, fvs)!r}")
            if len(st.body) != 1 or not (isinstance(st.body[0], ast.Expr) and is_self_call(st.body[0].value, "add_line")):
                raise Unsupported("fallback body")
            var2, key = parse_read(st.body[0].value)
            if var2 != var:
                raise Unsupported("fallback read assigns another variable")
            plan.append(key)
        elif (isinstance(st, ast.Assign) and len(st.targets) == 1 and isinstance(st.targets[0], ast.Name)
              and st.targets[0].id in ("packed_value", "unpacked_value")):
            continue
        else:
            raise Unsupported(f"statement in key-lookup leaf: {ast.unparse(st)[:80]}")
    if not plan:
        raise Unsupported("leaf without read")
    return plan


def leaves(stmts) -> list[list]:
    """if/elif/else chain on code-shape conditions -> the leaf statement lists."""
    if len(stmts) == 1 and isinstance(stmts[0], ast.If):
        s = stmts[0]
        t = ast.unparse(s.test)
        if t not in ("unpacked_value != 'value'", "has_default"):
            raise Unsupported(f"unexpected condition in key lookup: {t}")
        if not s.orelse:
            raise Unsupported("key lookup chain without else")
        return [s.body] + leaves(s.orelse)
    return [stmts]


def branch_plan(stmts) -> tuple[list[ast.stmt], list[ast.expr]]:
    """-> (leading assignments of fresh locals that the key expressions may use, keys read in order)."""
    stmts = list(stmts)
    prelude = []
    while (stmts and isinstance(stmts[0], ast.Assign) and len(stmts[0].targets) == 1
           and isinstance(stmts[0].targets[0], ast.Name)):
        nm = stmts[0].targets[0].id
        if nm in ("alias", "fname", "packed_value", "unpacked_value", "has_default", "d", "value"):
            raise Unsupported(f"key lookup branch reassigns {nm}")
        for n in ast.walk(stmts[0].value):
            if isinstance(n, ast.Name) and n.id not in ("alias", "fname") and n.id not in [a.targets[0].id for a in prelude]:
                raise Unsupported(f"key expression depends on {n.id}")
        prelude.append(stmts.pop(0))
    plans = [leaf_plan(l) for l in leaves(stmts)]
    dumps = {tuple(ast.dump(e) for e in p) for p in plans}
    if len(dumps) != 1:
        raise Unsupported("the code-shape variants of one branch read different keys")
    return prelude, plans[0]


ALLOW = "self.parent.get_config().allow_deserialization_not_by_alias"


def gen_key_plan(module) -> str:
    fn = find_function(module, "FieldUnpackerCodeBlockBuilder.build")
    cands = [s for s in fn.body if isinstance(s, ast.If) and "allow_deserialization_not_by_alias" in ast.unparse(s.test)]
    if len(cands) != 1:
        raise Unsupported("key lookup `if` not found exactly once in FieldUnpackerCodeBlockBuilder.build")
    s = cands[0]
    # no other statement of the function may emit a d.get line
    for other in fn.body:
        if other is s:
            continue
        for n in ast.walk(other):
            if isinstance(n, ast.Constant) and isinstance(n.value, str) and "d.get(" in n.value:
                raise Unsupported("a d.get read is emitted outside the key-lookup statement")
    # the names the expressions may mention are parameters of build(), not reassigned before
    idx = fn.body.index(s)
    for before in fn.body[:idx]:
        for n in ast.walk(before):
            if isinstance(n, ast.Name) and isinstance(n.ctx, ast.Store) and n.id in ("alias", "fname"):
                raise Unsupported("alias/fname reassigned before the key lookup")
    t_pre, t_plan = branch_plan(s.body)
    e_pre, e_plan = branch_plan(s.orelse)
    f = ast.FunctionDef(
        name="key_plan",
        args=ast.arguments(posonlyargs=[], args=[ast.arg("alias"), ast.arg("fname")], kwonlyargs=[], kw_defaults=[], defaults=[]),
        body=[ast.If(test=s.test,
                     body=t_pre + [ast.Return(value=ast.Tuple(elts=t_plan, ctx=ast.Load()))],
                     orelse=e_pre + [ast.Return(value=ast.Tuple(elts=e_plan, ctx=ast.Load()))])],
        decorator_list=[], lineno=1)
    ast.fix_missing_locations(f)
    mod2 = ast.Module(body=list(module.body[:0]) + [f], type_ignores=[])
    k = Kernel(func="key_plan", coq_name="key_plan", params=["a_allow", "v_alias", "v_fname"], abstr={ALLOW: "a_allow"})
    return translate_kernel("", k, mod2, translator=AliasTranslator)


# ---------------------------------------------------------------------------
# slice 2: the allowed key set of forbid_extra_keys
# ---------------------------------------------------------------------------

def gen_allowed_keys(module) -> str:
    fn = find_function(module, "CodeBuilder._add_unpack_method_lines")
    hits = []
    for n in ast.walk(fn):
        if isinstance(n, ast.If) and ast.unparse(n.test) == "config.forbid_extra_keys" and n.body \
                and ast.unparse(n.body[0]).startswith("allowed_keys = "):
            hits.append(n)
    if len(hits) != 1:
        raise Unsupported("allowed_keys construction not found exactly once")
    body = list(hits[0].body)
    if hits[0].orelse:
        raise Unsupported("allowed_keys `if` has an else")
    # the last two statements render the set: a literal `{k1, k2}` of repr'd keys, or `set()` when empty
    tail = [ast.unparse(b) for b in body[-2:]]
    if tail != ["allowed_keys_str = ', '.join(map(repr, allowed_keys))",
                "allowed_keys_str = f'{{{allowed_keys_str}}}' if allowed_keys else 'set()'"]:
        raise Unsupported(f"rendering of allowed_keys changed: {tail}")
    body = body[:-2]
    for b in body:
        if "allowed_keys_str" in ast.unparse(b):
            raise Unsupported("allowed_keys_str used inside the set construction")
    src_txt = ast.unparse(fn)
    # what the set is built from, and how it is used (text checks, fail closed)
    need = [
        "alias = self.__get_field_alias(fname, ftype, metadata, config)",
        "filtered_fields.append((fname, alias, ftype))",
        "if config.forbid_extra_keys:\n",
        "with self.indent('try:'):",
        "if config.forbid_extra_keys:\n",
        "self.add_line('d_keys = set(d.keys())')",
        "self.add_line(f'forbidden_keys = d_keys - {allowed_keys_str}')",
        "with self.indent('if forbidden_keys:'):",
        "self.add_line('raise ExtraKeysError(forbidden_keys,cls) from None')",
        "for fname, alias, ftype in filtered_fields:",
        "build(fname=fname, ftype=ftype, metadata=metadata, alias=alias)",
    ]
    pos = -1
    for t in need:
        p = src_txt.find(t, pos + 1)
        if p < 0:
            raise Unsupported(f"expected statement not found (in order): {t.strip()}")
        pos = p
    if src_txt.count("allowed_keys_str") != 4 or src_txt.count("forbidden_keys") != 3:
        raise Unsupported("allowed_keys_str / forbidden_keys used in an unexpected way")
    # the check is emitted under `if config.forbid_extra_keys:` only, for every class (also one without fields)
    if src_txt.count("if config.forbid_extra_keys:") != 2 or "if filtered_fields:" in src_txt:
        raise Unsupported("forbid_extra_keys guard structure changed")
    f = ast.FunctionDef(
        name="allowed_keys",
        args=ast.arguments(posonlyargs=[], args=[ast.arg("filtered_fields")], kwonlyargs=[], kw_defaults=[], defaults=[]),
        body=body + [ast.Return(value=ast.Name(id="allowed_keys", ctx=ast.Load()))],
        decorator_list=[], lineno=1)
    ast.fix_missing_locations(f)
    mod2 = ast.Module(body=[f], type_ignores=[])
    k = Kernel(func="allowed_keys", coq_name="allowed_keys",
               params=["a_discr", "a_allow", "v_filtered_fields"],
               abstr={"self.get_discriminator(look_in_parents=True)": "a_discr",
                      "config.allow_deserialization_not_by_alias": "a_allow"})
    return translate_kernel("", k, mod2, translator=AliasTranslator)


def gen_get_field_alias(src, module) -> str:
    fn = find_function(module, "CodeBuilder.__get_field_alias")
    if [a.arg for a in fn.args.args] != ["fname", "ftype", "metadata", "config"]:
        raise Unsupported("signature of __get_field_alias changed")
    if not any(ast.unparse(d) == "staticmethod" for d in fn.decorator_list):
        raise Unsupported("__get_field_alias is not a staticmethod")
    k = Kernel(func="CodeBuilder.__get_field_alias", coq_name="get_field_alias",
               params=["v_fname", "v_metadata", "a_is_annotated", "a_annotations", "a_cfg_aliases"],
               abstr={"is_annotated(ftype)": "a_is_annotated",
                      "get_type_annotations(ftype)": "a_annotations",
                      "config.aliases": "a_cfg_aliases"})
    return translate_kernel(src, k, module, translator=AliasTranslator)


# ---------------------------------------------------------------------------
# CodeBuilder.get_config: which Config class the builder works with
# ---------------------------------------------------------------------------

class ConfigTranslator(AliasTranslator):
    """+ class objects: getattr(cls, name, default) walks the MRO, cls.__dict__, issubclass, type(name, bases, {})"""

    def expr(self, e):
        key = ast.unparse(e)
        if key in self.k.abstr:
            return [], self.k.abstr[key]
        if isinstance(e, ast.Attribute) and e.attr == "__dict__" and isinstance(e.value, ast.Name) and e.value.id in self.locals:
            t = self.fresh()
            return [(t, f'k_getattr2 v_{e.value.id} (KStr "__dict__")')], t
        if isinstance(e, ast.Dict):
            if e.keys:
                raise Unsupported("non-empty dict literal")
            return [], "(KDict [])"
        return super().expr(e)

    def call(self, e):
        f = ast.unparse(e.func)
        if f == "getattr" and len(e.args) == 3 and not e.keywords:
            p1, a = self.expr(e.args[0]); p2, b = self.expr(e.args[1]); p3, c = self.expr(e.args[2])
            return p1 + p2 + p3, f"(k_cls_getattr {a} {b} {c})"
        if f == "issubclass" and len(e.args) == 2 and not e.keywords:
            p1, a = self.expr(e.args[0]); p2, b = self.expr(e.args[1])
            return p1 + p2, f"(KBool (k_issubclass {a} {b}))"
        if f == "type" and len(e.args) == 3 and not e.keywords:
            p1, a = self.expr(e.args[0]); p2, b = self.expr(e.args[1]); p3, c = self.expr(e.args[2])
            t = self.fresh()
            return p1 + p2 + p3 + [(t, f"k_type3 {a} {b} {c}")], t
        return super().call(e)


def gen_get_config(src, module) -> str:
    fn = find_function(module, "CodeBuilder.get_config")
    if [a.arg for a in fn.args.args] != ["self", "cls", "look_in_parents"]:
        raise Unsupported("signature of get_config changed")
    k = Kernel(func="CodeBuilder.get_config", coq_name="get_config",
               params=["a_self_cls", "a_BaseConfig", "v_cls", "v_look_in_parents"],
               abstr={"self.cls": "a_self_cls", "BaseConfig": "a_BaseConfig"})
    return translate_kernel(src, k, module, translator=ConfigTranslator)


def gen() -> str:
    src = os.path.join(REPO, SRC_REL)
    module = ast.parse(open(src).read())
    text = HEADER.format(src=SRC_REL + " (__get_field_alias; key lookup of FieldUnpackerCodeBlockBuilder.build; "
                                       "allowed keys of forbid_extra_keys)")
    text += "From Verif Require Import PyK_alias.\n\n"
    text += gen_get_field_alias(src, module) + "\n"
    text += gen_key_plan(module) + "\n"
    text += gen_allowed_keys(module) + "\n"
    text += gen_get_config(src, module)
    return text


if __name__ == "__main__":
    print(gen())
