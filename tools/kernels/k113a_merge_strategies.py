"""Kernel K113a (property C13): the two strategy-map loops of `Dialect.merge` (mashumaro/dialect.py),
translated to Gallina on every run.

    serialization_strategy = {}
    for key, value in cls.serialization_strategy.items():      -> merge_strat_step1 (acc, key, value)
        <body 1>
    for key, value in other.serialization_strategy.items():    -> merge_strat_step2 (acc, key, value)
        <body 2>
    ...
    new_dialect.serialization_strategy = serialization_strategy

Each loop body becomes a function of (accumulated dict, key, value) that returns the accumulated dict; the
loops are folds over the items of the two maps in insertion order (PyK_dictops.k_fold_items).  Supported in
a body (everything else: Unsupported, the kernel becomes a stub and the theorems over it fail):

    if / elif / else
    isinstance(<expr>, SerializationStrategy)
    serialization_strategy[key] = <expr>                          (k_dict_set)
    serialization_strategy.get(key)                               (k_dict_get)
    value.copy()                                                  (k_dict_copy)
    serialization_strategy.setdefault(key, {}).update(value)      (k_dict_setdefault_update)

The model is functional, so it cannot see aliasing.  The only in-place mutation is the `.update` of loop 2 on an
entry stored by loop 1; the translator therefore insists that loop 1 stores a dict value only as `value.copy()`
(a bare `value` is accepted only under `isinstance(value, SerializationStrategy)`): otherwise merge would write
into the dict of `cls` and the functional reading would be wrong -- fail closed.
"""
from __future__ import annotations

import ast
import os
import sys

HERE = os.path.dirname(os.path.abspath(__file__))
sys.path.insert(0, os.path.dirname(HERE))
from py2gallina import HEADER, FnTranslator, Kernel, Unsupported, find_function  # noqa: E402

NAME = "K113a"
REPO = os.environ.get("VERIF_REPO", "/repo")
ACC = "serialization_strategy"


def is_setdefault_update(call: ast.AST) -> bool:
    return (isinstance(call, ast.Call) and isinstance(call.func, ast.Attribute) and call.func.attr == "update"
            and len(call.args) == 1 and not call.keywords
            and isinstance(call.func.value, ast.Call) and isinstance(call.func.value.func, ast.Attribute)
            and call.func.value.func.attr == "setdefault" and isinstance(call.func.value.func.value, ast.Name)
            and call.func.value.func.value.id == ACC and len(call.func.value.args) == 2 and not call.func.value.keywords
            and isinstance(call.func.value.args[1], ast.Dict) and not call.func.value.args[1].keys)


class StepTranslator(FnTranslator):
    def call(self, e: ast.Call):
        f = ast.unparse(e.func)
        if f == "isinstance" and len(e.args) == 2 and not e.keywords and ast.unparse(e.args[1]) == "SerializationStrategy":
            pre, a = self.expr(e.args[0])
            return pre, f"(KBool (k_isinstance_strategy {a}))"
        if f.endswith(".copy") and not e.args and not e.keywords:
            pre, a = self.expr(e.func.value)
            t = self.fresh()
            return pre + [(t, f"k_dict_copy {a}")], t
        return super().call(e)

    def assigned(self, stmts):
        out = super().assigned(stmts)
        for s in stmts:
            for node in ast.walk(s):
                if isinstance(node, ast.Assign):
                    for t in node.targets:
                        if isinstance(t, ast.Subscript) and isinstance(t.value, ast.Name) and t.value.id not in out:
                            out.append(t.value.id)
                if is_setdefault_update(node) and ACC not in out:
                    out.append(ACC)
        return out

    def block(self, stmts, k):
        if stmts:
            s, rest = stmts[0], stmts[1:]
            if (isinstance(s, ast.Assign) and len(s.targets) == 1 and isinstance(s.targets[0], ast.Subscript)
                    and isinstance(s.targets[0].value, ast.Name) and s.targets[0].value.id == ACC):
                pk, key = self.expr(s.targets[0].slice)
                pv, val = self.expr(s.value)
                return self.wrap(pk + pv + [(f"v_{ACC}", f"k_dict_set v_{ACC} {key} {val}")], self.block(rest, k))
            if isinstance(s, ast.Expr) and is_setdefault_update(s.value):
                pk, key = self.expr(s.value.func.value.args[0])
                pv, val = self.expr(s.value.args[0])
                return self.wrap(pk + pv + [(f"v_{ACC}", f"k_dict_setdefault_update v_{ACC} {key} {val}")], self.block(rest, k))
        return super().block(stmts, k)


def check_copies(stmts, guarded: bool):
    """Loop 1: a bare `value` may be stored only where it is known to be a SerializationStrategy."""
    for s in stmts:
        if isinstance(s, ast.If):
            test_guards = ast.unparse(s.test) == "isinstance(value, SerializationStrategy)"
            check_copies(s.body, guarded or test_guards)
            check_copies(s.orelse, guarded)
        elif isinstance(s, ast.Assign) and isinstance(s.targets[0], ast.Subscript):
            v = ast.unparse(s.value)
            if v == "value" and not guarded:
                raise Unsupported("loop 1 stores a dict of cls without .copy(): loop 2 would update it in place (aliasing)")
            if v not in ("value", "value.copy()"):
                raise Unsupported(f"loop 1 stores {v}")
        elif isinstance(s, ast.Expr) and isinstance(s.value, ast.Constant):
            continue
        else:
            raise Unsupported(f"loop 1: statement {ast.unparse(s)[:60]}")


def step(module, body, name: str) -> str:
    ret = ast.Return(value=ast.Name(id=ACC, ctx=ast.Load()))
    fn = ast.FunctionDef(name=name, args=ast.arguments(posonlyargs=[], args=[], kwonlyargs=[], kw_defaults=[], defaults=[]),
                         body=list(body) + [ret], decorator_list=[], lineno=1)
    ast.fix_missing_locations(fn)
    k = Kernel(func=name, coq_name=name, params=[f"v_{ACC}", "v_key", "v_value"])
    tr = StepTranslator(k, module)
    tr.locals |= {ACC, "key", "value"}
    return tr.translate(fn)


def gen() -> str:
    src = os.path.join(REPO, "mashumaro/dialect.py")
    module = ast.parse(open(src).read())
    fn = find_function(module, "Dialect.merge")
    argnames = [a.arg for a in fn.args.args]
    if argnames != ["cls", "other"]:
        raise Unsupported(f"Dialect.merge parameters {argnames}")
    body = [s for s in fn.body if not (isinstance(s, ast.Expr) and isinstance(s.value, ast.Constant))]
    if len(body) < 4:
        raise Unsupported("Dialect.merge: unexpected shape")
    init, l1, l2 = body[0], body[1], body[2]
    if not (isinstance(init, (ast.AnnAssign, ast.Assign)) and isinstance(init.value, ast.Dict) and not init.value.keys
            and ast.unparse(init.target if isinstance(init, ast.AnnAssign) else init.targets[0]) == ACC):
        raise Unsupported("Dialect.merge does not start with `serialization_strategy = {}`")
    for loop, owner in ((l1, "cls"), (l2, "other")):
        if not (isinstance(loop, ast.For) and not loop.orelse and ast.unparse(loop.target) in ("key, value", "(key, value)")
                and ast.unparse(loop.iter) == f"{owner}.serialization_strategy.items()"):
            raise Unsupported(f"Dialect.merge: expected `for key, value in {owner}.serialization_strategy.items():`")
        for node in ast.walk(loop):
            if isinstance(node, (ast.Break, ast.Continue, ast.Return, ast.Raise)):
                raise Unsupported("break/continue/return/raise inside a strategy loop")
    check_copies(l1.body, False)
    # after the loops the accumulated dict is only assigned to the new dialect, and nothing else touches the maps
    uses = []
    for s in body[3:]:
        for node in ast.walk(s):
            if isinstance(node, ast.Name) and node.id == ACC:
                uses.append(ast.unparse(s))
            if isinstance(node, ast.Attribute) and node.attr == ACC and ast.unparse(s) != f"new_dialect.{ACC} = {ACC}":
                raise Unsupported(f"strategy map touched after the loops: {ast.unparse(s)[:80]}")
    if uses != [f"new_dialect.{ACC} = {ACC}"]:
        raise Unsupported(f"accumulated strategy map used after the loops in {uses}")
    text = HEADER.format(src="mashumaro/dialect.py (Dialect.merge, the two strategy-map loops)")
    text += "From Verif Require Import PyK_strat PyK_dictops.\n\n"
    text += step(module, l1.body, "merge_strat_step1") + "\n"
    text += step(module, l2.body, "merge_strat_step2") + "\n"
    text += ("(* the loops: folds over the items of cls.serialization_strategy, then other.serialization_strategy *)\n"
             "Definition merge_strategy_maps (cls_map other_map: kv) : res kv :=\n"
             "  match cls_map, other_map with\n"
             "  | KDict a, KDict b => (acc <- k_fold_items merge_strat_step1 a (KDict []) ;; k_fold_items merge_strat_step2 b acc)\n"
             "  | _, _ => Raise AttributeError\n"
             "  end.\n")
    return text


if __name__ == "__main__":
    print(gen())
