"""Kernel K44 (property C17): how the code generator refers to a TYPE in the text it generates.

Two parts, both regenerated from /repo on every run (fail closed):

1. `CodeBuilder.get_type_name_identifier` (mashumaro/core/meta/code/builder.py) and
   `is_local_type_name` (mashumaro/core/meta/helpers.py), hand-translated after CHECKING that their bodies are
   exactly the expected ones (anything else: Unsupported -> stub -> the dependent theorems fail closed):

       def is_local_type_name(typ_name): return "<locals>" in typ_name
       def get_type_name_identifier(self, typ, resolved_type_params=None):
           field_type = type_name(typ, resolved_type_params=resolved_type_params)
           if is_local_type_name(field_type):
               field_type = clean_id(field_type)
               self.ensure_object_imported(typ, field_type)
           return field_type

   The translation takes the rendering `type_name(typ, ..)` as its input (Render.v models that function) and
   returns the text pasted into the generated code + the alias under which the object is registered (if any).
   The marker string is read from the source.  clean_id is kernel K42.

2. The table of TYPE REFERENCE SITES: every call of `type_name(..)` and of `<builder>.get_type_name_identifier(..)`
   in the generator modules, classified by what happens to the result (by the shape of the AST around the call):

     FIdentBody   the one call inside get_type_name_identifier itself
     FIdentCall   a call of get_type_name_identifier (result = identifier reference, part 1)
     FClean       clean_id(type_name(..)): an identifier (K42), used as alias / part of an attribute name
     FBuildMsg    inside a `raise` statement of the generator (message of a build-time exception, not generated code)
     FDebugPrint  inside print(..) (debug output of the generated code)
     FRepr        inside an f-string bound to a variable that is spliced only through `!r` (a quoted literal
                  of the generated code: C16's business)
     FQuoted      inside a statically single-quoted part of the generated line ('Argument for <name>.from_dict method ..')
     FRaw a       pasted into generated code as it is; `a` says what the argument is:
                    ALibCallable    self.encoder / self.decoder (set by the library's mixins / codecs)
                    ADialect        self.default_dialect (a user class: known finding local-class-in-lazy-stub)
                    AConstClass     an attribute of a module imported by the generator module (pathlib.PurePath)
                    ABuiltinNumber  spec.origin_type under the guard `spec.origin_type in (int, float)`
                    ATypeArgs       map(type_name, <type arguments of the annotation>) (none left since the
                                    GenericSerializableType fix)
                    AOther          anything else  (a schema type pasted without going through the identifier)

The Coq side (theories/K44Proofs.v, props/C17_typeref.v) proves over this table that no schema type is pasted
raw (except the stated ADialect sites) and that the defaultdict factory of unpack_collection is an FIdentCall."""
from __future__ import annotations

import ast
import os
import sys

HERE = os.path.dirname(os.path.abspath(__file__))
sys.path.insert(0, os.path.dirname(HERE))
from py2gallina import Unsupported  # noqa: E402

NAME = "K44"
REPO = os.environ.get("VERIF_REPO", "/repo")
FILES = [
    "mashumaro/core/meta/code/builder.py",
    "mashumaro/core/meta/types/pack.py",
    "mashumaro/core/meta/types/unpack.py",
    "mashumaro/core/meta/types/common.py",
    "mashumaro/codecs/_builder.py",
]
HELPERS = "mashumaro/core/meta/helpers.py"

EXPECTED_IDENT = '''
def get_type_name_identifier(self, typ: typing.Optional[typing.Type], resolved_type_params: typing.Optional[dict[typing.Type, typing.Type]] = None) -> str:
    field_type = type_name(typ, resolved_type_params=resolved_type_params)
    if is_local_type_name(field_type):
        field_type = clean_id(field_type)
        self.ensure_object_imported(typ, field_type)
    return field_type
'''


def _coq_str(s: str) -> str:
    return '"' + s.replace('"', '""') + '"'


def _find_def(tree: ast.AST, name: str):
    for n in ast.walk(tree):
        if isinstance(n, ast.FunctionDef) and n.name == name:
            return n
    return None


def _marker() -> str:
    tree = ast.parse(open(os.path.join(REPO, HELPERS)).read())
    fn = _find_def(tree, "is_local_type_name")
    if fn is None:
        raise Unsupported("is_local_type_name not found")
    if len(fn.args.args) != 1 or len(fn.body) != 1 or not isinstance(fn.body[0], ast.Return):
        raise Unsupported("is_local_type_name: body changed")
    v = fn.body[0].value
    p = fn.args.args[0].arg
    if not (isinstance(v, ast.Compare) and len(v.ops) == 1 and isinstance(v.ops[0], ast.In) and isinstance(v.left, ast.Constant)
            and isinstance(v.left.value, str) and v.left.value and isinstance(v.comparators[0], ast.Name) and v.comparators[0].id == p):
        raise Unsupported("is_local_type_name is not `return <str literal> in <parameter>`")
    return v.left.value


def _imported_modules(tree: ast.Module) -> set[str]:
    out = set()
    for n in tree.body:
        if isinstance(n, ast.Import):
            for a in n.names:
                out.add((a.asname or a.name).split(".")[0])
    return out


def _classify(call: ast.Call, parents: dict, func: ast.FunctionDef | None, mods: set[str]):
    """-> (form, argkind or None)"""
    chain = []
    n = call
    while n in parents:
        n = parents[n]
        chain.append(n)
    if func is not None and func.name == "get_type_name_identifier":
        return "FIdentBody", None
    par = chain[0] if chain else None
    if isinstance(par, ast.Call) and isinstance(par.func, ast.Name) and par.func.id == "clean_id" and par.args == [call] and not par.keywords:
        return "FClean", None
    for a in chain:
        if isinstance(a, ast.Raise):
            return "FBuildMsg", None
        if isinstance(a, ast.Call) and isinstance(a.func, ast.Name) and a.func.id == "print":
            return "FDebugPrint", None
        if isinstance(a, (ast.FunctionDef, ast.AsyncFunctionDef, ast.Lambda)):
            break
    # f-string bound to one variable that is only ever spliced through !r
    for i, a in enumerate(chain):
        if isinstance(a, ast.Assign):
            if (len(a.targets) == 1 and isinstance(a.targets[0], ast.Name) and isinstance(a.value, ast.JoinedStr) and func is not None):
                var = a.targets[0].id
                loads = [x for x in ast.walk(func) if isinstance(x, ast.Name) and x.id == var and isinstance(x.ctx, ast.Load)]
                stores = [x for x in ast.walk(func) if isinstance(x, ast.Name) and x.id == var and isinstance(x.ctx, ast.Store)]
                ok = bool(loads) and len(stores) == 1
                for x in loads:
                    p = parents.get(x)
                    if not (isinstance(p, ast.FormattedValue) and p.value is x and p.conversion == ord("r")):
                        ok = False
                if ok:
                    return "FRepr", None
            break
        if isinstance(a, ast.stmt):
            break
    # inside a statically quoted part of the generated text: the constant text of the f-string in front of the value
    # opens a single quote (odd number of ') that the constant text after it closes; no other quote characters around
    if isinstance(par, ast.FormattedValue) and par.value is call and par.conversion == -1 and par.format_spec is None:
        js = parents.get(par)
        if isinstance(js, ast.JoinedStr) and all(isinstance(v, (ast.Constant, ast.FormattedValue)) for v in js.values):
            i = js.values.index(par)
            before = "".join(v.value for v in js.values[:i] if isinstance(v, ast.Constant))
            after = "".join(v.value for v in js.values[i + 1:] if isinstance(v, ast.Constant))
            if (before.count("'") % 2 == 1 and after.count("'") % 2 == 1 and '"' not in before + after and "\\" not in before + after):
                return "FQuoted", None
    # raw
    if len(call.args) < 1:
        return "FRaw", "AOther"
    arg = ast.unparse(call.args[0])
    if arg in ("self.encoder", "self.decoder"):
        return "FRaw", "ALibCallable"
    if arg == "self.default_dialect":
        return "FRaw", "ADialect"
    a0 = call.args[0]
    if isinstance(a0, ast.Attribute) and isinstance(a0.value, ast.Name) and a0.value.id in mods and a0.value.id not in ("spec", "self"):
        return "FRaw", "AConstClass"
    if arg == "spec.origin_type":
        for a in chain:
            if isinstance(a, ast.If) and ast.unparse(a.test) == "spec.origin_type in (int, float)":
                # the call must sit in the body of that `if`, not in its else part
                inside = any(call in list(ast.walk(s)) for s in a.body)
                if inside:
                    return "FRaw", "ABuiltinNumber"
            if isinstance(a, (ast.FunctionDef, ast.AsyncFunctionDef)):
                break
    return "FRaw", "AOther"


def scan() -> list[dict]:
    rows = []
    for rel in FILES:
        path = os.path.join(REPO, rel)
        tree = ast.parse(open(path).read())
        mods = _imported_modules(tree)
        parents = {}
        for n in ast.walk(tree):
            for c in ast.iter_child_nodes(n):
                parents[c] = n

        def enclosing(n):
            while n in parents:
                n = parents[n]
                if isinstance(n, (ast.FunctionDef, ast.AsyncFunctionDef)):
                    return n
            return None
        for n in ast.walk(tree):
            if not isinstance(n, ast.Call):
                continue
            f = n.func
            if isinstance(f, ast.Name) and f.id == "type_name":
                fn = enclosing(n)
                form, kind = _classify(n, parents, fn, mods)
            elif isinstance(f, ast.Attribute) and f.attr == "get_type_name_identifier":
                fn = enclosing(n)
                form, kind = "FIdentCall", None
            elif isinstance(f, ast.Attribute) and f.attr == "type_name":
                raise Unsupported(f"{rel}:{n.lineno}: type_name reached through an attribute")
            elif (isinstance(f, ast.Name) and f.id == "map" and len(n.args) == 2 and not n.keywords
                  and isinstance(n.args[0], ast.Name) and n.args[0].id == "type_name"):
                # map(type_name, <sequence of schema types>): every element rendered and pasted
                fn = enclosing(n)
                form, kind = _classify(n, parents, fn, mods)
                if form == "FRaw":
                    kind = "ATypeArgs"
                rows.append({"file": rel, "line": n.lineno, "col": n.col_offset, "func": fn.name if fn is not None else "<module>",
                             "form": form, "kind": kind, "arg": "*" + ast.unparse(n.args[1])})
                continue
            elif (isinstance(f, ast.Name) and f.id == "map" and len(n.args) == 2 and not n.keywords
                  and isinstance(n.args[0], ast.Attribute) and n.args[0].attr == "get_type_name_identifier"):
                fn = enclosing(n)
                rows.append({"file": rel, "line": n.lineno, "col": n.col_offset, "func": fn.name if fn is not None else "<module>",
                             "form": "FIdentCall", "kind": None, "arg": "*" + ast.unparse(n.args[1])})
                continue
            else:
                continue
            rows.append({"file": rel, "line": n.lineno, "col": n.col_offset, "func": fn.name if fn is not None else "<module>",
                         "form": form, "kind": kind, "arg": ast.unparse(n.args[0]) if n.args else ""})
        # the names must not be re-bound / aliased in a generator module (the scan goes by name)
        for n in ast.walk(tree):
            if isinstance(n, (ast.Assign, ast.AnnAssign, ast.AugAssign)):
                tg = n.targets if isinstance(n, ast.Assign) else [n.target]
                for t in tg:
                    if isinstance(t, ast.Name) and t.id in ("type_name", "clean_id", "is_local_type_name"):
                        raise Unsupported(f"{rel}:{n.lineno}: {t.id} re-bound")
            if isinstance(n, ast.ImportFrom):
                for a in n.names:
                    if a.name in ("type_name", "clean_id", "is_local_type_name") and a.asname not in (None, a.name):
                        raise Unsupported(f"{rel}:{n.lineno}: {a.name} imported under another name")
            if isinstance(n, ast.Name) and n.id == "type_name" and isinstance(n.ctx, ast.Load):
                p = parents.get(n)
                is_map = (isinstance(p, ast.Call) and isinstance(p.func, ast.Name) and p.func.id == "map" and len(p.args) == 2
                          and p.args[0] is n and not p.keywords)
                if not (isinstance(p, ast.Call) and p.func is n) and not is_map:
                    raise Unsupported(f"{rel}:{n.lineno}: type_name used as a value (neither called nor mapped)")
    rows.sort(key=lambda r: (FILES.index(r["file"]), r["line"], r["col"]))
    return rows


def gen() -> str:
    marker = _marker()
    tree = ast.parse(open(os.path.join(REPO, FILES[0])).read())
    fn = _find_def(tree, "get_type_name_identifier")
    if fn is None:
        raise Unsupported("get_type_name_identifier not found")
    want = ast.parse(EXPECTED_IDENT).body[0]
    if ast.dump(fn, include_attributes=False) != ast.dump(want, include_attributes=False):
        raise Unsupported("the body of get_type_name_identifier changed")
    rows = scan()
    if not any(r["form"] == "FIdentBody" for r in rows):
        raise Unsupported("no type_name call inside get_type_name_identifier")

    def site(r):
        form = r["form"] if r["form"] != "FRaw" else f"(FRaw {r['kind']})"
        return f"mkSite {_coq_str(r['file'])} {r['line']} {_coq_str(r['func'])} {form} {_coq_str(r['arg'])}"

    mk = "[" + "; ".join(str(ord(c)) for c in marker) + "]"
    table = ";\n  ".join(site(r) for r in rows)
    return f"""(* GENERATED by tools/kernels/k44_type_ident.py from {FILES[0]}, {HELPERS} and the generator modules: do not edit. *)
From Coq Require Import List NArith Bool String.
From VerifGen Require Import K42.
Import ListNotations.
Open Scope N_scope.

(* ---- is_local_type_name: {marker!r} in typ_name *)
Definition locals_marker : list N := {mk}.

Fixpoint prefix (p s : list N) : bool :=
  match p, s with
  | [], _ => true
  | a :: p', b :: s' => N.eqb a b && prefix p' s'
  | _ :: _, [] => false
  end.

Fixpoint contains (p s : list N) : bool :=
  prefix p s || match s with [] => false | _ :: r => contains p r end.

Definition is_local_type_name (s : list N) : bool := contains locals_marker s.

(* ---- get_type_name_identifier, as a function of the rendering r = type_name(typ, ..):
        (text pasted into the generated code, alias under which typ is registered by ensure_object_imported) *)
Definition type_ident (r : list N) : list N * option (list N) :=
  if is_local_type_name r then (clean_id r, Some (clean_id r)) else (r, None).

(* ---- type reference sites of the generator modules *)
Inductive argkind := ALibCallable | ADialect | AConstClass | ABuiltinNumber | ATypeArgs | AOther.
Inductive form := FIdentBody | FIdentCall | FClean | FBuildMsg | FDebugPrint | FRepr | FQuoted | FRaw (a : argkind).
Record site := mkSite {{ s_file : string; s_line : N; s_func : string; s_form : form; s_arg : string }}.

Definition sites : list site := [
  {table}
].
"""


if __name__ == "__main__":
    for r in scan():
        print(r["file"].split("/")[-1], r["line"], r["func"], r["form"], r["kind"] or "", "|", r["arg"])
