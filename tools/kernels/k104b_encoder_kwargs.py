"""K104b (C04): how the generated to_<format> methods hand the ENCODER KEYWORDS (orjson: option=orjson_options,
resolved from Config) to the encoder - read from mashumaro/core/meta/code/builder.py:

* `_add_pack_method_lines` (no call-time dialect) and `_add_pack_method_with_dialect_lines` (call-time `dialect=`):
  the decision tree that chooses `return_statement` over the two facts "an encoder is baked in" / "it has keyword
  parameters", and that every emitted `return` line of the function goes through `return_statement.format(..)`;
* `get_pack_method_default_flag_values`: with an encoder, the method gets the parameter `encoder` and one keyword
  parameter per encoder keyword (name value[0], default value[1]);
* `_get_encoder_kwargs`: a ConfigValue default is resolved with getattr(config, name).

Fail closed: any other shape of these statements raises Unsupported.  Vocabulary: coq/theories/EncKwargs.v."""
from __future__ import annotations

import ast
import os
import re
import sys

HERE = os.path.dirname(os.path.abspath(__file__))
sys.path.insert(0, os.path.dirname(HERE))
from py2gallina import Unsupported, find_function  # noqa: E402

NAME = "K104b"
REPO = os.environ.get("VERIF_REPO", "/repo")

LEAVES = {
    "'return {}'": "RPlain",
    "'return encoder({})'": "REnc",
    "f'return encoder({{}}, {encoder_options})'": "REncOpts",
}
OPTIONS_JOIN = "encoder_options = ', '.join((f'{k}={v[0]}' for k, v in self.encoder_kwargs.items()))"
CONDS = {"self.encoder is not None": "has_encoder", "self.encoder_kwargs": "has_kwargs"}


def decision(stmts: list[ast.stmt], fn: str, have_options: bool = False) -> str:
    """Gallina expression for the value of return_statement after executing stmts (which must assign it on every path)"""
    out = None
    for st in stmts:
        src = ast.unparse(st)
        if isinstance(st, ast.Assign) and len(st.targets) == 1 and isinstance(st.targets[0], ast.Name):
            tgt = st.targets[0].id
            if tgt == "encoder_options":
                if src != OPTIONS_JOIN:
                    raise Unsupported(f"{fn}: {src[:100]!r}")
                have_options = True
                continue
            if tgt == "return_statement":
                leaf = ast.unparse(st.value)
                if leaf not in LEAVES:
                    raise Unsupported(f"{fn}: return_statement = {leaf[:80]}")
                if LEAVES[leaf] == "REncOpts" and not have_options:
                    raise Unsupported(f"{fn}: encoder_options used before it is built")
                out = LEAVES[leaf]
                continue
        if isinstance(st, ast.If):
            c = ast.unparse(st.test)
            if c not in CONDS or not st.orelse:
                raise Unsupported(f"{fn}: condition {c[:80]!r}")
            out = f"(if {CONDS[c]} then {decision(st.body, fn, have_options)} else {decision(st.orelse, fn, have_options)})"
            continue
        raise Unsupported(f"{fn}: statement {src[:80]!r} inside the return_statement decision")
    if out is None:
        raise Unsupported(f"{fn}: a path does not assign return_statement")
    return out


def read_returns(fn: ast.FunctionDef) -> str:
    name = fn.name
    roots = []

    def assigns(node) -> bool:
        return any(isinstance(n, ast.Assign) and ast.unparse(n.targets[0]) == "return_statement" for n in ast.walk(node))

    def visit(stmts):
        for st in stmts:
            if isinstance(st, ast.If) and ast.unparse(st.test) == "self.encoder is not None" and assigns(st):
                roots.append(st)
                continue
            if isinstance(st, ast.Assign) and ast.unparse(st.targets[0]) == "return_statement":
                raise Unsupported(f"{name}: return_statement assigned outside the encoder decision")
            for fld in ("body", "orelse", "finalbody"):
                sub = getattr(st, fld, None)
                if isinstance(sub, list) and sub and isinstance(sub[0], ast.stmt):
                    visit(sub)
            if isinstance(st, ast.Try):
                for h in st.handlers:
                    visit(h.body)
            if isinstance(st, ast.With):
                pass
    visit(fn.body)
    if len(roots) != 1:
        raise Unsupported(f"{name}: {len(roots)} encoder decisions")
    expr = decision([roots[0]], name)
    # every emitted return line goes through return_statement
    uses = 0
    for node in ast.walk(fn):
        if isinstance(node, ast.Call) and ast.unparse(node.func) == "self.add_line" and node.args:
            a = node.args[0]
            s = ast.unparse(a)
            if s.startswith("return_statement.format("):
                uses += 1
            elif re.match(r"^f?['\"]\s*return\b", s):
                raise Unsupported(f"{name}: a return line bypasses return_statement: {s[:80]}")
            elif isinstance(a, ast.Name):
                raise Unsupported(f"{name}: add_line of a variable {s}")
    if uses == 0:
        raise Unsupported(f"{name}: return_statement is never emitted")
    return expr


def check_method_params(module: ast.Module) -> None:
    f = find_function(module, "CodeBuilder.get_pack_method_default_flag_values")
    blocks = [st for st in f.body if isinstance(st, ast.If) and ast.unparse(st.test) == "pass_encoder and self.encoder is not None"]
    want = ("pos_param_names.append('encoder')\npos_param_values.append(type_name(self.encoder))\n"
            "for value in self._get_encoder_kwargs(cls).values():\n    kw_param_names.append(value[0])\n    kw_param_values.append(value[1])")
    if len(blocks) != 1 or blocks[0].orelse or "\n".join(ast.unparse(s) for s in blocks[0].body) != want:
        raise Unsupported("get_pack_method_default_flag_values: encoder parameters block")
    d = find_function(module, "CodeBuilder._add_pack_method_definition")
    if "default_kwargs = self.get_pack_method_default_flag_values(pass_encoder=True)" not in [ast.unparse(s) for s in d.body] \
            or ast.unparse(d.body[-1]) != "self.add_line(f'def {method_name}(self{kwargs}):')":
        raise Unsupported("_add_pack_method_definition")
    g = find_function(module, "CodeBuilder._get_encoder_kwargs")
    body = "\n".join(ast.unparse(s) for s in g.body)
    want = ("result = {}\nfor encoder_param, value in self.encoder_kwargs.items():\n    packer_param = value[0]\n"
            "    packer_value = value[1]\n    if isinstance(packer_value, ConfigValue):\n"
            "        packer_value = getattr(self.get_config(cls), packer_value.name)\n"
            "    result[encoder_param] = (packer_param, packer_value)\nreturn result")
    if body != want:
        raise Unsupported("_get_encoder_kwargs")
    # add_pack_method: both paths live in the SAME generated def, so the keyword parameter is in scope in both
    a = find_function(module, "CodeBuilder.add_pack_method")
    src = ast.unparse(a)
    for piece in ("self._add_pack_method_definition(method_name)",
                  "if dialects_feature and self.dialect is None:\n            with self.indent('if dialect is None:'):\n"
                  "                self._add_pack_method_lines(method_name)\n            with self.indent('else:'):\n"
                  "                self._add_pack_method_with_dialect_lines(method_name)\n        else:\n"
                  "            self._add_pack_method_lines(method_name)"):
        if piece not in src:
            raise Unsupported(f"add_pack_method: {piece[:60]!r} not found")


def gen() -> str:
    module = ast.parse(open(os.path.join(REPO, "mashumaro/core/meta/code/builder.py")).read())
    plain = read_returns(find_function(module, "CodeBuilder._add_pack_method_lines"))
    dial = read_returns(find_function(module, "CodeBuilder._add_pack_method_with_dialect_lines"))
    check_method_params(module)
    return ("(* GENERATED by tools/kernels/k104b_encoder_kwargs.py from mashumaro/core/meta/code/builder.py -- do not edit.\n"
            "   Regenerated from /repo on every check run. *)\n"
            "From Coq Require Import Bool.\nFrom Verif Require Import EncKwargs.\n\n"
            "(* _add_pack_method_lines: to_<fmt>(..) without a call-time dialect *)\n"
            f"Definition ret_plain (has_encoder has_kwargs: bool) : rstmt :=\n  {plain}.\n\n"
            "(* _add_pack_method_with_dialect_lines: to_<fmt>(.., dialect=X) *)\n"
            f"Definition ret_dialect (has_encoder has_kwargs: bool) : rstmt :=\n  {dial}.\n\n"
            "(* get_pack_method_default_flag_values / _get_encoder_kwargs have the recognised form: with an encoder the\n"
            "   generated def has one keyword parameter per encoder keyword, its default resolved from Config *)\n"
            "Definition kw_param_default_from_config : bool := true.\n")


if __name__ == "__main__":
    print(gen())
