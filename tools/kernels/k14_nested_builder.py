"""Kernel K14 (property C08): what pack_dataclass hands to the CodeBuilder it creates for a nested
dataclass that has no to_dict method yet (mashumaro/core/meta/types/pack.py).

Translated on every run: the expressions of the keyword arguments `default_dialect=` and
`dialect=` of the call `builder = spec.builder.__class__(...)`, together with every statement
that precedes the call inside the enclosing `if` (they may rebind the names used), as functions
of the compiling builder's default dialect, dialect, Config.dialect, `type_args` and is_nailed.
The model (OptNested.pass_dd / pass_dialect) says: default_dialect = the compiling builder's
default dialect -- never the owner's Config.dialect; dialect = None for a mixin (nailed) builder
(the nested class gets its DEFAULT method on demand), the builder's dialect for a codec builder.
Fail closed on any other shape."""
from __future__ import annotations

import ast
import os

from py2gallina import HEADER, FnTranslator, Kernel, Unsupported, find_function

NAME = "K14"
REPO = os.environ.get("VERIF_REPO", "/repo")

ABSTR = {
    "spec.builder.default_dialect": "a_default_dialect",
    "spec.builder.dialect": "a_dialect",
    "spec.builder.get_config().dialect": "a_cfg_dialect",
    "type_args": "v_type_args",
    "spec.builder.is_nailed": "a_is_nailed",
}
PARAMS = ["a_default_dialect", "a_dialect", "a_cfg_dialect", "v_type_args", "a_is_nailed"]


def _find_builder_call(fn: ast.FunctionDef):
    hits = []
    for node in ast.walk(fn):
        if isinstance(node, ast.If):
            for i, s in enumerate(node.body):
                if (isinstance(s, ast.Assign) and len(s.targets) == 1 and isinstance(s.targets[0], ast.Name)
                        and s.targets[0].id == "builder" and isinstance(s.value, ast.Call)
                        and ast.unparse(s.value.func) == "spec.builder.__class__"):
                    hits.append((node, i, s))
    if len(hits) != 1:
        raise Unsupported(f"pack_dataclass: {len(hits)} nested-builder constructions")
    return hits[0]


def gen() -> str:
    src = os.path.join(REPO, "mashumaro/core/meta/types/pack.py")
    module = ast.parse(open(src).read())
    fn = find_function(module, "pack_dataclass")
    # names the abstraction relies on must not be rebound before the `if`
    enclosing, idx, assign = _find_builder_call(fn)
    for s in fn.body:
        for node in ast.walk(s):
            if isinstance(node, ast.Name) and isinstance(node.ctx, ast.Store) and node.id == "spec":
                raise Unsupported("spec rebound")
    ta = [s for s in ast.walk(fn) if isinstance(s, ast.Assign) and any(isinstance(t, ast.Name) and t.id == "type_args" for t in s.targets)]
    if len(ta) != 1 or ast.unparse(ta[0].value) != "get_args(spec.type)":
        raise Unsupported("type_args is not get_args(spec.type)")
    prelude = enclosing.body[:idx]
    for s in prelude:
        if not isinstance(s, (ast.Assign, ast.If)):
            raise Unsupported(f"statement before the nested builder: {ast.unparse(s)[:60]}")
        # (calls other than the abstracted attribute paths are rejected by the translator itself)
    kws = {k.arg: k.value for k in assign.value.keywords}
    if None in kws:
        raise Unsupported("**kwargs in the nested builder call")
    text = HEADER.format(src="mashumaro/core/meta/types/pack.py (pack_dataclass: nested builder arguments)")
    for kw, name in (("default_dialect", "nested_default_dialect"), ("dialect", "nested_dialect")):
        if kw not in kws:
            raise Unsupported(f"nested builder call without {kw}=")
        body = list(prelude) + [ast.Return(value=kws[kw])]
        newfn = ast.FunctionDef(name=name, args=ast.arguments(posonlyargs=[], args=[], kwonlyargs=[], kw_defaults=[], defaults=[]),
                                body=body, decorator_list=[], lineno=1)
        ast.fix_missing_locations(newfn)
        k = Kernel(func=name, coq_name=name, params=PARAMS, abstr=dict(ABSTR))
        tr = FnTranslator(k, module)
        text += tr.translate(newfn) + "\n"
    return text
