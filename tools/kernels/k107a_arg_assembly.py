"""Kernel K107a (property C07): how the generated from_dict passes a field to the constructor.

Four Gallina functions are emitted into coq/gen/K107a.v, translated from
/repo/mashumaro/core/meta/code/builder.py on every run (fail closed):

  get_field_default  <- CodeBuilder.get_field_default                  (whole function; the Field found in
                        `self.dataclass_fields` and `self.namespace.get(name, MISSING)` are parameters)
  block_in_kwargs    <- FieldUnpackerCodeBlockBuilder.build            (slice: `has_default = default is not MISSING`
                        and the `in_kwargs` argument of the returned FieldUnpackerCodeBlock)
  kw_step            <- CodeBuilder._add_unpack_method_lines           (slice: body of the loop over the type hints up to
                        the alias lookup: skipping of init=False fields, kw_only detection with the sticky
                        missing_kw_only flag) as a state transformer
                          (field, fname, missing_kw_only, kw_only_fields) -> (kept, missing_kw_only, kw_only_fields)
  arg_step           <- CodeBuilder._add_unpack_method_lines           (slice: body of the loop over the field blocks that
                        sorts a field into pos_args / kw_args / **kwargs, sticky in_kwargs flag) as a state transformer
                          (field_block, kw_only_fields, in_kwargs, kw_args, pos_args) -> (in_kwargs, kw_args, pos_args)

The slices are structure checked: the statements around them that are not translated are compared as text
(how the loops are headed, what follows the kw_only detection, how the call is rendered from pos_args / kw_args /
add_kwargs); any other shape raises Unsupported, the kernel becomes a stub and theories/BindK107a.v fails to compile.
Objects (a dataclasses.Field, a FieldUnpackerCodeBlock) are namespaces (KNs) of the kernel universe; sets are
duplicate-free lists (PyK_c08.k_set_add / k_in)."""
from __future__ import annotations

import ast
import os

from py2gallina import HEADER, FnTranslator, Kernel, Unsupported, coq_string, find_function

NAME = "K107a"
REPO = os.environ.get("VERIF_REPO", "/repo")
SRC_REL = "mashumaro/core/meta/code/builder.py"

ATTRS = {"init", "default", "default_factory", "in_kwargs", "fname"}


class K107aTranslator(FnTranslator):
    """adds: attribute reads `<local>.<attr>` for attr in ATTRS, `x in <local>`, `<local>.add(x)`,
    `<local>.append(x)`, tuples"""

    @staticmethod
    def _store(s):
        if isinstance(s, ast.Expr) and isinstance(s.value, ast.Call) and isinstance(s.value.func, ast.Attribute) \
                and s.value.func.attr in ("add", "append") and isinstance(s.value.func.value, ast.Name) \
                and len(s.value.args) == 1 and not s.value.keywords:
            return s.value.func.attr, s.value.func.value.id
        return None, None

    def assigned(self, stmts):
        out = [n for n in super().assigned(stmts)]
        for s in stmts:
            for node in ast.walk(s):
                kind, n = self._store(node)
                if kind and n not in out:
                    out.append(n)
        return out

    def block(self, stmts, k):
        if stmts:
            s = stmts[0]
            kind, n = self._store(s)
            if kind:
                if n not in self.locals:
                    raise Unsupported(f"store into unknown name {n}")
                pv, val = self.expr(s.value.args[0])
                op = "k_set_add" if kind == "add" else "k_append"
                return self.wrap(pv + [(f"v_{n}", f"{op} v_{n} {val}")], self.block(stmts[1:], k))
        return super().block(stmts, k)

    def expr(self, e):
        key = ast.unparse(e)
        if key in self.k.abstr:
            return [], self.k.abstr[key]
        if isinstance(e, ast.Name) and e.id == "MISSING" and "MISSING" not in self.locals:
            return [], "KMissing"      # gen() checks that the module binds it by `from dataclasses import MISSING`
        if isinstance(e, ast.Attribute) and isinstance(e.value, ast.Name) and e.value.id in self.locals:
            if e.attr not in ATTRS:
                raise Unsupported(f"attribute {key}")
            t = self.fresh()
            return [(t, f"k_getattr2 v_{e.value.id} (KStr {coq_string(e.attr)})")], t
        if isinstance(e, ast.Compare) and len(e.ops) == 1 and isinstance(e.ops[0], ast.In):
            pl, a = self.expr(e.left)
            pr, b = self.expr(e.comparators[0])
            t = self.fresh()
            return pl + pr + [(t, f"(b <- k_in {a} {b} ;; Ok (KBool b))")], t
        if isinstance(e, ast.Tuple):
            pre, items = [], []
            for x in e.elts:
                p, a = self.expr(x)
                pre += p
                items.append(a)
            return pre, "(KTuple [" + "; ".join(items) + "])"
        return super().expr(e)


def _fn(name, body):
    f = ast.FunctionDef(name=name, args=ast.arguments(posonlyargs=[], args=[], kwonlyargs=[], kw_defaults=[], defaults=[]),
                        body=body, decorator_list=[], lineno=1)
    ast.fix_missing_locations(f)
    return f


def _translate(module, fn, coq_name, params, abstr=None):
    k = Kernel(func=coq_name, coq_name=coq_name, params=params, abstr=abstr or {})
    tr = K107aTranslator(k, module)
    for p in params:
        if p.startswith("v_"):
            tr.locals.add(p[2:])
    return tr.translate(fn)


def _ret(names):
    return ast.Return(value=ast.Tuple(elts=[n if isinstance(n, ast.expr) else ast.Name(id=n, ctx=ast.Load())
                                            for n in names], ctx=ast.Load()))


# ---------------------------------------------------------------------------
# 1. get_field_default
# ---------------------------------------------------------------------------

def gen_get_field_default(module) -> str:
    fn = find_function(module, "CodeBuilder.get_field_default")
    if [a.arg for a in fn.args.args] != ["self", "name", "call_factory"] or \
            [ast.unparse(d) for d in fn.args.defaults] != ["False"]:
        raise Unsupported("get_field_default signature")
    body = [s for s in fn.body if not (isinstance(s, ast.Expr) and isinstance(s.value, ast.Constant))]
    if not body or ast.unparse(body[0]) != "field = self.dataclass_fields.get(name)":
        raise Unsupported("get_field_default does not start with the dataclass_fields lookup")
    for s in body[1:]:
        for n in ast.walk(s):
            if isinstance(n, ast.Attribute) and n.attr == "dataclass_fields":
                raise Unsupported("second dataclass_fields lookup")
    f = _fn("get_field_default", body)
    return _translate(module, f, "get_field_default", ["a_field", "a_ns", "a_made", "v_call_factory"],
                      {"self.dataclass_fields.get(name)": "a_field",
                       "self.namespace.get(name, MISSING)": "a_ns",
                       "field.default_factory()": "a_made"})


# ---------------------------------------------------------------------------
# 2. in_kwargs of a field block
# ---------------------------------------------------------------------------

EXPECTED_BLOCK_INIT = ["self.lines = lines", "self.fname = fname", "self.in_kwargs = in_kwargs"]


def gen_block_in_kwargs(module) -> str:
    init = find_function(module, "FieldUnpackerCodeBlock.__init__")
    if [a.arg for a in init.args.args] != ["self", "lines", "fname", "in_kwargs"] or \
            [ast.unparse(s) for s in init.body] != EXPECTED_BLOCK_INIT:
        raise Unsupported("FieldUnpackerCodeBlock.__init__ changed")
    fn = find_function(module, "FieldUnpackerCodeBlockBuilder.build")
    rets = [n for n in ast.walk(fn) if isinstance(n, ast.Return)]
    if len(rets) != 1 or fn.body[-1] is not rets[0]:
        raise Unsupported("build: not exactly one return, at the end")
    call = rets[0].value
    if not (isinstance(call, ast.Call) and ast.unparse(call.func) == "FieldUnpackerCodeBlock"
            and len(call.args) == 3 and not call.keywords and ast.unparse(call.args[1]) == "fname"):
        raise Unsupported("build does not return FieldUnpackerCodeBlock(lines, fname, <in_kwargs>)")
    # the names the in_kwargs argument is computed from: single top-level assignments, in order
    slice_, need = [], {n.id for n in ast.walk(call.args[2]) if isinstance(n, ast.Name)}
    stores = {}
    for n in ast.walk(fn):
        if isinstance(n, ast.Name) and isinstance(n.ctx, ast.Store):
            stores[n.id] = stores.get(n.id, 0) + 1
    changed = True
    picked = set()
    while changed:
        changed = False
        for s in fn.body:
            if isinstance(s, ast.Assign) and len(s.targets) == 1 and isinstance(s.targets[0], ast.Name) \
                    and s.targets[0].id in need and s.targets[0].id not in picked:
                if stores.get(s.targets[0].id) != 1:
                    raise Unsupported(f"build: {s.targets[0].id} assigned more than once")
                picked.add(s.targets[0].id)
                if ast.unparse(s.value) != "self.parent.get_field_default(fname)":
                    need |= {n.id for n in ast.walk(s.value) if isinstance(n, ast.Name)}
                changed = True
    need -= {"MISSING"}
    if need - picked:
        raise Unsupported(f"build: in_kwargs depends on {sorted(need - picked)}")
    slice_ = [s for s in fn.body if isinstance(s, ast.Assign) and len(s.targets) == 1
              and isinstance(s.targets[0], ast.Name) and s.targets[0].id in picked]
    f = _fn("block_in_kwargs", slice_ + [ast.Return(value=call.args[2])])
    return _translate(module, f, "block_in_kwargs", ["a_default"],
                      {"self.parent.get_field_default(fname)": "a_default"})


# ---------------------------------------------------------------------------
# 3./4. the two loops of _add_unpack_method_lines
# ---------------------------------------------------------------------------

EXPECTED_AFTER_KW = ["metadata = self.metadatas.get(fname, {})",
                     "alias = self.__get_field_alias(fname, ftype, metadata, config)",
                     "filtered_fields.append((fname, alias, ftype))"]
EXPECTED_INIT = ["filtered_fields = []", "pos_args = []", "kw_args = []", "missing_kw_only = False",
                 "add_kwargs = False", "kw_only_fields = set()", "field_blocks = []"]
EXPECTED_CALL = ["args = [f'__{f}' for f in pos_args]",
                 "for kw_arg in kw_args:\n    args.append(f'{kw_arg}=__{kw_arg}')",
                 "if add_kwargs:\n    args.append('**kwargs')",
                 "cls_inst = f\"cls({', '.join(args)})\""]
EXPECTED_BUILD_LOOP_TAIL = ["if field_block.in_kwargs:\n    add_kwargs = True", "field_blocks.append(field_block)"]
STATE = ("missing_kw_only", "kw_only_fields", "in_kwargs", "kw_args", "pos_args", "filtered_fields", "add_kwargs",
         "field_blocks")


def _loops(fn):
    return [n for n in ast.walk(fn) if isinstance(n, ast.For)]


def gen_loops(module) -> str:
    fn = find_function(module, "CodeBuilder._add_unpack_method_lines")
    src = ast.unparse(fn)
    stmt_texts = [ast.unparse(n) for n in ast.walk(fn) if isinstance(n, ast.stmt)]
    for chunk in EXPECTED_INIT + EXPECTED_CALL:
        if stmt_texts.count(ast.unparse(ast.parse(chunk))) != 1:
            raise Unsupported(f"_add_unpack_method_lines: expected exactly once: {chunk[:50]!r}")
    loops = _loops(fn)
    l1 = [lp for lp in loops if ast.unparse(lp.target) == "(fname, ftype)" and ast.unparse(lp.iter) == "field_types.items()"]
    l2 = [lp for lp in loops if ast.unparse(lp.target) == "field_block" and ast.unparse(lp.iter) == "field_blocks"]
    lb = [lp for lp in loops if ast.unparse(lp.target) == "(fname, alias, ftype)" and ast.unparse(lp.iter) == "filtered_fields"]
    if len(l1) != 1 or len(l2) != 1 or len(lb) != 1 or l1[0].orelse or l2[0].orelse or lb[0].orelse:
        raise Unsupported("_add_unpack_method_lines: loops over field_types / filtered_fields / field_blocks")
    # no other place may write the state of the two loops: outside them every state name is bound exactly once
    # (its initialisation; add_kwargs a second time by the building loop) and the only mutating call is
    # field_blocks.append(field_block)
    inside = set()
    for lp in (l1[0], l2[0]):
        for n in ast.walk(lp):
            inside.add(id(n))
    stores, calls = {}, []
    for n in ast.walk(fn):
        if id(n) in inside:
            continue
        if isinstance(n, ast.Name) and isinstance(n.ctx, (ast.Store, ast.Del)) and n.id in STATE:
            stores[n.id] = stores.get(n.id, 0) + 1
        elif isinstance(n, ast.Call) and isinstance(n.func, ast.Attribute) and isinstance(n.func.value, ast.Name) \
                and n.func.value.id in STATE:
            calls.append(ast.unparse(n))
    expected = {n: 1 for n in STATE}
    expected["add_kwargs"] = 2
    if stores != expected:
        raise Unsupported(f"_add_unpack_method_lines: bindings of the loop state outside the loops {stores}")
    if calls != ["field_blocks.append(field_block)"]:
        raise Unsupported(f"_add_unpack_method_lines: calls on the loop state outside the loops {calls}")
    if stmt_texts.count("in_kwargs = False") != 1:
        raise Unsupported("in_kwargs is not initialised to False")
    # the building loop: one block per filtered field, add_kwargs = some block is in_kwargs
    tail = [ast.unparse(s) for s in lb[0].body[-2:]]
    if tail != EXPECTED_BUILD_LOOP_TAIL:
        raise Unsupported(f"building loop tail: {tail}")
    fb = [s for s in lb[0].body if isinstance(s, ast.Assign) and ast.unparse(s.targets[0]) == "field_block"]
    if len(fb) != 1 or not ast.unparse(fb[0].value).startswith("FieldUnpackerCodeBlockBuilder(self, CodeLines()).build(fname=fname, ftype=ftype,"):
        raise Unsupported("building loop: field_block is not built by FieldUnpackerCodeBlockBuilder.build for fname")

    # --- loop 1 ---
    body = list(l1[0].body)
    if ast.unparse(body[0]) != "field = self.dataclass_fields.get(fname)":
        raise Unsupported("loop over the type hints does not start with the dataclass_fields lookup")
    if [ast.unparse(s) for s in body[-3:]] != EXPECTED_AFTER_KW:
        raise Unsupported("loop over the type hints: statements after the kw_only detection changed")
    core = body[:-3]
    cont = _ret([ast.Constant(value=False), "missing_kw_only", "kw_only_fields"])
    done = _ret([ast.Constant(value=True), "missing_kw_only", "kw_only_fields"])

    def rewrite(stmts):
        out = []
        for s in stmts:
            if isinstance(s, ast.Continue):
                out.append(cont)
            elif isinstance(s, ast.If):
                out.append(ast.If(test=s.test, body=rewrite(s.body), orelse=rewrite(s.orelse)))
            elif isinstance(s, (ast.For, ast.While, ast.Break, ast.Return, ast.With, ast.Try)):
                raise Unsupported(f"statement in the kw_only detection: {type(s).__name__}")
            else:
                out.append(s)
        return out

    # a local bound only inside a branch (kw_only) is pre-bound to None: py2gallina joins branches on the names
    # they assign.  Sound because such a name is read only in the branch that binds it (checked).
    core = rewrite(core)
    pre_bound = []
    for top in core:
        if isinstance(top, ast.If):
            for n in ast.walk(top):
                if isinstance(n, ast.Name) and isinstance(n.ctx, ast.Store) and n.id not in STATE \
                        and n.id not in ("field", "fname") and n.id not in pre_bound:
                    pre_bound.append(n.id)
    for nm in pre_bound:
        for top in core:
            holders = [b for n in ast.walk(top) if isinstance(n, ast.If) for b in (n.body, n.orelse)
                       if any(isinstance(x, ast.Assign) and ast.unparse(x.targets[0]) == nm for x in b)]
            loads = [n for n in ast.walk(top) if isinstance(n, ast.Name) and n.id == nm and isinstance(n.ctx, ast.Load)]
            if len(holders) > 1:
                raise Unsupported(f"{nm} bound in several branches")
            if holders:
                first = [i for i, x in enumerate(holders[0]) if isinstance(x, ast.Assign) and ast.unparse(x.targets[0]) == nm][0]
                ok = {id(n) for x in holders[0][first + 1:] for n in ast.walk(x)}
                if any(id(n) not in ok for n in loads):
                    raise Unsupported(f"{nm} read outside the branch that binds it")
            elif loads:
                raise Unsupported(f"{nm} read where it is not bound")
    core = [ast.Assign(targets=[ast.Name(id=nm, ctx=ast.Store())], value=ast.Constant(value=None), lineno=1)
            for nm in pre_bound] + core
    f1 = _fn("kw_step", core + [done])
    t1 = _translate(module, f1, "kw_step", ["a_field", "v_fname", "v_missing_kw_only", "v_kw_only_fields"],
                    {"self.dataclass_fields.get(fname)": "a_field"})

    # --- loop 2 ---
    body2 = list(l2[0].body)
    if ast.unparse(body2[0]) != "self.lines.extend(field_block.lines)":
        raise Unsupported("assembly loop does not start with the emission of the block's lines")
    for s in body2[1:]:
        for n in ast.walk(s):
            if isinstance(n, (ast.For, ast.While, ast.Break, ast.Continue, ast.Return, ast.With, ast.Try)):
                raise Unsupported(f"statement in the assembly loop: {type(n).__name__}")
    f2 = _fn("arg_step", body2[1:] + [_ret(["in_kwargs", "kw_args", "pos_args"])])
    t2 = _translate(module, f2, "arg_step", ["v_field_block", "v_kw_only_fields", "v_in_kwargs", "v_kw_args", "v_pos_args"])
    return t1 + "\n" + t2


def gen() -> str:
    module = ast.parse(open(os.path.join(REPO, SRC_REL)).read())
    binds = [n for n in ast.walk(module) if (isinstance(n, ast.alias) and (n.asname or n.name) == "MISSING")
             or (isinstance(n, ast.Name) and n.id == "MISSING" and not isinstance(n.ctx, ast.Load))]
    imports = [n for n in module.body if isinstance(n, ast.ImportFrom) and n.module == "dataclasses" and n.level == 0
               and any(a.name == "MISSING" and a.asname is None for a in n.names)]
    if len(binds) != 1 or len(imports) != 1:
        raise Unsupported("MISSING is not (only) dataclasses.MISSING in builder.py")
    text = HEADER.format(src=SRC_REL + " (get_field_default; FieldUnpackerCodeBlockBuilder.build: in_kwargs; "
                                       "_add_unpack_method_lines: kw_only detection and argument assembly)")
    text = text.replace("From Verif Require Import Regex PyK.", "From Verif Require Import Regex PyK PyK_c08.")
    text += gen_get_field_default(module) + "\n"
    text += gen_block_in_kwargs(module) + "\n"
    text += gen_loops(module)
    return text


if __name__ == "__main__":
    print(gen())
