"""Kernel K17 (property C08): CodeBuilder.is_field_nullable -- the predicate that decides which fields
get the `if value is not None` shape and are therefore subject to omit_none.

Translated on every run.  Shape accepted (anything else fails closed):

    while True:                       # unwrapping loop over the local `ftype`
        if C1: ftype = E1
        elif C2: ftype = E2
        ...
        else: break
    [<name> = <expression>]*          # optional plain assignments
    return <boolean expression>

The loop becomes PyK_c08.k_iter with fuel = 1 + nesting depth of the type term (every accepted
rebinding must take a component of the value; the theorem K17_nullable fails if that is not so).
Abstractions (types are encoded as kernel values, see PyK_c08.v):
  is_annotated(t) / is_final(t) / is_union(t) / is_optional(t, ...) / is_type_var_any(t)
  -> tag tests; get_type_origin(t) -> ty_origin; get_args(t) -> ty_args; self.get_real_type(fname, t) -> ty_real t
  (a type variable bound by the specialisation is replaced by its binding);
  typing.Any / type(None) -> ty_any / ty_nonetype; self.get_field_default(fname) -> a_default.
The abstraction of is_optional as "a union of exactly two members one of which is None" is only used
while its source text is the expected one."""
from __future__ import annotations

import ast
import os

from py2gallina import HEADER, FnTranslator, Kernel, Unsupported, find_function

NAME = "K17"
REPO = os.environ.get("VERIF_REPO", "/repo")

EXPECTED_IS_OPTIONAL = '''def is_optional(typ: Type, resolved_type_params: Optional[dict[Type, Type]]=None) -> bool:
    if resolved_type_params is None:
        resolved_type_params = {}
    if not is_union(typ):
        return False
    args = get_args(typ)
    if len(args) != 2:
        return False
    for arg in args:
        if resolved_type_params.get(arg, arg) is NoneType:
            return True
    return False'''


# (not in /repo yet: fixes/C08-typevar-bound-nullable.diff) what a variable nobody binds is packed as
EXPECTED_TYPE_VAR_MEANING = '''def get_type_var_meaning(typ: Type) -> Type:
    if not is_type_var(typ) or is_type_var_any(typ):
        return typ
    constraints = getattr(typ, '__constraints__')
    if constraints:
        return Union[constraints]
    if type_var_has_default(typ):
        return get_type_var_default(typ)
    return getattr(typ, '__bound__')'''


class K17Translator(FnTranslator):
    helpers = None

    def expr(self, e):
        key = ast.unparse(e)
        if key == "typing.Any":
            return [], "ty_any"
        if key in ("type(None)", "NoneType"):
            return [], "ty_nonetype"
        if key == "self.get_field_default(fname)":
            return [], "a_default"
        if isinstance(e, ast.Compare) and len(e.ops) == 1 and isinstance(e.ops[0], ast.In) \
                and isinstance(e.comparators[0], ast.Tuple):
            pl, a = self.expr(e.left)
            pre, items = list(pl), []
            for x in e.comparators[0].elts:
                p, b = self.expr(x)
                pre += p
                items.append(b)
            return pre, "(KBool (existsb (k_eq " + a + ") [" + "; ".join(items) + "]))"
        if isinstance(e, ast.Compare) and len(e.ops) == 1 and isinstance(e.ops[0], ast.In):
            pl, a = self.expr(e.left)
            pr, b = self.expr(e.comparators[0])
            t = self.fresh()
            return pl + pr + [(t, f"(b <- k_in {a} {b} ;; Ok (KBool b))")], t
        return super().expr(e)

    def call(self, e):
        f = ast.unparse(e.func)
        if e.keywords:
            raise Unsupported(f"keyword call {ast.unparse(e)}")
        if f in ("is_annotated", "is_final", "is_union") and len(e.args) == 1:
            pre, a = self.expr(e.args[0])
            return pre, f"(KBool (ty_{f} {a}))"
        if f == "get_type_origin" and len(e.args) == 1:
            pre, a = self.expr(e.args[0])
            return pre, f"(ty_origin {a})"
        if f == "get_args" and len(e.args) == 1:
            pre, a = self.expr(e.args[0])
            return pre, f"(ty_args {a})"
        if f == "is_optional" and len(e.args) == 2 and ast.unparse(e.args[1]) == "self.get_field_resolved_type_params(fname)":
            pre, a = self.expr(e.args[0])
            return pre, f"(KBool (ty_is_optional {a}))"
        if f == "self.get_real_type" and len(e.args) == 2 and ast.unparse(e.args[0]) == "fname":
            # substitution of the specialisation's type parameters: a variable the specialisation binds
            # (KTuple ["TypeVar"; t]) becomes t, everything else (incl. a variable left unbound) stays (PyK_c08.ty_real)
            pre, a = self.expr(e.args[1])
            return pre, f"(ty_real {a})"
        if f == "get_type_var_meaning" and len(e.args) == 1:
            # abstraction: the bounded variable left unbound (KTuple ["TypeVarBound"; t]) becomes its bound t, everything else
            # stays (PyK_c08.ty_unbound); only while the helper's source text is the expected one
            if self.helpers is None or ast.unparse(find_function(self.helpers, "get_type_var_meaning")) != EXPECTED_TYPE_VAR_MEANING:
                raise Unsupported("helpers.get_type_var_meaning: unexpected source text")
            pre, a = self.expr(e.args[0])
            return pre, f"(ty_unbound {a})"
        if f == "is_type_var_any" and len(e.args) == 1:
            pre, a = self.expr(e.args[0])
            return pre, f"(KBool (ty_is_typevar_any {a}))"
        return super().call(e)


def gen() -> str:
    src = os.path.join(REPO, "mashumaro/core/meta/code/builder.py")
    module = ast.parse(open(src).read())
    helpers = ast.parse(open(os.path.join(REPO, "mashumaro/core/meta/helpers.py")).read())
    if ast.unparse(find_function(helpers, "is_optional")) != EXPECTED_IS_OPTIONAL:
        raise Unsupported("helpers.is_optional changed; its abstraction as a two-member test is not justified")
    fn = find_function(module, "CodeBuilder.is_field_nullable")
    if [a.arg for a in fn.args.args] != ["self", "fname", "ftype"]:
        raise Unsupported("is_field_nullable parameters")
    body = [s for s in fn.body if not (isinstance(s, ast.Expr) and isinstance(s.value, ast.Constant))]
    if len(body) < 2 or not isinstance(body[0], ast.While) or not isinstance(body[-1], ast.Return):
        raise Unsupported("is_field_nullable is not `while True: ...; [assignments;] return ...`")
    middle = body[1:-1]
    for st in middle:       # plain assignments of new local names between the loop and the return
        if not (isinstance(st, ast.Assign) and len(st.targets) == 1 and isinstance(st.targets[0], ast.Name)
                and st.targets[0].id not in ("ftype", "fname", "self")):
            raise Unsupported(f"statement between loop and return: {ast.unparse(st)[:60]}")
    loop = body[0]
    if not (isinstance(loop.test, ast.Constant) and loop.test.value is True) or loop.orelse or len(loop.body) != 1:
        raise Unsupported("loop shape")
    k = Kernel(func="is_field_nullable", coq_name="is_field_nullable", params=["a_default", "v_ftype"])
    tr = K17Translator(k, module)
    tr.helpers = helpers
    tr.locals.add("ftype")
    # the if / elif chain: every branch rebinds ftype, the final else breaks
    node = loop.body[0]
    branches = []
    while True:
        if not isinstance(node, ast.If):
            raise Unsupported("loop body is not an if chain")
        if len(node.body) != 1 or not isinstance(node.body[0], ast.Assign) or len(node.body[0].targets) != 1 \
                or ast.unparse(node.body[0].targets[0]) != "ftype":
            raise Unsupported("loop branch does not rebind ftype")
        branches.append((node.test, node.body[0].value))
        if len(node.orelse) == 1 and isinstance(node.orelse[0], ast.If):
            node = node.orelse[0]
            continue
        if len(node.orelse) == 1 and isinstance(node.orelse[0], ast.Break):
            break
        raise Unsupported("loop must end with `else: break`")
    step = "Ok None"
    for test, value in reversed(branches):
        pc, c = tr.expr(test)
        pv, v = tr.expr(value)
        step = tr.wrap(pc, f"(if k_truthy {c} then {tr.wrap(pv, f'Ok (Some {v})')} else {step})")
    ret = tr.block(list(middle) + [body[-1]], None)
    text = HEADER.format(src="mashumaro/core/meta/code/builder.py (CodeBuilder.is_field_nullable)")
    text = text.replace("From Verif Require Import Regex PyK.", "From Verif Require Import Regex PyK PyK_c08.")
    text += f"Definition is_field_nullable_step (v_ftype: kv) : res (option kv) :=\n  {step}.\n\n"
    text += ("Definition is_field_nullable (a_default: kv) (v_ftype: kv) : res kv :=\n"
             f"  (v_ftype <- k_iter (S (kv_depth v_ftype)) is_field_nullable_step v_ftype ;; {ret}).\n")
    return text
