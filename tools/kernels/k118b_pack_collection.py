"""K118b: which code pack.py emits for a collection type, as far as object identity is concerned, translated to
Gallina on every run (complements K15, which translates the by-reference / copy / comprehension rule itself):

* `pack_collection`: the if/elif chain becomes `pack_collection_decision : ufacts -> pdecision` (which origins go
  through `_make_sequence_expression` / `_make_mapping_expression`, which are always rebuilt, which are delegated);
* `pack_tuple`, `pack_named_tuple`, `pack_typed_dict`: result shapes of their templates / generated method lines;
* `pack_origin_facts`: the consulted predicates evaluated on the classes of the model's origins.

Fail closed, same vocabulary machinery as K118a."""
from __future__ import annotations

import ast
import importlib.util
import os
import re

from py2gallina import Unsupported

NAME = "K118b"
REPO = os.environ.get("VERIF_REPO", "/repo")
PACK = "mashumaro/core/meta/types/pack.py"

_spec = importlib.util.spec_from_file_location(
    "vk_k118a_lib", os.path.join(os.path.dirname(os.path.abspath(__file__)), "k118a_unpack_collection.py"))
A = importlib.util.module_from_spec(_spec)
_spec.loader.exec_module(A)
u = A.u

TEMPLATES = {
    "encodebytes(<E>).decode()": "PDScalar",
    "<E>": "PDSame",
    "<E>.copy()": "PDCopy", "list(<E>)": "PDCopy", "dict(<E>)": "PDCopy",
    "[{<I>: <I> for key, value in m.items()} for m in <E>.maps]": "PDChainComp",
    "[<I> for value in <E>]": "PDSeqComp",
    "{<I>: <I> for key, value in <E>.items()}": "PDMapComp",
}


class PackChain(A.Chain):
    NONE = "PDNone"
    DIRECT = {"pack_named_tuple(spec)": "PDNamedTuple", "pack_tuple(spec, args)": "PDTuple",
              "pack_typed_dict(spec)": "PDTypedDict",
              "_make_sequence_expression(ie)": "PDSeqRule", "_make_mapping_expression(ke, ve)": "PDMapRule"}
    REGISTRY = "PackerRegistry.get"
    LOCAL_DEFS = ("inner_expr", "_make_sequence_expression", "_make_mapping_expression")    # the latter two: kernel K15

    def classify(self, tpl: str) -> str:
        if tpl not in TEMPLATES:
            raise Unsupported(f"K118b: unknown code template {tpl[:100]}")
        return TEMPLATES[tpl]

    def ret(self, e, env: set) -> str:
        txt = u(e) if e is not None else ""
        if txt == "_make_sequence_expression(ie)" and "ie" not in env:
            raise Unsupported("K118b: ie is not an inner_expr() result")
        if txt == "_make_mapping_expression(ke, ve)" and not {"ke", "ve"} <= env:
            raise Unsupported("K118b: ke / ve are not inner_expr() results")
        return super().ret(e, env)


def tuple_results(fn: ast.FunctionDef) -> list[str]:
    A.unpacker_names_ok(fn, "packer", "packers", "PackerRegistry.get")
    names = {"packer": "<I>", "spec.expression": "<E>", "', '.join(packers)": "<IS>"}
    table = {"[]": "PDEmpty", "[<I> for value in <E>]": "PDSeqComp", "[<IS>]": "PDItems", "<E>": "PDSame",
             "list(<E>)": "PDCopy"}
    out = []
    for r in [n for n in ast.walk(fn) if isinstance(n, ast.Return)]:
        t = "<E>" if u(r.value) == "spec.expression" else A.holes(r.value, names)
        if t not in table:
            raise Unsupported(f"K118b: pack_tuple returns {t[:80]}")
        if table[t] not in out:
            out.append(table[t])
    return out


def named_tuple_results(fn: ast.FunctionDef) -> list[str]:
    A.unpacker_names_ok(fn, "packer", "packers", "PackerRegistry.get")
    # kv pairs are built from the packers only
    for n in ast.walk(fn):
        if isinstance(n, ast.Assign) and [u(t) for t in n.targets] == ["kv"]:
            if u(n.value) != "(f\"'{key}': {value}\" for key, value in zip(fields, packers))":
                raise Unsupported(f"K118b: pack_named_tuple kv = {u(n.value)[:80]}")
    names = {"', '.join(packers)": "<IS>", "', '.join(kv)": "<KVS>", "spec.expression": "<E>"}
    table = {"[<IS>]": "PDItems", "{<KVS>}": "PDItems", "<E>": "PDSame", "list(<E>)": "PDCopy"}
    out = []
    for r in [n for n in ast.walk(fn) if isinstance(n, ast.Return)]:
        t = "<E>" if u(r.value) == "spec.expression" else A.holes(r.value, names)
        if t not in table:
            raise Unsupported(f"K118b: pack_named_tuple returns {t[:80]}")
        if table[t] not in out:
            out.append(table[t])
    return out


def typed_dict_results(fn: ast.FunctionDef) -> list[str]:
    A.unpacker_names_ok(fn, "packer", "packers", "PackerRegistry.get")
    hol = dict(A.METHOD_HOLES, **{"packer": "<I>", "spec.self_attrs_name": "<M>"})
    allowed = {"d = {}", "d[<K>] = <I>", "key_value = value.get(<K>, MISSING)", "if key_value is not MISSING:"}
    results = {"return d": "PDItems", "return value": "PDSame", "return dict(value)": "PDCopy", "return value.copy()": "PDCopy"}
    res = []
    for n in ast.walk(fn):
        if isinstance(n, ast.Call) and u(n.func) in ("lines.append", "lines.indent") and n.args:
            ln = A.holes(n.args[0], hol)
            if ln in A.COMMON_LINES:
                continue
            if ln in results:
                if results[ln] not in res:
                    res.append(results[ln])
            elif ln not in allowed:
                raise Unsupported(f"K118b: pack_typed_dict generates an unknown line {ln[:80]!r}")
    if not res:
        raise Unsupported("K118b: pack_typed_dict: no return line found")
    for r in [n for n in ast.walk(fn) if isinstance(n, ast.Return)]:
        if A.holes(r.value, hol) != "<M>.<M>(<M>)":
            raise Unsupported(f"K118b: pack_typed_dict returns {u(r.value)[:80]}")
    return res


def gen() -> str:
    A.check_helpers()
    mod = ast.parse(open(os.path.join(REPO, PACK)).read())
    ch = PackChain(A.Imports(mod))
    term = ch.block(list(A.fn_of(mod, "pack_collection").body), set())
    out = [f"(* GENERATED by tools/kernels/k118b_pack_collection.py from {PACK} (pack_collection, pack_tuple, "
           "pack_named_tuple, pack_typed_dict) -- do not edit. *)",
           "From Coq Require Import List Bool.", "From Verif Require Import Share UnpackDecision PackDecision.",
           "Import ListNotations.", ""]
    out.append(f"Definition pack_collection_decision (f: ufacts) : pdecision :=\n  {term}.\n")
    out.append("Definition pack_tuple_results : list pdecision :=\n  [" + "; ".join(tuple_results(A.fn_of(mod, "pack_tuple"))) + "].\n")
    out.append("Definition pack_named_tuple_results : list pdecision :=\n  ["
               + "; ".join(named_tuple_results(A.fn_of(mod, "pack_named_tuple"))) + "].\n")
    out.append("Definition pack_typed_dict_results : list pdecision :=\n  ["
               + "; ".join(typed_dict_results(A.fn_of(mod, "pack_typed_dict"))) + "].\n")
    out.append("(* issubclass / `is` of the origin class against the classes named in the chain, computed by CPython *)")
    out.append("Definition pack_origin_facts (o: origin) : ufacts :=\n  match o with")
    for coq, q in A.ORIGINS:
        out.append(f"  | {coq} => {A.facts_term(q, ch.used)}")
    out.append("  end.\n")
    for name, q in A.EXTRA:
        out.append(f"Definition p{name} : ufacts :=\n  {A.facts_term(q, ch.used)}.\n")
    return "\n".join(out)
