"""Kernel K109c (property C09): which members of the class the generated from_dict reads at all -- the skip test of
the field loop of CodeBuilder._add_unpack_method_lines, translated from /repo on every run:

    for fname, ftype in field_types.items():
        field = self.dataclass_fields.get(fname)
        if field and not field.init:          # <- translated (the expression, as `reads_field(field)`)
            continue
        ...
        filtered_fields.append((fname, alias, ftype))

The loop structure is pattern-checked, fail closed: the loop runs over `field_types.items()` with
`field_types = self.get_field_types(include_extras=True)`; its first two statements are the lookup of the dataclass
field and the one `if ...: continue`; there is no other continue / break / return in the loop; `field` and `fname` are
not re-bound before the test; the loop ends with the unconditional `filtered_fields.append((fname, alias, ftype))`,
the only mutation of `filtered_fields`, which starts empty.
"""
from __future__ import annotations

import ast
import importlib.util
import os
import sys

sys.path.insert(0, os.path.dirname(os.path.dirname(os.path.abspath(__file__))))
from py2gallina import HEADER, Kernel, Unsupported, coq_string, find_function, translate_kernel

_spec = importlib.util.spec_from_file_location("vk_k4_alias_for_k109c", os.path.join(os.path.dirname(os.path.abspath(__file__)), "k4_alias.py"))
_k4 = importlib.util.module_from_spec(_spec)
_spec.loader.exec_module(_k4)

NAME = "K109c"
REPO = os.environ.get("VERIF_REPO", "/repo")
SRC_REL = "mashumaro/core/meta/code/builder.py"


class FieldTranslator(_k4.AliasTranslator):
    """+ `<local>.init` (dataclasses.Field objects are namespaces carrying `init`)"""

    def expr(self, e):
        if isinstance(e, ast.Attribute) and e.attr == "init" and isinstance(e.value, ast.Name) and e.value.id in self.locals:
            t = self.fresh()
            return [(t, f"k_getattr2 v_{e.value.id} (KStr {coq_string('init')})")], t
        return super().expr(e)


def gen() -> str:
    src = os.path.join(REPO, SRC_REL)
    module = ast.parse(open(src).read())
    fn = find_function(module, "CodeBuilder._add_unpack_method_lines")
    loops = [n for n in ast.walk(fn) if isinstance(n, ast.For) and ast.unparse(n.iter) == "field_types.items()"]
    if len(loops) != 1:
        raise Unsupported("the field loop `for ... in field_types.items()` was not found exactly once")
    loop = loops[0]
    if ast.unparse(loop.target) != "(fname, ftype)" or loop.orelse:
        raise Unsupported("target / else of the field loop changed")
    txt = ast.unparse(fn)
    if txt.count("field_types = self.get_field_types(include_extras=True)") != 1 or txt.count("field_types =") != 1:
        raise Unsupported("field_types is no longer get_field_types(include_extras=True)")
    body = loop.body
    if len(body) < 3 or ast.unparse(body[0]) != "field = self.dataclass_fields.get(fname)":
        raise Unsupported("the field loop no longer starts with the lookup of the dataclass field")
    test_stmt = body[1]
    if not (isinstance(test_stmt, ast.If) and not test_stmt.orelse and len(test_stmt.body) == 1
            and isinstance(test_stmt.body[0], ast.Continue)):
        raise Unsupported("second statement of the field loop is not `if ...: continue`")
    for st in body[2:]:
        for n in ast.walk(st):
            if isinstance(n, (ast.Continue, ast.Break, ast.Return)):
                raise Unsupported("another continue / break / return in the field loop")
            if isinstance(n, ast.Name) and isinstance(n.ctx, ast.Store) and n.id in ("field", "fname", "filtered_fields"):
                raise Unsupported(f"{n.id} is re-bound inside the field loop")
    for n in ast.walk(test_stmt.test):
        if isinstance(n, ast.Name) and n.id != "field":
            raise Unsupported(f"the skip test depends on {n.id}")
        if isinstance(n, (ast.Call, ast.NamedExpr, ast.Lambda)):
            raise Unsupported("call inside the skip test")
    if ast.unparse(body[-1]) != "filtered_fields.append((fname, alias, ftype))":
        raise Unsupported("the field loop no longer ends with filtered_fields.append((fname, alias, ftype))")
    if txt.count("filtered_fields.append(") != 1 or txt.count("filtered_fields = []") != 1 or txt.count("filtered_fields =") != 1:
        raise Unsupported("filtered_fields is built in another way")
    for bad in ("filtered_fields.remove", "filtered_fields.pop", "filtered_fields.insert", "filtered_fields.extend",
                "filtered_fields.sort", "filtered_fields.reverse", "filtered_fields.clear", "del filtered_fields", "filtered_fields["):
        if bad in txt:
            raise Unsupported(f"filtered_fields is mutated: {bad}")
    f = ast.FunctionDef(
        name="reads_field",
        args=ast.arguments(posonlyargs=[], args=[ast.arg("field")], kwonlyargs=[], kw_defaults=[], defaults=[]),
        body=[ast.If(test=test_stmt.test, body=[ast.Return(value=ast.Constant(value=False))], orelse=[]),
              ast.Return(value=ast.Constant(value=True))],
        decorator_list=[], lineno=1)
    ast.fix_missing_locations(f)
    mod2 = ast.Module(body=[f], type_ignores=[])
    text = HEADER.format(src=SRC_REL + " (field loop of _add_unpack_method_lines: which members are read)")
    text += "From Verif Require Import PyK_alias.\n\n"
    k = Kernel(func="reads_field", coq_name="reads_field", params=["v_field"], abstr={})
    text += translate_kernel("", k, mod2, translator=FieldTranslator)
    return text


if __name__ == "__main__":
    print(gen())
