"""K104c (C04): where the generated from_<format> method applies the baked-in DECODER - read from
mashumaro/core/meta/code/builder.py, emitted as programs in the vocabulary of the codec wrapper (CodecWrap.cinstr):

* `_add_unpack_method_lines` (no call-time dialect): three exits - the lazy stub (twice: lazy_compilation, unresolved
  forward reference), which hands `decoder=decoder` on to the real method and does not decode itself, and the real
  body, whose FIRST emitted line is `d = decoder(d)` under exactly `if self.decoder is not None`;
* `_add_unpack_method_with_dialect_lines` (call-time `dialect=`): first statement is the same guarded line, and the
  per-dialect unpacker is called with flags that do not carry the decoder (it is built without one);
* nowhere else in the three functions is a line mentioning `decoder(` emitted.

Fail closed: any other shape raises Unsupported."""
from __future__ import annotations

import ast
import os
import sys

HERE = os.path.dirname(os.path.abspath(__file__))
sys.path.insert(0, os.path.dirname(HERE))
from py2gallina import Unsupported, find_function  # noqa: E402

NAME = "K104c"
REPO = os.environ.get("VERIF_REPO", "/repo")
GUARDED = "if self.decoder is not None:\n    self.add_line('d = decoder(d)')"


def emitted_decoder_lines(fn: ast.FunctionDef) -> int:
    """number of add_line calls in fn whose text mentions `decoder(`"""
    n = 0
    for node in ast.walk(fn):
        if isinstance(node, ast.Call) and ast.unparse(node.func) == "self.add_line" and node.args:
            if "decoder(" in ast.unparse(node.args[0]):
                n += 1
    return n


def gen() -> str:
    module = ast.parse(open(os.path.join(REPO, "mashumaro/core/meta/code/builder.py")).read())
    # ---- the real body -------------------------------------------------------------------------------------
    f = find_function(module, "CodeBuilder._add_unpack_method_lines")
    body = [s for s in f.body if not (isinstance(s, ast.Expr) and isinstance(s.value, ast.Constant))]
    if len(body) != 3 or ast.unparse(body[0]) != "config = self.get_config()":
        raise Unsupported("_add_unpack_method_lines: top-level statements")
    lazy_if, tr = body[1], body[2]
    if not (isinstance(lazy_if, ast.If) and not lazy_if.orelse
            and [ast.unparse(s) for s in lazy_if.body] == ["self._add_unpack_method_lines_lazy(method_name)", "return"]):
        raise Unsupported("_add_unpack_method_lines: lazy_compilation exit")
    if not (isinstance(tr, ast.Try) and not tr.finalbody and len(tr.handlers) == 1
            and [ast.unparse(s) for s in tr.body] == ["field_types = self.get_field_types(include_extras=True)"]):
        raise Unsupported("_add_unpack_method_lines: try statement")
    h = tr.handlers[0]
    if ast.unparse(h.type) != "UnresolvedTypeReferenceError" or len(h.body) != 2 \
            or not (isinstance(h.body[0], ast.If) and [ast.unparse(s) for s in h.body[0].body] == ["raise"] and not h.body[0].orelse) \
            or ast.unparse(h.body[1]) != "self._add_unpack_method_lines_lazy(method_name)":
        raise Unsupported("_add_unpack_method_lines: forward-reference exit")
    if not tr.orelse or ast.unparse(tr.orelse[0]) != GUARDED:
        raise Unsupported("_add_unpack_method_lines: the first line of the real body is not the guarded `d = decoder(d)`")
    if emitted_decoder_lines(f) != 1:
        raise Unsupported("_add_unpack_method_lines: further lines mention decoder(")
    # ---- with a call-time dialect ----------------------------------------------------------------------------
    g = find_function(module, "CodeBuilder._add_unpack_method_with_dialect_lines")
    gb = [s for s in g.body if not (isinstance(s, ast.Expr) and isinstance(s.value, ast.Constant))]
    if ast.unparse(gb[0]) != GUARDED or emitted_decoder_lines(g) != 1:
        raise Unsupported("_add_unpack_method_with_dialect_lines: guarded `d = decoder(d)` is not the first and only decoder line")
    want_g = [
        GUARDED,
        "unpacker_args = ', '.join(filter(None, ('cls', 'd', self.get_unpack_method_flags())))",
        "cache_name = f'__dialect_{self.format_name}_unpacker_cache__'",
        "self.add_line(f'unpacker = cls.{cache_name}.get(dialect)')",
        "with self.indent('if unpacker is not None:'):\n    self.add_line(f'return unpacker({unpacker_args})')",
        "if self.default_dialect:\n    self.add_type_modules(self.default_dialect)",
        "self.add_line(f\"CodeBuilder(cls,dialect=dialect,first_method='{method_name}',format_name='{self.format_name}',"
        "default_dialect={type_name(self.default_dialect)}).add_unpack_method()\")",
        "self.add_line(f'return cls.{cache_name}[dialect]({unpacker_args})')",
    ]
    got_g = [ast.unparse(x) for x in gb]
    if got_g != want_g:
        diff = [i for i, (a_, b_) in enumerate(zip(got_g, want_g)) if a_ != b_]
        raise Unsupported(f"_add_unpack_method_with_dialect_lines: statement {diff[0] if diff else len(want_g)} differs")
    # ---- the lazy stub -----------------------------------------------------------------------------------------
    z = find_function(module, "CodeBuilder._add_unpack_method_lines_lazy")
    if emitted_decoder_lines(z) != 0:
        raise Unsupported("_add_unpack_method_lines_lazy decodes itself")
    zs = ast.unparse(z)
    if "decoder={type_name(self.decoder)}" not in zs or "self.get_unpack_method_flags(pass_decoder=True)" not in zs \
            or ast.unparse(z.body[-1]) != "self.add_line(f'return cls.{method_name}({unpacker_args_s})')":
        raise Unsupported("_add_unpack_method_lines_lazy: does not hand the decoder on")
    fl = find_function(module, "CodeBuilder.get_unpack_method_flags")
    if "if pass_decoder and self.decoder is not None:\n    pluggable_flags.append('decoder=decoder')" not in [ast.unparse(x) for x in fl.body]:
        raise Unsupported("get_unpack_method_flags")
    a = ast.unparse(find_function(module, "CodeBuilder.add_unpack_method"))
    want = ("if dialects_feature and self.dialect is None:\n            with self.indent('if dialect is None:'):\n"
            "                self._add_unpack_method_lines(method_name)\n            with self.indent('else:'):\n"
            "                self._add_unpack_method_with_dialect_lines(method_name)\n        else:\n"
            "            self._add_unpack_method_lines(method_name)")
    if want not in a:
        raise Unsupported("add_unpack_method: dispatch on `dialect is None`")
    prog = "(([IDef] ++ (if has_decoder then [IPre] else [])) ++ [IReturnExpr]) ++ [IInstallDef]"
    return ("(* GENERATED by tools/kernels/k104c_mixin_decoder.py from mashumaro/core/meta/code/builder.py -- do not edit.\n"
            "   Regenerated from /repo on every check run. *)\n"
            "From Coq Require Import List Bool.\nFrom Verif Require Import CodecWrap.\nImport ListNotations.\n\n"
            "(* _add_unpack_method_lines, real body: def, [d = decoder(d)], the field code ending in return, install *)\n"
            f"Definition from_plain_prog (has_decoder: bool) : list cinstr :=\n  {prog}.\n\n"
            "(* _add_unpack_method_with_dialect_lines: [d = decoder(d)], return <per-dialect unpacker built without decoder>(d) *)\n"
            f"Definition from_dialect_prog (has_decoder: bool) : list cinstr :=\n  {prog}.\n\n"
            "(* _add_unpack_method_lines_lazy emits no decoder line and passes decoder=decoder to the real method *)\n"
            "Definition lazy_stub_delegates_decoder : bool := true.\n")


if __name__ == "__main__":
    print(gen())
