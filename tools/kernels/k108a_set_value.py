"""Kernel K108a (property C08): the per-key emission of the generated to_dict body --
CodeBuilder._pack_method_set_value (the omit_default guard) and CodeBuilder.__pack_method_set_value
(the key: field name / alias / run-time `by_alias` branch), mashumaro/core/meta/code/builder.py.

Both functions only EMIT text (self.add_line / with self.indent(...)).  They are translated on every run
into Gallina functions that RETURN the emitted lines as a value (list kv):

    line  f"...{x}...{y!r}..."             -> KTuple [KStr "line"; <pieces>]
    with self.indent(f"..."): BODY         -> KTuple [KStr "block"; <pieces of the header>; KList <lines of BODY>]
    pieces of an f-string / a str constant -> KList [KStr text | KTuple [KStr "fmt"; v] | KTuple [KStr "repr"; v]]
                                              ({v} of a str value that is itself an f-string keeps its pieces nested)

so no text is ever parsed: the reading of the emitted shapes (OptEmit.run_lines) matches piece lists.
Statements accepted (anything else fails closed): `if`/`else`, `with self.indent(<str>)`, `self.add_line(<str>)`,
`<name> = <expr>`, `return self.<the other function>(<names>)`, `return`, `self.ensure_object_imported(...)`
(no effect on the emitted text).  Abstractions (parameters of the Gallina functions):
  self.get_field_default(fname, call_factory=True)                      -> a_default   (KMissing: no default)
  self.get_field_default_literal(self.get_field_default(fname, ...))    -> a_default_literal
  isinstance(default, float) and math.isnan(default)                    -> a_default_is_nan
  self.get_dialect_or_config_option('serialize_by_alias', False)        -> a_serialize_by_alias (kernel K3)."""
from __future__ import annotations

import ast
import os

from py2gallina import HEADER, FnTranslator, Kernel, Unsupported, coq_string, find_function

NAME = "K108a"
REPO = os.environ.get("VERIF_REPO", "/repo")

INNER = "_CodeBuilder__pack_method_set_value"
ABSTR = {
    "self.get_field_default(fname, call_factory=True)": "a_default",
    "self.get_field_default_literal(self.get_field_default(fname, call_factory=True))": "a_default_literal",
    "isinstance(default, float) and math.isnan(default)": "a_default_is_nan",
    "self.get_dialect_or_config_option('serialize_by_alias', False)": "a_serialize_by_alias",
    "MISSING": "KMissing",
}
INNER_PARAMS = ["fname", "alias", "by_alias_feature", "packed_value"]
OUTER_PARAMS = ["fname", "alias", "by_alias_feature", "packed_value", "omit_default"]


class EmitTranslator(FnTranslator):
    def pieces(self, e) -> tuple[list, str]:
        """a str-valued expression used as emitted text -> (pre, Gallina list of pieces)"""
        if isinstance(e, ast.Constant) and isinstance(e.value, str):
            return [], f"(KList [KStr {coq_string(e.value)}])"
        if isinstance(e, ast.JoinedStr):
            pre, items = [], []
            for part in e.values:
                if isinstance(part, ast.Constant) and isinstance(part.value, str):
                    items.append(f"KStr {coq_string(part.value)}")
                elif isinstance(part, ast.FormattedValue) and part.format_spec is None and part.conversion in (-1, 114):
                    p, a = self.expr(part.value)
                    pre += p
                    items.append(f"KTuple [KStr {coq_string('repr' if part.conversion == 114 else 'fmt')}; {a}]")
                else:
                    raise Unsupported(f"f-string part {ast.unparse(part)}")
            return pre, "(KList [" + "; ".join(items) + "])"
        raise Unsupported(f"emitted text is not a str constant / f-string: {ast.unparse(e)}")

    def expr(self, e):
        if isinstance(e, ast.JoinedStr) or (isinstance(e, ast.Constant) and isinstance(e.value, str)
                                             and ast.unparse(e) not in self.k.abstr):
            # a str value that will be spliced into emitted text: keep its pieces
            pre, ps = self.pieces(e)
            return pre, f"(KTuple [KStr \"fstr\"; {ps}])"
        return super().expr(e)

    # -- statements: the value of a block is the list of lines it emits
    def emit(self, stmts, inner_name: str | None) -> str:
        if not stmts:
            return "Ok []"
        s, rest = stmts[0], stmts[1:]
        src = ast.unparse(s)
        if isinstance(s, ast.Expr) and isinstance(s.value, ast.Constant):
            return self.emit(rest, inner_name)
        if isinstance(s, ast.Expr) and isinstance(s.value, ast.Call) and not s.value.keywords:
            f = ast.unparse(s.value.func)
            if f == "self.ensure_object_imported":
                return self.emit(rest, inner_name)
            if f == "self.add_line" and len(s.value.args) == 1:
                pre, ps = self.pieces(s.value.args[0])
                return self.wrap(pre, f"(r <- {self.emit(rest, inner_name)} ;; Ok (KTuple [KStr \"line\"; {ps}] :: r))")
            raise Unsupported(f"call statement {src[:80]}")
        if isinstance(s, ast.With):
            if len(s.items) != 1 or s.items[0].optional_vars is not None:
                raise Unsupported("with statement")
            ce = s.items[0].context_expr
            if not (isinstance(ce, ast.Call) and ast.unparse(ce.func) == "self.indent" and len(ce.args) == 1 and not ce.keywords):
                raise Unsupported(f"with {ast.unparse(ce)[:60]}")
            pre, ps = self.pieces(ce.args[0])
            saved = set(self.locals)
            body = self.emit(list(s.body), inner_name)
            self.locals = saved
            tail = "Ok []" if self.always_exits(s.body) else self.emit(rest, inner_name)
            return self.wrap(pre, f"(b <- {body} ;; r <- {tail} ;; Ok (KTuple [KStr \"block\"; {ps}; KList b] :: r))")
        if isinstance(s, ast.Return):
            if s.value is None or (isinstance(s.value, ast.Constant) and s.value.value is None):
                return "Ok []"
            c = s.value
            if isinstance(c, ast.Call) and ast.unparse(c.func) == "self.__pack_method_set_value" and inner_name \
                    and not c.keywords and [ast.unparse(a) for a in c.args] == INNER_PARAMS:
                return f"({inner_name} a_serialize_by_alias " + " ".join(f"v_{p}" for p in INNER_PARAMS) + ")"
            raise Unsupported(f"return {ast.unparse(c)[:80]}")
        if isinstance(s, ast.Assign):
            if len(s.targets) != 1 or not isinstance(s.targets[0], ast.Name):
                raise Unsupported(f"assignment {src[:60]}")
            pre, a = self.expr(s.value)
            self.locals.add(s.targets[0].id)
            return self.wrap(pre, f"(let v_{s.targets[0].id} := {a} in {self.emit(rest, inner_name)})")
        if isinstance(s, ast.If):
            pc, c = self.expr(s.test)
            saved = set(self.locals)
            b = self.emit(list(s.body) + ([] if self.always_exits(s.body) else list(rest)), inner_name)
            self.locals = set(saved)
            o = self.emit(list(s.orelse) + ([] if (s.orelse and self.always_exits(s.orelse)) else list(rest)), inner_name)
            self.locals = saved
            return self.wrap(pc, f"(if k_truthy {c} then {b} else {o})")
        raise Unsupported(f"statement {type(s).__name__}: {src[:60]}")

    def always_exits(self, stmts) -> bool:
        if not stmts:
            return False
        last = stmts[-1]
        if isinstance(last, ast.Return):
            return True
        if isinstance(last, ast.If):
            return bool(last.orelse) and self.always_exits(last.body) and self.always_exits(last.orelse)
        if isinstance(last, ast.With):
            return self.always_exits(last.body)
        return False


def one(module, path: str, coq_name: str, params: list[str], extra: list[str], inner_name: str | None) -> str:
    fn = find_function(module, path)
    if [a.arg for a in fn.args.args] != ["self"] + params or fn.args.kwonlyargs or fn.args.vararg or fn.args.kwarg:
        raise Unsupported(f"{path}: parameters")
    k = Kernel(func=fn.name, coq_name=coq_name, params=extra + [f"v_{p}" for p in params], abstr=dict(ABSTR))
    tr = EmitTranslator(k, module)
    tr.locals.update(params)
    body = tr.emit(list(fn.body), inner_name)
    ps = " ".join(f"({p}: kv)" for p in k.params)
    return f"Definition {coq_name} {ps} : res (list kv) :=\n  {body}.\n\n"


def gen() -> str:
    src = os.path.join(REPO, "mashumaro/core/meta/code/builder.py")
    module = ast.parse(open(src).read())
    text = HEADER.format(src="mashumaro/core/meta/code/builder.py (_pack_method_set_value, __pack_method_set_value)")
    text = text.replace("From Verif Require Import Regex PyK.", "From Verif Require Import Regex PyK PyK_c08.")
    text += one(module, "CodeBuilder.__pack_method_set_value", "set_value_key", INNER_PARAMS, ["a_serialize_by_alias"], None)
    text += one(module, "CodeBuilder._pack_method_set_value", "set_value", OUTER_PARAMS,
                ["a_default", "a_default_literal", "a_default_is_nan", "a_serialize_by_alias"], "set_value_key")
    return text
