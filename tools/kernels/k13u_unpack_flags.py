"""Kernel K13U (property C13): which keyword flags a nested from_dict call receives.

  * CodeBuilder.get_unpack_method_flags with pass_decoder=False, translated with the translator of
    K8 (the pack-side twin get_pack_method_flags is K8 itself): a_self = options enabled on the class
    being built, a_other = options enabled on the class whose method is called.
  * flag_call_sites: every call `<builder>.get_(un)pack_method_flags(<arg>)` inside
    mashumaro/core/meta/types/pack.py and unpack.py as (file, site, arg), where site is "is_self"
    for calls inside an `if/elif is_self(spec.type)` branch and the enclosing function name otherwise.
    The theorem C13_flag_sites says: in an is_self branch the flags are computed for the builder's own
    class (`spec.builder.cls`, the class whose method the generated code calls), elsewhere for the
    nested type (`spec.type`) or for the builder itself (no argument).

Fail closed: anything unexpected raises Unsupported."""
from __future__ import annotations

import ast
import importlib.util
import os
import sys

HERE = os.path.dirname(os.path.abspath(__file__))
sys.path.insert(0, os.path.dirname(HERE))
from py2gallina import HEADER, Kernel, Unsupported, coq_string, find_function, module_str_constant  # noqa: E402

NAME = "K13U"
REPO = os.environ.get("VERIF_REPO", "/repo")


def _k8():
    spec = importlib.util.spec_from_file_location("c13_k8_packflags", os.path.join(HERE, "k8_packflags.py"))
    m = importlib.util.module_from_spec(spec)
    spec.loader.exec_module(m)
    return m


def _unpack_flags_kernel(k8, module: ast.Module, consts: dict) -> str:
    en = find_function(module, "CodeBuilder.is_code_generation_option_enabled")
    if ast.unparse(en) != k8.EXPECTED_ENABLED:
        raise Unsupported("is_code_generation_option_enabled changed")
    fn = find_function(module, "CodeBuilder.get_unpack_method_flags")
    if [a.arg for a in fn.args.args] != ["self", "cls", "pass_decoder"] or [ast.unparse(d) for d in fn.args.defaults] != ["None", "False"]:
        raise Unsupported("get_unpack_method_flags signature")
    stmts = []
    for s in fn.body:
        if (isinstance(s, ast.If) and not s.orelse and isinstance(s.test, ast.BoolOp) and isinstance(s.test.op, ast.And)
                and isinstance(s.test.values[0], ast.Name) and s.test.values[0].id == "pass_decoder"):
            continue
        for node in ast.walk(s):
            if isinstance(node, ast.Name) and node.id == "pass_decoder":
                raise Unsupported("pass_decoder used outside the skipped block")
            if isinstance(node, ast.Name) and node.id == "cls" and isinstance(node.ctx, ast.Store):
                raise Unsupported("cls rebound")
        stmts.append(s)
    newfn = ast.FunctionDef(name="get_unpack_method_flags", args=fn.args, body=stmts, decorator_list=[], lineno=1)
    ast.fix_missing_locations(newfn)
    k = Kernel(func="get_unpack_method_flags", coq_name="get_unpack_method_flags", params=["a_self", "a_other"])
    tr = k8.K8Translator(k, module)
    tr.consts = consts
    return tr.translate(newfn)


def _sites(rel: str):
    tree = ast.parse(open(os.path.join(REPO, rel)).read())
    out = []

    def visit(node, site):
        if isinstance(node, ast.FunctionDef):
            site = node.name
        if isinstance(node, ast.If):
            t = ast.unparse(node.test)
            inner = "is_self" if t == "is_self(spec.type)" else site
            for ch in node.body:
                visit(ch, inner)
            for ch in node.orelse:
                visit(ch, site)
            # the test itself
            for ch in ast.walk(node.test):
                record(ch, site)
            return
        record(node, site)
        for ch in ast.iter_child_nodes(node):
            visit(ch, site)

    def record(node, site):
        if isinstance(node, ast.Call) and isinstance(node.func, ast.Attribute) and node.func.attr in (
                "get_pack_method_flags", "get_unpack_method_flags"):
            if node.keywords or len(node.args) > 1:
                raise Unsupported(f"{rel}:{node.lineno}: flags call with keywords / several arguments")
            arg = ast.unparse(node.args[0]) if node.args else ""
            out.append((rel.split("/")[-1], site, node.func.attr, arg))

    visit(tree, "<module>")
    return out


def gen() -> str:
    k8 = _k8()
    src = os.path.join(REPO, "mashumaro/core/meta/code/builder.py")
    module = ast.parse(open(src).read())
    cfg = ast.parse(open(os.path.join(REPO, "mashumaro/config.py")).read())
    consts = {c: module_str_constant(cfg, c) for c in k8.OPTION_CONSTS}
    text = HEADER.format(src="builder.py (get_unpack_method_flags), types/pack.py + types/unpack.py (flag call sites)")
    text = text.replace("From Verif Require Import Regex PyK.", "From Verif Require Import Regex PyK PyK_c08.")
    text += f"Definition cu_ADD_DIALECT_SUPPORT : string := {coq_string(consts['ADD_DIALECT_SUPPORT'])}.\n\n"
    text += _unpack_flags_kernel(k8, module, consts) + "\n"
    sites = _sites("mashumaro/core/meta/types/pack.py") + _sites("mashumaro/core/meta/types/unpack.py")
    if not any(s[1] == "is_self" for s in sites):
        raise Unsupported("no flag call site inside an is_self branch found")
    text += ("Definition flag_call_sites : list (string * string * string * string) :=\n  ["
             + ";\n   ".join(f"({coq_string(a)}, {coq_string(b)}, {coq_string(c)}, {coq_string(d)})" for a, b, c, d in sites) + "].\n")
    return text


if __name__ == "__main__":
    print(gen())
