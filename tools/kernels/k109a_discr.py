"""Kernel K109a (property C09): CodeBuilder.get_discriminator -- which class-level discriminator a class
has (look_in_parents=False: is its from_dict a dispatcher) or finds along its MRO (look_in_parents=True:
the field that forbid_extra_keys accepts) -- translated whole from
/repo/mashumaro/core/meta/code/builder.py on every run.

    def get_discriminator(self, look_in_parents=False):
        if look_in_parents: classes = self.cls.__mro__
        else:               classes = (self.cls,)
        for cls in classes:
            discriminator = self.get_config(cls, look_in_parents=False).discriminator
            if discriminator:
                return discriminator
        return None

What the translator adds to the subset of kernel K4 (fail closed, everything else raises Unsupported):
  * a *search loop*: `for x in seq:` whose body only binds fresh locals and may `return e`; it becomes
    `k_for_first seq (fun x => body)` where a `return e` of the body is `Ok (Some e)` and falling through
    is `Ok None`; the statements after the loop run when the search found nothing;
  * `self.get_config(<cls>, look_in_parents=<b>)` is a call of the Gallina function translated from
    CodeBuilder.get_config (VerifGen.K4.get_config, the same run);
  * `<class>.discriminator` is attribute lookup along the MRO of the class (AttributeError if absent);
  * `self.cls.__mro__` are the class objects of the MRO (PyK_clsdiscr.k_mro_classes: each with its own
    `__dict__`, which is all `get_config(cls, look_in_parents=False)` reads).
The use sites are pattern-checked: `_add_unpack_method_lines` must decide "dispatcher" by
`self.get_discriminator()` and feed `self.get_discriminator(look_in_parents=True)` to the allowed keys.
"""
from __future__ import annotations

import ast
import importlib.util
import os
import sys

sys.path.insert(0, os.path.dirname(os.path.dirname(os.path.abspath(__file__))))
from py2gallina import HEADER, FnTranslator, Kernel, Unsupported, coq_string, find_function, translate_kernel

_spec = importlib.util.spec_from_file_location("vk_k4_alias_for_k109a", os.path.join(os.path.dirname(os.path.abspath(__file__)), "k4_alias.py"))
_k4 = importlib.util.module_from_spec(_spec)
_spec.loader.exec_module(_k4)

NAME = "K109a"
REPO = os.environ.get("VERIF_REPO", "/repo")
SRC_REL = "mashumaro/core/meta/code/builder.py"

CLASS_ATTRS = {"discriminator"}


class DiscrTranslator(_k4.ConfigTranslator):
    def __init__(self, kernel, module):
        super().__init__(kernel, module)
        self._search = 0          # > 0: inside the body of a search loop

    # ---- expressions
    def expr(self, e):
        key = ast.unparse(e)
        if key in self.k.abstr:
            return [], self.k.abstr[key]
        if (isinstance(e, ast.Attribute) and e.attr in CLASS_ATTRS and isinstance(e.value, ast.Call)
                and ast.unparse(e.value.func) == "self.get_config"):
            pre, c = self.expr(e.value)
            t = self.fresh()
            return pre + [(t, f"k_cls_attr {c} (KStr {coq_string(e.attr)})")], t
        return super().expr(e)

    def call(self, e):
        f = ast.unparse(e.func)
        if f == "self.get_config":
            # get_config(self, cls=None, look_in_parents=True): checked by kernel K4 (gen_get_config)
            args = {"cls": None, "look_in_parents": None}
            names = ["cls", "look_in_parents"]
            if len(e.args) > 2:
                raise Unsupported("get_config called with more than two positional arguments")
            for n, a in zip(names, e.args):
                args[n] = a
            for kw in e.keywords:
                if kw.arg not in args or args[kw.arg] is not None:
                    raise Unsupported(f"get_config keyword {kw.arg}")
                args[kw.arg] = kw.value
            pre = []
            vals = []
            for n, dflt in (("cls", "KNone"), ("look_in_parents", "(KBool true)")):
                if args[n] is None:
                    vals.append(dflt)
                else:
                    p, a = self.expr(args[n])
                    pre += p
                    vals.append(a)
            t = self.fresh()
            return pre + [(t, f"K4.get_config a_self_cls a_BaseConfig {vals[0]} {vals[1]}")], t
        return super().call(e)

    # ---- statements
    def unroll(self, stmts):
        # search loops are kept as they are (AliasTranslator.unroll rejects a `return` inside a for)
        out = []
        for s in stmts:
            if isinstance(s, ast.For) and not isinstance(s.iter, (ast.Tuple, ast.List)) and self.is_search_loop(s):
                out.append(s)
            elif isinstance(s, ast.If):
                out.append(ast.If(test=s.test, body=self.unroll(s.body), orelse=self.unroll(s.orelse)))
            else:
                out.extend(super().unroll([s]))
        return out

    @staticmethod
    def is_search_loop(s: ast.For) -> bool:
        if s.orelse or not isinstance(s.target, ast.Name):
            return False
        has_return = False
        for node in ast.walk(s):
            if isinstance(node, (ast.Break, ast.Continue, ast.Raise, ast.While, ast.Try, ast.With)):
                return False
            if isinstance(node, ast.For) and node is not s:
                return False
            if isinstance(node, ast.Return):
                if node.value is None:
                    return False
                has_return = True
        return has_return

    def block(self, stmts, k):
        if not stmts:
            return super().block(stmts, k)
        s, rest = stmts[0], stmts[1:]
        if self._search and isinstance(s, ast.Return):
            pre, a = self.expr(s.value)
            return self.wrap(pre, f"Ok (Some {a})")
        if isinstance(s, ast.For) and not isinstance(s.iter, (ast.Tuple, ast.List)) and self.is_search_loop(s):
            if self._search:
                raise Unsupported("nested search loops")
            tgt = s.target.id
            if tgt in self.locals and not getattr(self, "allow_rebind", False):
                raise Unsupported(f"loop variable {tgt} shadows a local")
            after = _k4.names_loaded(rest)
            if tgt in after:
                raise Unsupported(f"loop variable {tgt} used after the loop")
            # the body may only bind locals of its own, dead after the loop
            bound = FnTranslator.assigned(self, s.body)
            for w in bound:
                if w in self.locals:
                    raise Unsupported(f"search loop updates the outer local {w}")
                if w in after:
                    raise Unsupported(f"variable {w} bound in a search loop and used after it")
            pi, it = self.expr(s.iter)
            saved = set(self.locals)
            self.locals.add(tgt)
            self._search += 1
            body = self.block(list(s.body), "Ok None")
            self._search -= 1
            self.locals = saved
            restc = self.block(rest, k)
            r = self.fresh()
            return self.wrap(pi, f"({r} <- k_for_first {it} (fun v_{tgt} => {body}) ;; "
                                 f"match {r} with Some found => Ok found | None => {restc} end)")
        return super().block(stmts, k)


def check_use_sites(module):
    fn = find_function(module, "CodeBuilder._add_unpack_method_lines")
    txt = ast.unparse(fn)
    need = [
        "discr = self.get_discriminator()",
        "if discr:",
        "SubtypeUnpackerBuilder(discr).build(",
        "return",
        "filtered_fields = []",
        "discr = self.get_discriminator(look_in_parents=True)",
        "if discr and discr.field:",
        "allowed_keys.add(discr.field)",
    ]
    pos = -1
    for t in need:
        p = txt.find(t, pos + 1)
        if p < 0:
            raise Unsupported(f"use of get_discriminator in _add_unpack_method_lines changed (expected, in order): {t}")
        pos = p
    if txt.count("get_discriminator(") != 2:
        raise Unsupported("get_discriminator is used a different number of times in _add_unpack_method_lines")


def gen() -> str:
    src = os.path.join(REPO, SRC_REL)
    module = ast.parse(open(src).read())
    fn = find_function(module, "CodeBuilder.get_discriminator")
    if [a.arg for a in fn.args.args] != ["self", "look_in_parents"] or fn.args.kwonlyargs or fn.args.vararg or fn.args.kwarg:
        raise Unsupported("signature of get_discriminator changed")
    if len(fn.args.defaults) != 1 or ast.unparse(fn.args.defaults[0]) != "False":
        raise Unsupported("default of look_in_parents changed")
    if fn.decorator_list:
        raise Unsupported("get_discriminator is decorated")
    cfg = find_function(module, "CodeBuilder.get_config")
    if [a.arg for a in cfg.args.args] != ["self", "cls", "look_in_parents"] or \
            [ast.unparse(d) for d in cfg.args.defaults] != ["None", "True"]:
        raise Unsupported("signature / defaults of get_config changed")
    check_use_sites(module)
    text = HEADER.format(src=SRC_REL + " (CodeBuilder.get_discriminator)")
    text += "From Verif Require Import PyK_alias PyK_clsdiscr.\nFrom VerifGen Require K4.\n\n"
    k = Kernel(func="CodeBuilder.get_discriminator", coq_name="get_discriminator",
               params=["a_self_cls", "a_BaseConfig", "v_look_in_parents"],
               abstr={"self.cls": "a_self_cls", "BaseConfig": "a_BaseConfig",
                      "self.cls.__mro__": "(k_mro_classes a_self_cls)"})
    text += translate_kernel(src, k, module, translator=DiscrTranslator)
    return text


if __name__ == "__main__":
    print(gen())
