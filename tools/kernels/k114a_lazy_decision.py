"""Kernel K114a (property C14): when a method becomes a lazy / postponed STUB and what the stub does, translated
from mashumaro/core/meta/code/builder.py on every run into coq/gen/K114a.v.

For both directions (`_add_unpack_method_lines` / `_add_pack_method_lines`):

  <dir>_lazy_first        the test of the leading `if ...: self._add_<dir>_method_lines_lazy(method_name); return`
                          as a function of config.lazy_compilation, self.allow_postponed_evaluation, self.is_nailed,
                          self.dialect
  <dir>_unresolved_raises the test of `if ...: raise` inside `except UnresolvedTypeReferenceError:` (whose only other
                          statement is the call of the lazy variant), as a function of self.allow_postponed_evaluation
                          and config.allow_postponed_evaluation

and from the TEXT the lazy variant emits (`_add_<dir>_method_lines_lazy`; the f-string pieces are joined with a
placeholder for every interpolated value and the result is parsed as Python again):

  <dir>_stub_ap           value of allow_postponed_evaluation= in the stub's CodeBuilder(...) call
  <dir>_stub_type_args    true iff the second positional argument is the name that the preceding
                          `self.ensure_object_imported(tuple(self.initial_type_args), <name>)` binds
  <dir>_stub_dialect_kw   true iff the call passes dialect=
  <dir>_stub_same_method  true iff first_method='{method_name}', the builder method called is add_<dir>_method and the
                          second emitted line returns  cls.{method_name}(...) / self.{method_name}(...)

The structure around the slices is checked (statement shapes, `config = self.get_config()` first, nothing rebinding
config / self in between); anything else raises Unsupported: the kernel becomes a stub and coq/theories/LazyK114a.v
(and with it every C14 decision theorem) stops compiling.
"""
from __future__ import annotations

import ast
import os

from py2gallina import HEADER, FnTranslator, Kernel, Unsupported, find_function

NAME = "K114a"
REPO = os.environ.get("VERIF_REPO", "/repo")
SRC = "mashumaro/core/meta/code/builder.py"

ABSTR = {
    "config.lazy_compilation": "a_cfg_lazy",
    "self.allow_postponed_evaluation": "a_ap",
    "self.is_nailed": "a_is_nailed",
    "self.dialect": "a_dialect",
    "config.allow_postponed_evaluation": "a_cfg_ap",
}
P_FIRST = ["a_cfg_lazy", "a_ap", "a_is_nailed", "a_dialect"]
P_RAISE = ["a_ap", "a_cfg_ap"]


def _is_lazy_call(s: ast.stmt, lazy_name: str) -> bool:
    return (isinstance(s, ast.Expr) and isinstance(s.value, ast.Call)
            and ast.unparse(s.value) == f"self.{lazy_name}(method_name)")


def _fn_of_expr(module, name: str, params: list[str], e: ast.expr) -> str:
    newfn = ast.FunctionDef(name=name, args=ast.arguments(posonlyargs=[], args=[], kwonlyargs=[], kw_defaults=[], defaults=[]),
                            body=[ast.Return(value=e)], decorator_list=[], lineno=1)
    ast.fix_missing_locations(newfn)
    k = Kernel(func=name, coq_name=name, params=params, abstr={a: b for a, b in ABSTR.items() if b in params})
    return FnTranslator(k, module).translate(newfn) + "\n"


def _decision(module, direction: str) -> str:
    fn = find_function(module, f"CodeBuilder._add_{direction}_method_lines")
    lazy_name = f"_add_{direction}_method_lines_lazy"
    body = [s for s in fn.body if not (isinstance(s, ast.Expr) and isinstance(s.value, ast.Constant))]
    if len(body) != 3:
        raise Unsupported(f"{fn.name}: {len(body)} top-level statements (expected config / if / try)")
    if ast.unparse(body[0]) != "config = self.get_config()":
        raise Unsupported(f"{fn.name}: first statement is {ast.unparse(body[0])[:60]}")
    first, tr = body[1], body[2]
    if not (isinstance(first, ast.If) and not first.orelse and len(first.body) == 2 and _is_lazy_call(first.body[0], lazy_name)
            and isinstance(first.body[1], ast.Return) and first.body[1].value is None):
        raise Unsupported(f"{fn.name}: the leading `if` is not `if <test>: self.{lazy_name}(method_name); return`")
    if not (isinstance(tr, ast.Try) and not tr.finalbody and len(tr.handlers) == 1 and len(tr.body) == 1):
        raise Unsupported(f"{fn.name}: try statement of unexpected shape")
    if ast.unparse(tr.body[0]) != "field_types = self.get_field_types(include_extras=True)":
        raise Unsupported(f"{fn.name}: try body is {ast.unparse(tr.body[0])[:80]}")
    h = tr.handlers[0]
    if h.type is None or ast.unparse(h.type) != "UnresolvedTypeReferenceError" or h.name is not None:
        raise Unsupported(f"{fn.name}: handler is not `except UnresolvedTypeReferenceError:`")
    if not (len(h.body) == 2 and isinstance(h.body[0], ast.If) and not h.body[0].orelse and len(h.body[0].body) == 1
            and isinstance(h.body[0].body[0], ast.Raise) and h.body[0].body[0].exc is None
            and _is_lazy_call(h.body[1], lazy_name)):
        raise Unsupported(f"{fn.name}: handler body is not `if <test>: raise` + self.{lazy_name}(method_name)")
    # the else-branch (real code generation) must not install a stub itself
    for node in ast.walk(ast.Module(body=tr.orelse, type_ignores=[])):
        if isinstance(node, ast.Attribute) and node.attr.endswith("_lines_lazy"):
            raise Unsupported(f"{fn.name}: the code-generation branch calls {node.attr}")
    # names used by the abstraction are not rebound
    for node in ast.walk(fn):
        if isinstance(node, ast.Name) and isinstance(node.ctx, ast.Store) and node.id in ("config", "self") \
                and node is not body[0].targets[0]:
            raise Unsupported(f"{fn.name}: {node.id} rebound")
    return (_fn_of_expr(module, f"{direction}_lazy_first", P_FIRST, first.test)
            + _fn_of_expr(module, f"{direction}_unresolved_raises", P_RAISE, h.body[0].test))


def _template(e: ast.expr) -> str:
    """text of an emitted line with X for every interpolated value"""
    if isinstance(e, ast.Constant) and isinstance(e.value, str):
        return e.value
    if isinstance(e, ast.JoinedStr):
        out = []
        for v in e.values:
            if isinstance(v, ast.Constant) and isinstance(v.value, str):
                out.append(v.value)
            elif isinstance(v, ast.FormattedValue):
                out.append("{" + ast.unparse(v.value) + "}")
            else:
                raise Unsupported("f-string part")
        return "".join(out)
    raise Unsupported(f"emitted line is {type(e).__name__}")


def _stub(module, direction: str) -> str:
    fn = find_function(module, f"CodeBuilder._add_{direction}_method_lines_lazy")
    lines, bound = [], None
    for s in fn.body:
        if isinstance(s, ast.Expr) and isinstance(s.value, ast.Call):
            f = ast.unparse(s.value.func)
            if f == "self.add_line" and len(s.value.args) == 1 and not s.value.keywords:
                lines.append(_template(s.value.args[0]))
            elif f == "self.ensure_object_imported" and not lines:
                a = s.value.args
                if len(a) == 2 and ast.unparse(a[0]) == "tuple(self.initial_type_args)" and isinstance(a[1], ast.Constant) \
                        and isinstance(a[1].value, str) and not s.value.keywords:
                    bound = a[1].value
        for node in ast.walk(s):
            if isinstance(node, ast.Name) and isinstance(node.ctx, ast.Store) and node.id == "method_name":
                raise Unsupported(f"{fn.name}: method_name rebound")
    if len(lines) != 2:
        raise Unsupported(f"{fn.name}: emits {len(lines)} lines (expected the CodeBuilder call and the re-dispatch)")
    # interpolations: inside quotes they are string contents, elsewhere expressions -> a name
    import re
    call_src = re.sub(r"\{[^{}]*\}", "X", lines[0].replace("'{method_name}'", "'<method_name>'"))
    try:
        call = ast.parse(call_src, mode="eval").body
    except SyntaxError as e:
        raise Unsupported(f"{fn.name}: emitted builder call does not parse: {e}")
    if not (isinstance(call, ast.Call) and isinstance(call.func, ast.Attribute) and isinstance(call.func.value, ast.Call)
            and ast.unparse(call.func.value.func) == "CodeBuilder" and not call.args and not call.keywords):
        raise Unsupported(f"{fn.name}: emitted line is not CodeBuilder(...).add_*_method()")
    ctor = call.func.value
    kws = {k.arg: k.value for k in ctor.keywords}
    if None in kws:
        raise Unsupported(f"{fn.name}: **kwargs in the emitted builder call")
    if not ctor.args or ast.unparse(ctor.args[0]) not in ("cls", "self.__class__"):
        raise Unsupported(f"{fn.name}: first argument of the emitted builder call")
    if len(ctor.args) > 2:
        raise Unsupported(f"{fn.name}: more than two positional arguments")
    # CodeBuilder.__init__(self, cls, type_args=(), dialect=None, first_method=..., allow_postponed_evaluation=True, ...)
    init = find_function(module, "CodeBuilder.__init__")
    names = [a.arg for a in init.args.args]
    if names[:3] != ["self", "cls", "type_args"]:
        raise Unsupported("CodeBuilder.__init__ positional parameters are not (self, cls, type_args, ...)")
    defaults = dict(zip(names[len(names) - len(init.args.defaults):], init.args.defaults))
    ap = kws.get("allow_postponed_evaluation", defaults.get("allow_postponed_evaluation"))
    if not (isinstance(ap, ast.Constant) and ap.value in (True, False)):
        raise Unsupported(f"{fn.name}: allow_postponed_evaluation of the emitted call is not a constant")
    type_args = kws.get("type_args", ctor.args[1] if len(ctor.args) == 2 else None)
    passes = bound is not None and isinstance(type_args, ast.Name) and type_args.id == bound
    if "dialect" in kws and not (isinstance(kws["dialect"], ast.Constant) and kws["dialect"].value is None):
        dialect_kw = True
    else:
        dialect_kw = False
    fm = kws.get("first_method")
    recv = "cls" if direction == "unpack" else "self"
    same = (isinstance(fm, ast.Constant) and fm.value == "<method_name>" and call.func.attr == f"add_{direction}_method"
            and lines[1].startswith("return " + recv + ".{method_name}("))
    b = lambda x: "true" if x else "false"
    return (f"Definition {direction}_stub_ap : kv := KBool {b(ap.value)}.\n"
            f"Definition {direction}_stub_type_args : bool := {b(passes)}.\n"
            f"Definition {direction}_stub_dialect_kw : bool := {b(dialect_kw)}.\n"
            f"Definition {direction}_stub_same_method : bool := {b(same)}.\n\n")


def gen() -> str:
    module = ast.parse(open(os.path.join(REPO, SRC)).read())
    text = HEADER.format(src=SRC + " (_add_(un)pack_method_lines: lazy / postponed decision; _add_(un)pack_method_lines_lazy: the stub)")
    for direction in ("unpack", "pack"):
        text += _decision(module, direction)
        text += _stub(module, direction)
    return text
