"""Kernel K5: the strategy-resolution functions of mashumaro, translated to Gallina.

    builder.py   CodeBuilder.iter_serialization_strategies          (generator)
                 CodeBuilder.__iter_serialization_strategies        (generator)
    pack.py      get_overridden_serialization_method                (nested first-hit loops)
    unpack.py    get_overridden_deserialization_method              (nested first-hit loops)

Extensions of the translator (all fail closed: anything not listed raises Unsupported)

* generator functions  -> values of type `gen` (PyK_strat.v): `yield e` = GYield, `yield from
  g(...)` = gen_app, `raise` = GRaise (lazy: only a consumer that gets that far sees it),
  fall-through = GNil.  `if` without else duplicates the continuation text.
* `for x in <list or generator call>` with early `return` in the body -> a top-level
  `Fixpoint <fn>_for_<x>` over the iterated list/gen, taking the fall-through continuation
  `K` and the loop-carried locals as arguments (continuation-passing; "return" simply does
  not call the continuation).  Loop-carried locals = names assigned in the body; each must
  already be a local before the loop; names first bound inside a loop are not visible after it.
* `if` whose branches contain a `return` but do not always exit -> the rest of the block is
  duplicated into both branches.
* expressions: list displays, `x.attr` for whitelisted attribute names (k_getattr2),
  `isinstance(x, dict|SerializationStrategy)`, `is_hashable`, `is_dialect_subclass`,
  `is_generic(type(x))`, the two ExpressionWrapper(...) constructors, `lst.insert(i, x)`.

The abstraction: the CodeBuilder is the triple (self.dialect, self.get_config(),
self.default_dialect) of namespaces; a ValueSpec is (field metadata, annotated_type, type,
origin_type).  Strategy maps are KDict from type objects to strategy values.
"""
from __future__ import annotations

import ast
import os
import re

from py2gallina import (EXN, HEADER, FnTranslator, Kernel, Unsupported, coq_string, coq_z,
                        find_function)

NAME = "K5"
REPO = os.environ.get("VERIF_REPO", "/repo")

ATTRS = {"serialization_strategy", "dialect", "serialize", "deserialize", "__use_annotations__"}
BUILDER = ["a_dialect", "a_cfg", "a_default_dialect"]

WRAPPERS = {
    "ExpressionWrapper(_pack_with_annotated_serialization_strategy(spec=spec, strategy=strategy))": "pack",
    "ExpressionWrapper(_unpack_with_annotated_serialization_strategy(spec=spec, strategy=strategy))": "unpack",
}


class K5Expr(FnTranslator):
    """expression extensions shared by the generator and the loop translator"""

    # generator callees: python callee text -> (Gallina name, leading Gallina arguments)
    gen_callees: dict[str, tuple[str, list[str]]] = {}

    def expr(self, e: ast.expr):
        key = ast.unparse(e)
        if key in self.k.abstr:
            return [], self.k.abstr[key]
        if isinstance(e, ast.Attribute) and e.attr in ATTRS:
            pre, a = self.expr(e.value)
            t = self.fresh()
            return pre + [(t, f"k_getattr2 {a} (KStr {coq_string(e.attr)})")], t
        if isinstance(e, ast.List):
            pre, atoms = [], []
            for el in e.elts:
                if isinstance(el, ast.Starred):
                    raise Unsupported("starred list element")
                p, a = self.expr(el)
                pre += p
                atoms.append(a)
            return pre, "(KList [" + "; ".join(atoms) + "])"
        return super().expr(e)

    def call(self, e: ast.Call):
        f = ast.unparse(e.func)
        txt = ast.unparse(e)
        if txt in WRAPPERS:
            if "strategy" not in self.locals:
                raise Unsupported("ExpressionWrapper outside the strategy loop")
            return [], f"(k_expr_wrapper {coq_string(WRAPPERS[txt])} v_strategy)"
        if e.keywords:
            raise Unsupported(f"keyword call {txt}")
        if f == "isinstance" and len(e.args) == 2:
            cls = ast.unparse(e.args[1])
            pre, a = self.expr(e.args[0])
            if cls == "dict":
                return pre, f"(KBool (k_isinstance_dict {a}))"
            if cls == "SerializationStrategy":
                return pre, f"(KBool (k_isinstance_strategy {a}))"
            raise Unsupported(f"isinstance against {cls}")
        if f == "is_hashable" and len(e.args) == 1:
            pre, a = self.expr(e.args[0])
            return pre, f"(KBool (k_is_hashable {a}))"
        if f == "is_dialect_subclass" and len(e.args) == 1:
            pre, a = self.expr(e.args[0])
            return pre, f"(KBool (k_is_dialect {a}))"
        if f == "is_generic" and len(e.args) == 1:
            inner = e.args[0]
            if isinstance(inner, ast.Call) and ast.unparse(inner.func) == "type" and len(inner.args) == 1 and not inner.keywords:
                pre, a = self.expr(inner.args[0])
                t = self.fresh()
                return pre + [(t, f"k_type_is_generic {a}")], t
            raise Unsupported(f"is_generic of {ast.unparse(inner)}")
        return super().call(e)

    def gen_call(self, e: ast.expr):
        """A call of a translated generator function: (prelude, Gallina term of type gen)."""
        if not isinstance(e, ast.Call) or e.keywords:
            return None
        f = ast.unparse(e.func)
        if f not in self.gen_callees:
            return None
        name, lead = self.gen_callees[f]
        pre, atoms = [], []
        for a in e.args:
            p, at = self.expr(a)
            pre += p
            atoms.append(at)
        return pre, "(" + " ".join([name] + lead + atoms) + ")"


class GenTranslator(K5Expr):
    """Python generator function -> Gallina term of type gen."""

    def gwrap(self, pre, body: str) -> str:
        for name, code in reversed(pre):
            body = f"({name} <~ {code} ;; {body})"
        return body

    def block(self, stmts, k):
        if k is None:
            k = "GNil"
        if not stmts:
            return k
        s, rest = stmts[0], stmts[1:]
        if isinstance(s, ast.Expr) and isinstance(s.value, ast.Constant) and isinstance(s.value.value, str):
            return self.block(rest, k)
        if isinstance(s, ast.Expr) and isinstance(s.value, ast.Yield):
            if s.value.value is None:
                raise Unsupported("bare yield")
            pre, a = self.expr(s.value.value)
            return self.gwrap(pre, f"(GYield {a} {self.block(rest, k)})")
        if isinstance(s, ast.Expr) and isinstance(s.value, ast.YieldFrom):
            gc = self.gen_call(s.value.value)
            if gc is None:
                raise Unsupported(f"yield from {ast.unparse(s.value.value)}")
            pre, g = gc
            return self.gwrap(pre, f"(gen_app {g} {self.block(rest, k)})")
        if isinstance(s, ast.Assign):
            if len(s.targets) != 1 or not isinstance(s.targets[0], ast.Name):
                raise Unsupported("assignment target in generator")
            for node in ast.walk(s.value):
                if isinstance(node, (ast.Yield, ast.YieldFrom)):
                    raise Unsupported("yield as an expression")
            pre, a = self.expr(s.value)
            nm = s.targets[0].id
            self.locals.add(nm)
            return self.gwrap(pre, f"(let v_{nm} := {a} in {self.block(rest, k)})")
        if isinstance(s, ast.If):
            for node in ast.walk(s.test):
                if isinstance(node, (ast.Yield, ast.YieldFrom, ast.NamedExpr)):
                    raise Unsupported("yield/walrus in a condition")
            pc, c = self.expr(s.test)
            saved = set(self.locals)
            b = self.block(list(s.body) + list(rest), k)
            self.locals = set(saved)
            o = self.block(list(s.orelse) + list(rest), k)
            self.locals = saved
            return self.gwrap(pc, f"(if k_truthy {c} then {b} else {o})")
        if isinstance(s, ast.Raise):
            exc = s.exc
            name = ast.unparse(exc.func) if isinstance(exc, ast.Call) else (exc.id if isinstance(exc, ast.Name) else None)
            if name == "BadDialect":
                return "(GRaise OtherError)"
            if name in EXN:
                return f"(GRaise {name})"
            raise Unsupported(f"raise {name}")
        raise Unsupported(f"statement in generator: {ast.unparse(s)[:60]}")

    def translate(self, fn: ast.FunctionDef) -> str:
        body = self.block(list(fn.body), None)
        ps = " ".join(f"({p}: kv)" for p in self.k.params)
        return f"Definition {self.k.coq_name} {ps} : gen :=\n  {body}.\n"


class LoopTranslator(K5Expr):
    """first-order function with `for` loops over runtime lists / generators and early return"""

    def __init__(self, kernel, module):
        super().__init__(kernel, module)
        self.aux: list[str] = []

    def unroll(self, stmts):
        return stmts

    @staticmethod
    def mutated_by_method(node):
        if (isinstance(node, ast.Call) and isinstance(node.func, ast.Attribute)
                and node.func.attr in ("insert", "append", "extend") and isinstance(node.func.value, ast.Name)):
            return node.func.value.id
        return None

    def assigned(self, stmts):
        out = super().assigned(stmts)
        for s in stmts:
            for node in ast.walk(s):
                m = self.mutated_by_method(node)
                if m and m not in out:
                    out.append(m)
        return out

    def has_exit(self, stmts) -> bool:
        return any(isinstance(n, (ast.Return, ast.Raise)) for s in stmts for n in ast.walk(s))

    def block(self, stmts, k):
        if not stmts:
            return super().block(stmts, k)
        s, rest = stmts[0], stmts[1:]
        if isinstance(s, ast.Expr) and isinstance(s.value, ast.Call) and self.mutated_by_method(s.value):
            c = s.value
            if c.func.attr != "insert" or len(c.args) != 2 or c.keywords:
                raise Unsupported(f"list method {ast.unparse(c)}")
            idx = c.args[0]
            if not (isinstance(idx, ast.Constant) and isinstance(idx.value, int) and idx.value >= 0):
                raise Unsupported("insert at a non-constant or negative index")
            nm = c.func.value.id
            if nm not in self.locals:
                raise Unsupported(f"free name {nm}")
            px, x = self.expr(c.args[1])
            return self.wrap(px + [(f"v_{nm}", f"k_list_insert v_{nm} {coq_z(idx.value)} {x}")], self.block(rest, k))
        if isinstance(s, ast.If):
            be, oe = self.always_exits(s.body), self.always_exits(s.orelse)
            if not be and not oe and self.has_exit(list(s.body) + list(s.orelse)):
                for node in ast.walk(s.test):
                    if isinstance(node, ast.NamedExpr):
                        raise Unsupported("walrus in a condition")
                pc, c = self.expr(s.test)
                saved = set(self.locals)
                b = self.block(list(s.body) + list(rest), k)
                self.locals = set(saved)
                o = self.block(list(s.orelse) + list(rest), k)
                self.locals = saved
                return self.wrap(pc, f"(if k_truthy {c} then {b} else {o})")
            return super().block(stmts, k)
        if isinstance(s, ast.For):
            return self.for_loop(s, rest, k)
        return super().block(stmts, k)

    def for_loop(self, s: ast.For, rest, k):
        if s.orelse:
            raise Unsupported("for-else")
        if not isinstance(s.target, ast.Name):
            raise Unsupported("for target")
        for node in ast.walk(s):
            if isinstance(node, (ast.Break, ast.Continue, ast.Yield, ast.YieldFrom, ast.While)):
                raise Unsupported("break/continue/yield/while inside for")
        tgt = s.target.id
        before = set(self.locals)
        if tgt in before:
            raise Unsupported(f"loop target {tgt} shadows a local")
        inner_targets = {n.target.id for n in ast.walk(s) if isinstance(n, ast.For) and isinstance(n.target, ast.Name)}
        state = []
        for w in self.assigned(s.body):
            if w in inner_targets:
                continue
            if w not in before:
                raise Unsupported(f"variable {w} first assigned inside a loop")
            state.append(w)
        gc = self.gen_call(s.iter)
        if gc is not None:
            pre, it_term = gc
            it_ty = "gen"
        else:
            p0, a0 = self.expr(s.iter)
            lt = self.fresh()
            pre, it_term, it_ty = p0 + [(lt, f"k_iter_list {a0}")], lt, "list kv"
        fname = f"{self.k.coq_name}_for_{tgt}"
        free = [p for p in self.k.params] + [f"v_{x}" for x in sorted(before) if x not in state and f"v_{x}" not in self.k.params]
        st = [f"v_{w}" for w in state]
        k_ty = " -> ".join(["kv"] * len(st) + ["res kv"])
        rec_call = "(" + " ".join([fname] + free + ["K", "it'"] + st) + ")"
        # body
        self.locals = set(before) | {tgt}
        body = self.block(list(s.body), rec_call)
        k_here = "K" + "".join(" " + x for x in st)
        if it_ty == "gen":
            cases = (f"    | GNil => {k_here}\n    | GRaise e => Raise e\n"
                     f"    | GYield v_{tgt} it' =>\n      {body}\n")
        else:
            cases = f"    | [] => {k_here}\n    | v_{tgt} :: it' =>\n      {body}\n"
        self.aux.append(
            f"Fixpoint {fname} " + " ".join(f"({p}: kv)" for p in free) + f" (K: {k_ty}) (it: {it_ty}) "
            + " ".join(f"({x}: kv)" for x in st) + " {struct it} : res kv :=\n  match it with\n" + cases + "  end.\n")
        # after the loop: only what was local before it
        self.locals = set(before)
        after = self.block(rest, k)
        kfun = ("(fun " + " ".join(st) + f" => {after})") if st else f"({after})"
        call = "(" + " ".join([fname] + free + [kfun, it_term] + st) + ")"
        return self.wrap(pre, call)

    def translate(self, fn: ast.FunctionDef) -> str:
        body = self.block(list(fn.body), None)
        ps = " ".join(f"({p}: kv)" for p in self.k.params)
        return "\n".join(self.aux) + ("\n" if self.aux else "") + \
            f"Definition {self.k.coq_name} {ps} : res kv :=\n  {body}.\n"


class EmitTranslator(LoopTranslator):
    """pack_type_with_overridden_serialization / unpack_type_with_overridden_deserialization:
    what the registry's first handler emits for the resolved method.  The final branch (bind the
    callable on the attrs holder under a fresh name, emit `holder.name(<expression>)`) is matched
    textually and abstracted to k_call_expr; any other text fails closed."""

    fn_callees: dict[str, str] = {}
    tail: list[str] = []
    method_var = ""

    def expr(self, e: ast.expr):
        key = ast.unparse(e)
        if key in self.k.abstr:
            return [], self.k.abstr[key]
        if isinstance(e, ast.Attribute) and e.attr == "expression" and isinstance(e.value, ast.Name) and e.value.id in self.locals:
            t = self.fresh()
            return [(t, f"k_wrapper_expression v_{e.value.id}")], t
        return super().expr(e)

    def call(self, e: ast.Call):
        txt = ast.unparse(e)
        if txt in self.fn_callees:
            t = self.fresh()
            return [(t, self.fn_callees[txt])], t
        f = ast.unparse(e.func)
        if f == "isinstance" and len(e.args) == 2 and not e.keywords and ast.unparse(e.args[1]) == "ExpressionWrapper":
            pre, a = self.expr(e.args[0])
            return pre, f"(KBool (k_isinstance_wrapper {a}))"
        if f == "callable" and len(e.args) == 1 and not e.keywords:
            pre, a = self.expr(e.args[0])
            return pre, f"(KBool (k_callable {a}))"
        return super().call(e)

    def block(self, stmts, k):
        if stmts and [ast.unparse(x) for x in stmts[:3]] == self.tail and len(stmts) == 3:
            return f"Ok (k_call_expr v_{self.method_var} a_expression)"
        for x in stmts[:1]:
            if isinstance(x, ast.Assign) and isinstance(x.value, ast.JoinedStr):
                raise Unsupported("emit tail differs from the expected text: " + " | ".join(ast.unparse(y) for y in stmts[:3]))
        return super().block(stmts, k)


SETATTR_TEXT = ("def __setattr__(self, key: str, value: Any) -> None:\n    if key == 'type':\n"
                "        self.origin_type = get_type_origin(value)\n    super().__setattr__(key, value)")
REGISTRY_LOOP_TEXT = "for packer in self._registry:\n    expr = packer(spec)\n    if expr is not None:\n        return expr"


class RegistryTranslator(LoopTranslator):
    """Registry.get up to the handler loop: how the three type keys of a ValueSpec are derived.
    The spec is a namespace; `spec.type = v` also sets origin_type (ValueSpec.__setattr__, verified textually);
    get_real_type (substitution of the field's resolved type parameters), get_type_origin and is_annotated are
    function parameters of the translated definition.  The handler loop itself is not translated: the function
    returns the prepared spec; that the loop text is the plain first-hit loop is verified."""

    SPEC_ATTRS = {"type", "annotated_type", "origin_type"}

    def expr(self, e: ast.expr):
        if isinstance(e, ast.Attribute) and isinstance(e.value, ast.Name) and e.value.id == "spec" and e.attr in self.SPEC_ATTRS:
            t = self.fresh()
            return [(t, f"k_getattr2 v_spec (KStr {coq_string(e.attr)})")], t
        return super().expr(e)

    def call(self, e: ast.Call):
        f = ast.unparse(e.func)
        if e.keywords:
            raise Unsupported(f"keyword call {ast.unparse(e)}")
        if f == "is_annotated" and len(e.args) == 1:
            pre, a = self.expr(e.args[0])
            return pre, f"(KBool (f_is_annotated {a}))"
        if f == "get_type_origin" and len(e.args) == 1:
            pre, a = self.expr(e.args[0])
            return pre, f"(f_origin {a})"
        if f == "spec.builder.get_real_type" and len(e.args) == 2 and ast.unparse(e.args[0]) == "spec.field_ctx.name":
            pre, a = self.expr(e.args[1])
            return pre, f"(f_real_type {a})"
        return super().call(e)

    def block(self, stmts, k):
        if stmts:
            s0, rest = stmts[0], stmts[1:]
            txt = ast.unparse(s0)
            if txt == "spec.builder.add_type_modules(spec.type)":
                return self.block(rest, k)           # imports for the generated module only
            if isinstance(s0, ast.For):
                if txt != REGISTRY_LOOP_TEXT or len(rest) != 1 or not isinstance(rest[0], ast.Raise):
                    raise Unsupported("Registry.get: handler loop differs from the first-hit loop: " + txt[:80])
                return "Ok v_spec"
            if (isinstance(s0, ast.Assign) and len(s0.targets) == 1 and isinstance(s0.targets[0], ast.Attribute)
                    and ast.unparse(s0.targets[0]) == "spec.type"):
                pv, v = self.expr(s0.value)
                return self.wrap(pv + [("v_spec", f'k_setattr v_spec (KStr "origin_type") (f_origin {v})'),
                                       ("v_spec", f'k_setattr v_spec (KStr "type") {v}')], self.block(rest, k))
        return super().block(stmts, k)

    def translate(self, fn: ast.FunctionDef) -> str:
        body = self.block(list(fn.body), None)
        return (f"Definition {self.k.coq_name} (f_real_type: kv -> kv) (f_origin: kv -> kv) (f_is_annotated: kv -> bool) "
                f"(v_spec: kv) : res kv :=\n  {body}.\n")


CONST_SLICES = {(-1, 0, -1): "k_slice_rev_tail", (1, None, None): "k_slice_tail"}


class FieldsTranslator(LoopTranslator):
    """CodeBuilder.dataclass_fields: which Field object (hence which field options) a class uses for a name.
    Adds: `{}`; `d[k] = v`; `d.pop(k, None)`; `x.values()` as an iterable; slices with constant bounds out of
    CONST_SLICES (each a named primitive, validated against CPython by the harness); loop-local variables whose
    first mention in the loop body is a top-level assignment; is_dataclass / isinstance(x, Field)."""

    def expr(self, e: ast.expr):
        key = ast.unparse(e)
        if key in self.k.abstr:
            return [], self.k.abstr[key]
        if isinstance(e, ast.Dict) and not e.keys:
            return [], "(KDict [])"
        if isinstance(e, ast.Attribute) and e.attr == "name" and isinstance(e.value, ast.Name) and e.value.id in self.locals:
            t = self.fresh()
            return [(t, f'k_getattr2 v_{e.value.id} (KStr "name")')], t
        if isinstance(e, ast.Subscript) and isinstance(e.slice, ast.Slice):
            def const(x):
                if x is None:
                    return None
                if isinstance(x, ast.Constant) and isinstance(x.value, int):
                    return x.value
                if isinstance(x, ast.UnaryOp) and isinstance(x.op, ast.USub) and isinstance(x.operand, ast.Constant):
                    return -x.operand.value
                raise Unsupported("non-constant slice bound")
            b = (const(e.slice.lower), const(e.slice.upper), const(e.slice.step))
            if b not in CONST_SLICES:
                raise Unsupported(f"slice {b}")
            pre, a = self.expr(e.value)
            t = self.fresh()
            return pre + [(t, f"{CONST_SLICES[b]} {a}")], t
        return super().expr(e)

    def call(self, e: ast.Call):
        f = ast.unparse(e.func)
        if f == "is_dataclass" and len(e.args) == 1 and not e.keywords:
            pre, a = self.expr(e.args[0])
            return pre, f"(KBool (k_is_dataclass {a}))"
        if f == "isinstance" and len(e.args) == 2 and ast.unparse(e.args[1]) == "Field":
            pre, a = self.expr(e.args[0])
            return pre, f"(KBool (k_is_field {a}))"
        if f == "getattr" and len(e.args) == 2 and not e.keywords:
            p1, a = self.expr(e.args[0]); p2, b = self.expr(e.args[1])
            t = self.fresh()
            return p1 + p2 + [(t, f"k_getattr2 {a} {b}")], t
        if isinstance(e.func, ast.Attribute) and e.func.attr == "values" and not e.args and not e.keywords:
            pre, a = self.expr(e.func.value)
            t = self.fresh()
            return pre + [(t, f"k_dict_values {a}")], t
        return super().call(e)

    @staticmethod
    def mutated_by_method(node):
        if (isinstance(node, ast.Call) and isinstance(node.func, ast.Attribute)
                and node.func.attr in ("insert", "append", "extend", "pop") and isinstance(node.func.value, ast.Name)):
            return node.func.value.id
        return None

    def assigned(self, stmts):
        out = super().assigned(stmts)
        for s in stmts:
            for node in ast.walk(s):
                if isinstance(node, ast.Assign):
                    for t in node.targets:
                        if isinstance(t, ast.Subscript) and isinstance(t.value, ast.Name) and t.value.id not in out:
                            out.append(t.value.id)
        return out

    def block(self, stmts, k):
        if stmts:
            s0, rest = stmts[0], stmts[1:]
            if (isinstance(s0, ast.Assign) and len(s0.targets) == 1 and isinstance(s0.targets[0], ast.Subscript)
                    and isinstance(s0.targets[0].value, ast.Name) and not isinstance(s0.targets[0].slice, ast.Slice)):
                nm = s0.targets[0].value.id
                if nm not in self.locals:
                    raise Unsupported(f"free name {nm}")
                pk, kk = self.expr(s0.targets[0].slice)
                pv, v = self.expr(s0.value)
                return self.wrap(pk + pv + [(f"v_{nm}", f"k_dict_set v_{nm} {kk} {v}")], self.block(rest, k))
            if (isinstance(s0, ast.Expr) and isinstance(s0.value, ast.Call) and isinstance(s0.value.func, ast.Attribute)
                    and s0.value.func.attr == "pop"):
                c = s0.value
                if len(c.args) != 2 or c.keywords or ast.unparse(c.args[1]) != "None" or not isinstance(c.func.value, ast.Name):
                    raise Unsupported(f"pop call {ast.unparse(c)}")
                nm = c.func.value.id
                if nm not in self.locals:
                    raise Unsupported(f"free name {nm}")
                pk, kk = self.expr(c.args[0])
                return self.wrap(pk + [(f"v_{nm}", f"k_dict_pop v_{nm} {kk}")], self.block(rest, k))
        return super().block(stmts, k)

    def for_loop(self, s: ast.For, rest, k):
        # loop-local variables: first mention in the body is a top-level `w = ...` (fresh in every iteration)
        before = set(self.locals)
        inner_targets = {n.target.id for n in ast.walk(s) if isinstance(n, ast.For) and isinstance(n.target, ast.Name)}
        fresh_locals = []
        for w in self.assigned(s.body):
            if w in before or w in inner_targets:
                continue
            first = next((st for st in s.body if any(isinstance(n, ast.Name) and n.id == w for n in ast.walk(st))), None)
            ok = (isinstance(first, ast.Assign) and len(first.targets) == 1 and isinstance(first.targets[0], ast.Name)
                  and first.targets[0].id == w
                  and not any(isinstance(n, ast.Name) and n.id == w for n in ast.walk(first.value)))
            if not ok:
                raise Unsupported(f"variable {w} first assigned inside a loop, not by a leading assignment")
            fresh_locals.append(w)
        if not fresh_locals:
            return super().for_loop(s, rest, k)
        # hide them from the state computation of the generic loop translation
        saved_assigned = self.assigned
        self.assigned = lambda stmts, _f=saved_assigned: [w for w in _f(stmts) if w not in fresh_locals]
        try:
            return super().for_loop(s, rest, k)
        finally:
            self.assigned = saved_assigned


# ----------------------------------------------------------------------------------------

def _check_signature(fn: ast.FunctionDef, names: list[str], decorators: list[str]):
    got = [a.arg for a in fn.args.args]
    if got != names or fn.args.vararg or fn.args.kwarg or fn.args.kwonlyargs or fn.args.defaults:
        raise Unsupported(f"{fn.name}: parameters {got}, expected {names}")
    decs = [ast.unparse(d) for d in fn.decorator_list]
    if decs != decorators:
        raise Unsupported(f"{fn.name}: decorators {decs}")


def _single_definition(name: str):
    """`spec.builder.iter_serialization_strategies` must mean CodeBuilder's: no other class of the
    package may define a method of that name (CodecCodeBuilder inherits it)."""
    hits = []
    root = os.path.join(REPO, "mashumaro")
    for dp, _dn, fns in os.walk(root):
        for f in fns:
            if f.endswith(".py"):
                p = os.path.join(dp, f)
                if re.search(r"def\s+" + re.escape(name) + r"\s*\(", open(p).read()):
                    hits.append(os.path.relpath(p, REPO))
    if hits != ["mashumaro/core/meta/code/builder.py"]:
        raise Unsupported(f"{name} defined in {hits}")


def gen() -> str:
    bsrc = os.path.join(REPO, "mashumaro/core/meta/code/builder.py")
    psrc = os.path.join(REPO, "mashumaro/core/meta/types/pack.py")
    usrc = os.path.join(REPO, "mashumaro/core/meta/types/unpack.py")
    bmod = ast.parse(open(bsrc).read())
    pmod = ast.parse(open(psrc).read())
    umod = ast.parse(open(usrc).read())
    _single_definition("iter_serialization_strategies")
    _single_definition("__iter_serialization_strategies")

    out = HEADER.format(src="builder.py (iter_serialization_strategies, __iter_serialization_strategies), "
                            "pack.py (get_overridden_serialization_method), unpack.py (get_overridden_deserialization_method)")
    out = out.replace("From Verif Require Import Regex PyK.", "From Verif Require Import Regex PyK PyK_strat.")

    babstr = {"self.dialect": "a_dialect", "self.get_config()": "a_cfg", "self.default_dialect": "a_default_dialect"}

    # 1. __iter_serialization_strategies(self, ftype)
    fn = find_function(bmod, "CodeBuilder.__iter_serialization_strategies")
    _check_signature(fn, ["self", "ftype"], ["typing.no_type_check"])
    k = Kernel(func="CodeBuilder.__iter_serialization_strategies", coq_name="iter_serialization_strategies_inner",
               params=BUILDER + ["v_ftype"], abstr=dict(babstr))
    tr = GenTranslator(k, bmod)
    tr.locals.add("ftype")
    out += tr.translate(fn) + "\n"

    # 2. iter_serialization_strategies(self, metadata, ftype)
    fn = find_function(bmod, "CodeBuilder.iter_serialization_strategies")
    _check_signature(fn, ["self", "metadata", "ftype"], ["typing.no_type_check"])
    k = Kernel(func="CodeBuilder.iter_serialization_strategies", coq_name="iter_serialization_strategies",
               params=BUILDER + ["v_metadata", "v_ftype"], abstr=dict(babstr))
    tr = GenTranslator(k, bmod)
    tr.gen_callees = {"self.__iter_serialization_strategies": ("iter_serialization_strategies_inner", list(BUILDER))}
    tr.locals.update({"metadata", "ftype"})
    out += tr.translate(fn) + "\n"

    # 3./4. the consumers
    sabstr = {"spec.field_ctx.metadata": "a_metadata", "spec.type": "a_type", "spec.origin_type": "a_origin",
              "spec.annotated_type": "a_annotated", "pass_through": "k_pass_through"}
    for mod, src, fname in ((pmod, psrc, "get_overridden_serialization_method"),
                            (umod, usrc, "get_overridden_deserialization_method")):
        fn = find_function(mod, fname)
        _check_signature(fn, ["spec"], [])
        # `pass_through` must be the helper singleton in that module
        imported = any(isinstance(n, ast.ImportFrom) and n.module == "mashumaro.helper"
                       and any(a.name == "pass_through" and a.asname is None for a in n.names) for n in mod.body)
        if not imported:
            raise Unsupported(f"{fname}: pass_through is not mashumaro.helper.pass_through")
        k = Kernel(func=fname, coq_name=fname,
                   params=BUILDER + ["a_metadata", "a_annotated", "a_type", "a_origin"], abstr=dict(sabstr))
        tr = LoopTranslator(k, mod)
        tr.gen_callees = {"spec.builder.iter_serialization_strategies": ("iter_serialization_strategies", list(BUILDER))}
        out += tr.translate(fn) + "\n"

    # 5./6. what the first registry handler emits for the resolved method
    eabstr = {"pass_through": "k_pass_through", "spec.expression": "a_expression"}
    for mod, fname, callee, mvar, tail in (
        (pmod, "pack_type_with_overridden_serialization", "get_overridden_serialization_method", "serialization_method",
         ["overridden_fn = f'__{spec.field_ctx.name}_serialize_{random_hex()}'",
          "setattr(spec.attrs, overridden_fn, staticmethod(serialization_method))",
          "return f'{spec.self_attrs_name}.{overridden_fn}({spec.expression})'"]),
        (umod, "unpack_type_with_overridden_deserialization", "get_overridden_deserialization_method", "deserialization_method",
         ["overridden_fn = f'__{spec.field_ctx.name}_deserialize_{random_hex()}'",
          "setattr(spec.attrs, overridden_fn, deserialization_method)",
          "return f'{spec.cls_attrs_name}.{overridden_fn}({spec.expression})'"])):
        fn = find_function(mod, fname)
        _check_signature(fn, ["spec"], ["register"])
        # it must be the first handler of the registry: the first @register function of the module
        first = next((n.name for n in mod.body if isinstance(n, ast.FunctionDef)
                      and any(ast.unparse(d) == "register" for d in n.decorator_list)), None)
        if first != fname:
            raise Unsupported(f"{fname} is not the first registered handler (first is {first})")
        k = Kernel(func=fname, coq_name=fname,
                   params=BUILDER + ["a_metadata", "a_annotated", "a_type", "a_origin", "a_expression"], abstr=dict(eabstr))
        tr = EmitTranslator(k, mod)
        tr.fn_callees = {f"{callee}(spec)": "(" + " ".join([callee] + BUILDER + ["a_metadata", "a_annotated", "a_type", "a_origin"]) + ")"}
        tr.tail = tail
        tr.method_var = mvar
        out += tr.translate(fn) + "\n"

    # 7. Registry.get: derivation of the keys (annotated_type, type, origin_type) before the handlers run
    csrc = os.path.join(REPO, "mashumaro/core/meta/types/common.py")
    cmod = ast.parse(open(csrc).read())
    sa = find_function(cmod, "ValueSpec.__setattr__")
    if ast.unparse(sa) != SETATTR_TEXT:
        raise Unsupported("ValueSpec.__setattr__ differs: " + ast.unparse(sa)[:120])
    fn = find_function(cmod, "Registry.get")
    _check_signature(fn, ["self", "spec"], [])
    k = Kernel(func="Registry.get", coq_name="registry_prepare", params=["v_spec"], abstr={})
    tr = RegistryTranslator(k, cmod)
    tr.locals.add("spec")
    out += tr.translate(fn) + "\n"

    # 8. CodeBuilder.dataclass_fields: the Field (and so the field options) used for each name
    names = set()
    for n in bmod.body:
        if isinstance(n, ast.ImportFrom) and n.module == "dataclasses":
            names |= {a.name for a in n.names if a.asname is None}
    if not names >= {"_FIELDS", "MISSING", "Field", "is_dataclass"}:
        raise Unsupported("builder.py: _FIELDS/MISSING/Field/is_dataclass are not the dataclasses ones")
    fn = find_function(bmod, "CodeBuilder.dataclass_fields")
    _check_signature(fn, ["self"], ["property", "lru_cache()"])
    k = Kernel(func="CodeBuilder.dataclass_fields", coq_name="dataclass_fields",
               params=["a_mro", "a_own_names", "a_namespace"],
               abstr={"self.cls.__mro__": "a_mro", "self.__get_field_types(recursive=False)": "a_own_names",
                      "self.namespace": "a_namespace", "_FIELDS": '(KStr "__dataclass_fields__")', "MISSING": "KMissing"})
    tr = FieldsTranslator(k, bmod)
    out += tr.translate(fn) + "\n"
    return out
