"""Kernel K13C (property C13): how every codec and format mixin obtains its default dialect, and what the
format dialects say -- extracted from the AST of /repo on every run.

  codec_plan : list (string * string * string)
      (module, class, plan) for every Encoder/Decoder class of mashumaro/codecs/{basic,json,yaml,orjson,
      msgpack,toml}.py; plan is "direct" (default_dialect handed on unchanged) or "merge:<FormatDialect>"
      for exactly
          if default_dialect is not None: default_dialect = <FormatDialect>.merge(default_dialect)
          else:                           default_dialect = <FormatDialect>
      (the FORMAT dialect is the receiver of merge, so the user's dialect wins).
  format_dialect_options : list (string * list (string * kv))     option attributes each format dialect class binds
  format_dialect_strategies : list (string * smap)                its strategy map over the type ids below;
      pass_through = callable id 0, any other callable 100 + its index
  type_ids : list (string * nat)
  cache_name_parts : the constant pieces of the two cache attribute names of builder.py around {self.format_name}

Fail closed on any other shape."""
from __future__ import annotations

import ast
import os
import sys

HERE = os.path.dirname(os.path.abspath(__file__))
sys.path.insert(0, os.path.dirname(HERE))
from py2gallina import Unsupported, coq_string  # noqa: E402

NAME = "K13C"
REPO = os.environ.get("VERIF_REPO", "/repo")

CODECS = ["basic", "json", "yaml", "orjson", "msgpack", "toml"]
MIXINS = {"orjson": "OrjsonDialect", "msgpack": "MessagePackDialect", "toml": "TOMLDialect"}
TYPE_IDS = {"datetime": 1, "date": 2, "time": 3, "UUID": 4, "bytes": 5, "bytearray": 6}
COLL_IDS = {"list": 1, "dict": 2}


def codec_plans():
    out = []
    for m in CODECS:
        tree = ast.parse(open(os.path.join(REPO, f"mashumaro/codecs/{m}.py")).read())
        for cls in tree.body:
            if not isinstance(cls, ast.ClassDef):
                continue
            inits = [f for f in cls.body if isinstance(f, ast.FunctionDef) and f.name == "__init__"
                     and not any(ast.unparse(d) == "overload" for d in f.decorator_list)]
            if not inits:
                continue
            if len(inits) != 1:
                raise Unsupported(f"codecs/{m}.py {cls.name}: {len(inits)} __init__ bodies")
            body = inits[0].body
            news = [n for n in ast.walk(inits[0]) if isinstance(n, ast.Call) and ast.unparse(n.func) == "CodecCodeBuilder.new"]
            if len(news) != 1:
                raise Unsupported(f"codecs/{m}.py {cls.name}: CodecCodeBuilder.new called {len(news)} times")
            kw = {k.arg: ast.unparse(k.value) for k in news[0].keywords}
            if kw.get("default_dialect") != "default_dialect":
                raise Unsupported(f"codecs/{m}.py {cls.name}: default_dialect passed as {kw.get('default_dialect')!r}")
            assigns = [n for n in ast.walk(inits[0]) if isinstance(n, (ast.Assign, ast.AugAssign, ast.NamedExpr))
                       and "default_dialect" in [ast.unparse(t) for t in (n.targets if isinstance(n, ast.Assign) else [n.target])]]
            if not assigns:
                plan = "direct"
            else:
                first = body[0]
                ok = (isinstance(first, ast.If) and ast.unparse(first.test) == "default_dialect is not None"
                      and len(first.body) == 1 and len(first.orelse) == 1 and len(assigns) == 2)
                if ok:
                    a, b = ast.unparse(first.body[0]), ast.unparse(first.orelse[0])
                    name = b.removeprefix("default_dialect = ")
                    ok = name.isidentifier() and a == f"default_dialect = {name}.merge(default_dialect)" and b == f"default_dialect = {name}"
                if not ok:
                    raise Unsupported(f"codecs/{m}.py {cls.name}: default_dialect is computed in an unexpected way")
                plan = "merge:" + name
            out.append((m, cls.name, plan))
    return out


def dialect_tables():
    opts, strats = [], []
    fun_ids: dict[str, int] = {"pass_through": 0}

    def fid(e):
        t = ast.unparse(e)
        if t not in fun_ids:
            fun_ids[t] = 100 + len(fun_ids)
        return fun_ids[t]

    def tid(e):
        t = ast.unparse(e)
        if t not in TYPE_IDS:
            raise Unsupported(f"format dialect strategy for an unknown type {t}")
        return TYPE_IDS[t]

    for m, cname in MIXINS.items():
        tree = ast.parse(open(os.path.join(REPO, f"mashumaro/mixins/{m}.py")).read())
        cls = [c for c in tree.body if isinstance(c, ast.ClassDef) and c.name == cname]
        if len(cls) != 1 or [ast.unparse(b) for b in cls[0].bases] != ["Dialect"]:
            raise Unsupported(f"mixins/{m}.py: class {cname}(Dialect) not found")
        o, s = [], []
        for st in cls[0].body:
            if isinstance(st, ast.Expr) and isinstance(st.value, ast.Constant):
                continue
            if not (isinstance(st, ast.Assign) and len(st.targets) == 1 and isinstance(st.targets[0], ast.Name)):
                raise Unsupported(f"{cname}: unexpected statement {ast.unparse(st)[:50]!r}")
            name, v = st.targets[0].id, st.value
            if name == "serialization_strategy":
                if not isinstance(v, ast.Dict):
                    raise Unsupported(f"{cname}.serialization_strategy is not a dict display")
                for k, x in zip(v.keys, v.values):
                    if isinstance(x, ast.Dict):
                        ent = []
                        for dk, dv in zip(x.keys, x.values):
                            if not (isinstance(dk, ast.Constant) and dk.value in ("serialize", "deserialize")):
                                raise Unsupported(f"{cname}: strategy dict key {ast.unparse(dk)}")
                            ent.append(f"({coq_string(dk.value)}, {fid(dv)})")
                        s.append(f"({tid(k)}, SDict [" + "; ".join(ent) + "])")
                    elif ast.unparse(x) == "pass_through":
                        s.append(f"({tid(k)}, SStrat 0)")
                    else:
                        raise Unsupported(f"{cname}: strategy value {ast.unparse(x)}")
            elif name == "no_copy_collections":
                if not (isinstance(v, ast.Tuple) and all(ast.unparse(e) in COLL_IDS for e in v.elts)):
                    raise Unsupported(f"{cname}.no_copy_collections = {ast.unparse(v)}")
                o.append(f'({coq_string(name)}, KTuple [' + "; ".join(f"KObj {COLL_IDS[ast.unparse(e)]}" for e in v.elts) + "])")
            elif isinstance(v, ast.Constant) and isinstance(v.value, bool):
                o.append(f"({coq_string(name)}, KBool {'true' if v.value else 'false'})")
            else:
                raise Unsupported(f"{cname}.{name} = {ast.unparse(v)}")
        opts.append((cname, o))
        strats.append((cname, s))
    return opts, strats


def cache_parts():
    tree = ast.parse(open(os.path.join(REPO, "mashumaro/core/meta/code/builder.py")).read())
    found = {"packer": set(), "unpacker": set()}
    for n in ast.walk(tree):
        if isinstance(n, ast.Assign) and len(n.targets) == 1 and ast.unparse(n.targets[0]) == "cache_name":
            v = n.value
            if not (isinstance(v, ast.JoinedStr) and len(v.values) == 3 and isinstance(v.values[0], ast.Constant)
                    and isinstance(v.values[1], ast.FormattedValue) and ast.unparse(v.values[1].value) == "self.format_name"
                    and isinstance(v.values[2], ast.Constant)):
                raise Unsupported(f"cache_name = {ast.unparse(v)}: not '<const>{{self.format_name}}<const>'")
            kind = "unpacker" if "unpacker" in v.values[2].value else "packer"
            found[kind].add((v.values[0].value, v.values[2].value))
    for k, vset in found.items():
        if len(vset) != 1:
            raise Unsupported(f"{k} cache name has {len(vset)} different spellings")
    return next(iter(found["packer"])), next(iter(found["unpacker"]))


def gen() -> str:
    plans = codec_plans()
    opts, strats = dialect_tables()
    (pp, ps), (up, us) = cache_parts()
    out = ("(* GENERATED by tools/kernels/k13c_codec_plan.py from mashumaro/codecs/*.py, mashumaro/mixins/*.py,\n"
           "   mashumaro/core/meta/code/builder.py -- do not edit.  Regenerated from /repo on every check run. *)\n"
           "From Coq Require Import List String ZArith.\nFrom Verif Require Import Regex PyK DialectMerge.\n"
           "Import ListNotations.\nOpen Scope string_scope.\nOpen Scope nat_scope.\n\n")
    out += ("Definition codec_plan : list (string * string * string) :=\n  ["
            + ";\n   ".join(f"({coq_string(a)}, {coq_string(b)}, {coq_string(c)})" for a, b, c in plans) + "].\n\n")
    out += ("Definition format_dialect_options : list (string * list (string * kv)) :=\n  ["
            + ";\n   ".join(f"({coq_string(n)}, [" + "; ".join(o) + "])" for n, o in opts) + "].\n\n")
    out += ("Definition format_dialect_strategies : list (string * smap) :=\n  ["
            + ";\n   ".join(f"({coq_string(n)}, [" + "; ".join(s) + "])" for n, s in strats) + "].\n\n")
    out += ("Definition type_ids : list (string * nat) :=\n  [" + "; ".join(f"({coq_string(k)}, {v})" for k, v in TYPE_IDS.items()) + "].\n\n")
    out += (f"Definition packer_cache_parts : string * string := ({coq_string(pp)}, {coq_string(ps)}).\n"
            f"Definition unpacker_cache_parts : string * string := ({coq_string(up)}, {coq_string(us)}).\n")
    return out


if __name__ == "__main__":
    print(gen())
