"""K118a: what unpack.py emits for a collection type, as far as object identity is concerned
(anchor "unpackers always build new containers"), translated to Gallina on every run:

* `unpack_collection`: the if/elif chain becomes `unpack_collection_decision : ufacts -> udecision`;
  every test must be one of the recognised predicates on the origin type, every returned code template is
  classified structurally (constructor applied to a comprehension over spec.expression / the bare
  spec.expression / a shallow copy ...);
* `unpack_tuple`, `unpack_named_tuple`, `unpack_typed_dict`: the list of result shapes of their returned
  templates / of the lines of the method they generate;
* `origin_facts`: for each origin of the sharing model, the value of the consulted predicates
  (issubclass / `is` on the classes the source names, resolved through the import table of unpack.py).

Fail closed: any statement, test, template or generated line outside the recognised vocabulary raises."""
from __future__ import annotations

import ast
import importlib
import os
import re

from py2gallina import Unsupported

NAME = "K118a"
REPO = os.environ.get("VERIF_REPO", "/repo")
UNPACK = "mashumaro/core/meta/types/unpack.py"
COMMON = "mashumaro/core/meta/types/common.py"

UCLASS = {
    "collections.abc.Collection": "UCollection", "enum.Enum": "UEnum", "typing.ByteString": "UByteString",
    "builtins.bytes": "UBytes", "builtins.bytearray": "UByteArray", "builtins.str": "UStr", "builtins.list": "UList",
    "collections.deque": "UDeque", "builtins.tuple": "UTuple", "builtins.frozenset": "UFrozenSet",
    "collections.abc.Set": "USet", "collections.ChainMap": "UChainMap", "collections.OrderedDict": "UOrderedDict",
    "collections.defaultdict": "UDefaultDict", "collections.Counter": "UCounter",
    "types.MappingProxyType": "UMappingProxy", "collections.abc.Mapping": "UMapping",
    "collections.abc.Sequence": "USequence",
}
STDLIB = ("builtins", "collections", "collections.abc", "enum", "typing", "types")

# constructor text in a template -> uctor
CTORS = {"list": "CList", "collections.deque": "CDeque", "tuple": "CTuple", "frozenset": "CFrozenSet", "set": "CSet",
         "dict": "CDict", "collections.OrderedDict": "COrderedDict", "collections.defaultdict": "CDefaultDict",
         "collections.Counter": "CCounter", "collections.ChainMap": "CChainMap", "types.MappingProxyType": "CMappingProxy"}
SEQ = r"\[<I> for value in <E>\]"
MAP = r"\{<I>: ?<I> for key, value in <E>\.items\(\)\}"
CHAIN = r"\*\[\{<I>: ?<I> for key, value in m\.items\(\)\} for m in <E>\]"
SCALARS = {"decodebytes(<E>.encode())": "UDBuild CBytes BScalar",
           "bytearray(decodebytes(<E>.encode()))": "UDBuild CByteArray BScalar",
           "str(<E>)": "UDBuild CStr BScalar"}

# origins of the sharing model (Share.origin) -> the class get_type_origin yields
ORIGINS = [("OList", "builtins.list"), ("ODict", "builtins.dict"), ("OSet", "builtins.set"),
           ("OFrozenSet", "builtins.frozenset"), ("ODeque", "collections.deque"), ("OTuple", "builtins.tuple"),
           ("OOrderedDict", "collections.OrderedDict"), ("ODefaultDict", "collections.defaultdict"),
           ("OCounter", "collections.Counter"), ("OSequence", "collections.abc.Sequence"),
           ("OMutableSequence", "collections.abc.MutableSequence"), ("OAbstractSet", "collections.abc.Set"),
           ("OMutableSet", "collections.abc.MutableSet"), ("OMapping", "collections.abc.Mapping"),
           ("OMutableMapping", "collections.abc.MutableMapping")]
# further classes the chain distinguishes (outside Share.origin): facts are emitted for the examples
EXTRA = [("xf_chainmap", "collections.ChainMap"), ("xf_mappingproxy", "types.MappingProxyType"),
         ("xf_bytes", "builtins.bytes"), ("xf_bytearray", "builtins.bytearray"), ("xf_str", "builtins.str")]


def u(e) -> str:
    return ast.unparse(e)


class Imports:
    """import table of a module: local name -> qualified stdlib name"""

    def __init__(self, mod: ast.Module):
        self.names, self.modules = {}, set()
        for n in mod.body:
            if isinstance(n, ast.Import):
                for a in n.names:
                    if a.asname is None:
                        self.modules.add(a.name)
            elif isinstance(n, ast.ImportFrom) and n.level == 0 and n.module:
                for a in n.names:
                    self.names[a.asname or a.name] = f"{n.module}.{a.name}"

    def qualify(self, e: ast.expr) -> str:
        txt = u(e)
        if isinstance(e, ast.Name):
            if e.id in self.names:
                return self.names[e.id]
            import builtins
            if hasattr(builtins, e.id):
                return "builtins." + e.id
            raise Unsupported(f"K118a: unresolved class name {txt}")
        if isinstance(e, ast.Attribute):
            root = txt.split(".")[0]
            if root in self.modules or any(m.startswith(root + ".") for m in self.modules):
                return txt
        raise Unsupported(f"K118a: unresolved class expression {txt}")


def resolve(q: str):
    mod, _, attr = q.rpartition(".")
    if mod not in STDLIB:
        raise Unsupported(f"K118a: class {q} is not from a whitelisted stdlib module")
    return getattr(importlib.import_module(mod), attr)


def fn_of(mod: ast.Module, name: str) -> ast.FunctionDef:
    f = next((n for n in mod.body if isinstance(n, ast.FunctionDef) and n.name == name), None)
    if f is None:
        raise Unsupported(f"K118a: {name} not found")
    return f


def check_helpers():
    mod = ast.parse(open(os.path.join(REPO, COMMON)).read())
    want = {
        "ensure_generic_collection": "if not is_generic(spec.type):\n    return False\nreturn True",
        "ensure_generic_collection_subclass":
            "return issubclass(spec.origin_type, checked_types) and ensure_generic_collection(spec)",
        "ensure_generic_mapping":
            "return ensure_generic_collection_subclass(spec, checked_type) and ensure_mapping_key_type_hashable(spec, args)",
    }
    for name, body in want.items():
        got = "\n".join(u(s) for s in fn_of(mod, name).body)
        if got != body:
            raise Unsupported(f"K118a: helper {name} changed: {got[:120]}")
    # the hashability test either raises or returns True: it never selects another branch
    for r in ast.walk(fn_of(mod, "ensure_mapping_key_type_hashable")):
        if isinstance(r, ast.Return) and u(r.value) != "True":
            raise Unsupported("K118a: ensure_mapping_key_type_hashable may return something other than True")


class Chain:
    def __init__(self, imports: Imports):
        self.imports = imports
        self.used = []          # uclass constructors consulted, in order of appearance

    def ucls(self, e: ast.expr) -> str:
        q = self.imports.qualify(e)
        if q not in UCLASS:
            raise Unsupported(f"K118a: class {q} is outside the universe")
        if q not in self.used:
            self.used.append(q)
        return UCLASS[q]

    def test(self, e: ast.expr) -> str:
        if isinstance(e, ast.UnaryOp) and isinstance(e.op, ast.Not):
            return f"(negb {self.test(e.operand)})"
        if isinstance(e, ast.BoolOp):
            op = " && " if isinstance(e.op, ast.And) else " || "
            return "(" + op.join(self.test(v) for v in e.values) + ")"
        if isinstance(e, ast.Call) and not e.keywords:
            fn, args = u(e.func), e.args
            a = [u(x) for x in args]
            if fn == "issubclass" and len(a) == 2 and a[0] == "spec.origin_type":
                return f"(uf_sub f {self.ucls(args[1])})"
            if fn == "ensure_generic_collection_subclass" and len(a) >= 2 and a[0] == "spec":
                subs = " || ".join(f"uf_sub f {self.ucls(x)}" for x in args[1:])
                return f"(({subs}) && uf_generic f)"
            if fn == "ensure_generic_mapping" and len(a) == 3 and a[:2] == ["spec", "args"]:
                return f"(uf_sub f {self.ucls(args[2])} && uf_generic f)"
            if fn == "ensure_generic_collection" and a == ["spec"]:
                return "(uf_generic f)"
            if fn == "is_named_tuple" and a == ["spec.origin_type"]:
                return "(uf_named f)"
            if fn == "is_typed_dict" and a == ["spec.origin_type"]:
                return "(uf_typed_dict f)"
        if (isinstance(e, ast.Compare) and len(e.ops) == 1 and isinstance(e.ops[0], ast.Is)
                and u(e.left) == "spec.origin_type"):
            return f"(uf_is f {self.ucls(e.comparators[0])})"
        raise Unsupported(f"K118a: unknown test {u(e)[:80]}")

    def template(self, e: ast.expr, env: set) -> str:
        if isinstance(e, ast.Constant) and isinstance(e.value, str):
            return e.value
        if isinstance(e, ast.Attribute) and u(e) == "spec.expression":
            return "<E>"
        if not isinstance(e, ast.JoinedStr):
            raise Unsupported(f"K118a: returned expression is not a template: {u(e)[:80]}")
        out = []
        for v in e.values:
            if isinstance(v, ast.Constant):
                out.append(str(v.value))
            elif isinstance(v, ast.FormattedValue) and v.conversion == -1 and v.format_spec is None:
                x = v.value
                if isinstance(x, ast.Call) and u(x.func) == "inner_expr":
                    out.append("<I>")
                elif u(x) == "spec.expression":
                    out.append("<E>")
                elif isinstance(x, ast.Name) and x.id in env:
                    out.append("<T>" if x.id == "default_type" else "<I>")
                else:
                    raise Unsupported(f"K118a: unknown template hole {u(x)[:60]}")
            else:
                raise Unsupported("K118a: formatted hole with conversion / format spec")
        return "".join(out)

    NONE = "UDNone"
    DIRECT = {"unpack_named_tuple(spec)": "UDNamedTuple", "unpack_tuple(spec, args)": "UDTuple",
              "unpack_typed_dict(spec)": "UDTypedDict"}
    REGISTRY = "UnpackerRegistry.get"
    LOCAL_DEFS = ("inner_expr",)

    def classify(self, tpl: str) -> str:
        return classify(tpl)

    def ret(self, e, env: set) -> str:
        if e is None or (isinstance(e, ast.Constant) and e.value is None):
            return self.NONE
        txt = u(e)
        if txt in self.DIRECT:
            return self.DIRECT[txt]
        if isinstance(e, ast.Call) and u(e.func) == "TypeMatchEligibleExpression" and len(e.args) == 1 and not e.keywords:
            e = e.args[0]
        return self.classify(self.template(e, env))

    def block(self, stmts, env: set) -> str:
        if not stmts:
            return self.NONE        # falls off the end: the function returns None
        s0, rest = stmts[0], list(stmts[1:])
        if isinstance(s0, ast.Return):
            return self.ret(s0.value, env)
        if isinstance(s0, ast.If):
            then = self.block(list(s0.body) + rest, set(env))
            els = self.block(list(s0.orelse) + rest, set(env))
            return f"(if {self.test(s0.test)} then {then} else {els})"
        if isinstance(s0, ast.Expr) and isinstance(s0.value, ast.Call) and u(s0.value.func) in (
                "spec.builder.ensure_module_imported", "spec.builder.ensure_object_imported"):
            return self.block(rest, env)
        if isinstance(s0, ast.Expr) and isinstance(s0.value, ast.Constant) and isinstance(s0.value.value, str):
            return self.block(rest, env)
        if isinstance(s0, ast.Assign) and len(s0.targets) == 1 and isinstance(s0.targets[0], ast.Name):
            t, v = s0.targets[0].id, s0.value
            if t == "args" and u(v) == "get_args(spec.type)":
                return self.block(rest, env)
            if isinstance(v, ast.Call) and u(v.func) == "spec.builder.get_type_name_identifier" and t == "default_type":
                return self.block(rest, env | {t})     # a type name pasted into the template, not a value
            if isinstance(v, ast.Call) and u(v.func) == "inner_expr":
                return self.block(rest, env | {t})     # the code of an item (un)packer
        if isinstance(s0, ast.FunctionDef) and s0.name in self.LOCAL_DEFS:
            if s0.name == "inner_expr":
                check_inner_expr(s0, self.REGISTRY)
            return self.block(rest, env)
        raise Unsupported(f"K118a: statement {u(s0)[:70]}")


def classify(tpl: str) -> str:
    if tpl in SCALARS:
        return SCALARS[tpl]
    if tpl == "<E>":
        return "UDSame"
    if tpl in ("<E>.copy()", "copy.copy(<E>)"):
        return "UDCopy"
    if re.fullmatch(SEQ, tpl):
        return "UDBuild CList BSeqComp"
    if re.fullmatch(MAP, tpl):
        return "UDBuild CDict BMapComp"
    m = re.fullmatch(r"(?P<ctor>[A-Za-z_][\w.]*)\((?P<t><T>, )?(?P<body>.*)\)", tpl)
    if m and m.group("ctor") in CTORS:
        c, body = CTORS[m.group("ctor")], m.group("body")
        if bool(m.group("t")) != (c == "CDefaultDict"):
            raise Unsupported(f"K118a: unexpected leading argument in {tpl[:80]}")
        if body == "<E>":
            return "UDCopy"
        for pat, b in ((SEQ, "BSeqComp"), (MAP, "BMapComp"), (CHAIN, "BChainComp")):
            if re.fullmatch(pat, body):
                return f"UDBuild {c} {b}"
    raise Unsupported(f"K118a: unknown code template {tpl[:100]}")


def check_inner_expr(fn: ast.FunctionDef, registry: str = "UnpackerRegistry.get"):
    rets = [n for n in ast.walk(fn) if isinstance(n, ast.Return)]
    if not rets:
        raise Unsupported("K118a: inner_expr has no return")
    for r in rets:
        v = r.value
        ok = (isinstance(v, ast.Call) and u(v.func) == registry and len(v.args) == 1
              and isinstance(v.args[0], ast.Call) and u(v.args[0].func) == "spec.copy"
              and any(k.arg == "expression" and u(k.value) == "v_name" for k in v.args[0].keywords))
        if not ok:
            raise Unsupported(f"K118a: inner_expr returns {u(v)[:80]}")


# ---------------------------------------------------------------------------
# unpack_tuple / unpack_named_tuple / unpack_typed_dict: result shapes
# ---------------------------------------------------------------------------
def holes(e: ast.expr, names: dict) -> str:
    """template text of a str / f-string with holes replaced by the markers in [names]"""
    if isinstance(e, ast.Constant) and isinstance(e.value, str):
        return e.value
    if not isinstance(e, ast.JoinedStr):
        raise Unsupported(f"K118a: not a template: {u(e)[:80]}")
    out = []
    for v in e.values:
        if isinstance(v, ast.Constant):
            out.append(str(v.value))
            continue
        if not isinstance(v, ast.FormattedValue) or v.format_spec is not None:
            raise Unsupported("K118a: formatted hole with a format spec")
        key = u(v.value) + ("!r" if v.conversion == 114 else "" if v.conversion == -1 else "!?")
        if key not in names:
            raise Unsupported(f"K118a: unknown template hole {key[:60]}")
        out.append(names[key])
    return "".join(out)


def unpacker_names_ok(fn: ast.FunctionDef, one="unpacker", many="unpackers", registry="UnpackerRegistry.get"):
    """`unpacker` is always a registry result; `unpackers` only collects them"""
    for n in ast.walk(fn):
        tgts = [u(t) for t in n.targets] if isinstance(n, ast.Assign) else (
            [u(n.target)] if isinstance(n, (ast.AnnAssign, ast.AugAssign)) else [])
        if one in tgts:
            v = n.value
            if not (isinstance(v, ast.Call) and u(v.func) == registry):
                raise Unsupported(f"K118: {fn.name}: {one} = {u(v)[:60]}")
        if many in tgts and (n.value is None or u(n.value) != "[]"):
            raise Unsupported(f"K118: {fn.name}: {many} = {u(n.value)[:60] if n.value else None}")
        if isinstance(n, ast.Call) and u(n.func) == many + ".append" and [u(a) for a in n.args] != [one]:
            raise Unsupported(f"K118: {fn.name}: {u(n)[:60]}")


def tuple_results(fn: ast.FunctionDef) -> list[str]:
    unpacker_names_ok(fn)
    names = {"unpacker": "<I>", "spec.expression": "<E>", "', '.join(unpackers)": "<IS>"}
    table = {"()": "UDBuild CTuple BEmpty", "tuple([<I> for value in <E>])": "UDBuild CTuple BSeqComp",
             "tuple([<IS>])": "UDBuild CTuple BItems", "<E>": "UDSame", "tuple(<E>)": "UDCopy"}
    out = []
    for r in [n for n in ast.walk(fn) if isinstance(n, ast.Return)]:
        t = "<E>" if u(r.value) == "spec.expression" else holes(r.value, names)
        if t not in table:
            raise Unsupported(f"K118a: unpack_tuple returns {t[:80]}")
        if table[t] not in out:
            out.append(table[t])
    return out


METHOD_HOLES = {"method_name": "<M>", "method_args": "<M>", "default_kwargs": "<M>", "spec.cls_attrs_name": "<M>",
                "field_type": "<T>", "unpacker": "<I>", "key!r": "<K>", "field!r": "<K>", "', '.join(unpackers)": "<IS>"}
COMMON_LINES = {"@classmethod", "def <M>(<M>, <M>):", "def <M>(<M>):", "setattr(<M>, '<M>', <M>)"}


def method_lines(fn: ast.FunctionDef) -> list[str]:
    out = []
    for n in ast.walk(fn):
        if isinstance(n, ast.Call) and u(n.func) in ("lines.append", "lines.indent") and n.args:
            out.append(holes(n.args[0], METHOD_HOLES))
    return out


def generated_method_result(fn: ast.FunctionDef, allowed: set, result_lines: dict) -> list[str]:
    """the lines of the generated method are within [allowed]; its `return` lines give the result shapes"""
    unpacker_names_ok(fn)
    lines = method_lines(fn)
    res = []
    for ln in lines:
        if ln in COMMON_LINES:
            continue
        if ln in result_lines:
            if result_lines[ln] not in res:
                res.append(result_lines[ln])
            continue
        if ln not in allowed:
            raise Unsupported(f"K118a: {fn.name} generates an unknown line {ln[:80]!r}")
    if not res:
        raise Unsupported(f"K118a: {fn.name}: no return line found")
    # the function itself returns the call of the generated method (or, named tuples without defaults, the
    # constructor call listing the item unpackers)
    for r in [n for n in ast.walk(fn) if isinstance(n, ast.Return)]:
        t = holes(r.value, METHOD_HOLES)
        if t == "<M>.<M>(<M>)":
            continue
        if t == "<T>(<IS>)":
            if "UDBuild CNamedTuple BItems" not in res:
                res.append("UDBuild CNamedTuple BItems")
            continue
        raise Unsupported(f"K118a: {fn.name} returns {t[:80]}")
    return res


def facts_term(origin_q: str, used: list[str]) -> str:
    cls = resolve(origin_q)
    sub = [UCLASS[q] for q in used if issubclass(cls, resolve(q))]
    same = [UCLASS[q] for q in used if cls is resolve(q)]

    def fun(cs):
        if not cs:
            return "(fun _ => false)"
        return "(fun c => match c with " + " | ".join(cs) + " => true | _ => false end)"
    return ("{| uf_sub := %s; uf_is := %s; uf_generic := true; uf_named := false; uf_typed_dict := false |}"
            % (fun(sub), fun(same)))


def gen() -> str:
    check_helpers()
    mod = ast.parse(open(os.path.join(REPO, UNPACK)).read())
    ch = Chain(Imports(mod))
    uc = fn_of(mod, "unpack_collection")
    term = ch.block(list(uc.body), set())
    out = [f"(* GENERATED by tools/kernels/k118a_unpack_collection.py from {UNPACK} (unpack_collection, unpack_tuple, "
           "unpack_named_tuple, unpack_typed_dict) -- do not edit. *)",
           "From Coq Require Import List Bool.", "From Verif Require Import Share UnpackDecision.",
           "Import ListNotations.", ""]
    out.append(f"Definition unpack_collection_decision (f: ufacts) : udecision :=\n  {term}.\n")
    out.append("Definition unpack_tuple_results : list udecision :=\n  [" + "; ".join(tuple_results(fn_of(mod, "unpack_tuple"))) + "].\n")
    nt = generated_method_result(
        fn_of(mod, "unpack_named_tuple"),
        {"fields = {}", "fields = []", "if <K> in value:", "fields[<K>] = <I>", "try:", "fields.append(<I>)",
         "except IndexError:", "if len(fields) < len(value):", "raise"},
        {"return <T>(**fields)": "UDBuild CNamedTuple BItems", "return <T>(*fields)": "UDBuild CNamedTuple BItems",
         "return value": "UDSame", "return <T>(*value)": "UDCopy", "return <T>(**value)": "UDCopy"})
    out.append("Definition unpack_named_tuple_results : list udecision :=\n  [" + "; ".join(nt) + "].\n")
    td = generated_method_result(
        fn_of(mod, "unpack_typed_dict"),
        {"d = {}", "d[<K>] = <I>", "key_value = value.get(<K>, MISSING)", "if key_value is not MISSING:"},
        {"return d": "UDBuild CDict BItems", "return value": "UDSame", "return dict(value)": "UDCopy",
         "return value.copy()": "UDCopy"})
    out.append("Definition unpack_typed_dict_results : list udecision :=\n  [" + "; ".join(td) + "].\n")
    # facts: the consulted predicates evaluated on the classes the model's origins stand for
    out.append("(* issubclass / `is` of the origin class against the classes named in the chain, computed by CPython *)")
    out.append("Definition origin_facts (o: origin) : ufacts :=\n  match o with")
    for coq, q in ORIGINS:
        out.append(f"  | {coq} => {facts_term(q, ch.used)}")
    out.append("  end.\n")
    for name, q in EXTRA:
        out.append(f"Definition {name} : ufacts :=\n  {facts_term(q, ch.used)}.\n")
    return "\n".join(out)
