"""K6A: mashumaro.jsonschema.schema.Instance.alias -- the key under which the JSON Schema lists a
dataclass field -- translated to Gallina.  It is a third copy of the alias precedence rule (the
serializer's is CodeBuilder.__get_field_alias = kernel K4); coq/theories/K6AProofs.v proves where
the two agree.

Abstraction: self.metadata -> the field's metadata mapping, self.get_owner_config().aliases ->
Config.aliases, self.name -> the field name.  A local that is assigned once and read once in the
next statement of the same block is inlined first (checked, fail closed)."""
from __future__ import annotations

import ast
import copy
import importlib.util
import os

from py2gallina import HEADER, Kernel, Unsupported, find_function, translate_kernel

# the translator subset of kernel K4 (for-loop with one accumulator, isinstance against a class
# imported from the expected module) is reused: both kernels translate the same rule
_spec = importlib.util.spec_from_file_location("vk_k4_alias_for_k6a", os.path.join(os.path.dirname(os.path.abspath(__file__)), "k4_alias.py"))
_k4 = importlib.util.module_from_spec(_spec)
_spec.loader.exec_module(_k4)

NAME = "K6A"
REPO = os.environ.get("VERIF_REPO", "/repo")
SRC_REL = "mashumaro/jsonschema/schema.py"


class _Subst(ast.NodeTransformer):
    def __init__(self, name, value):
        self.name, self.value, self.n = name, value, 0

    def visit_Name(self, node):
        if node.id == self.name and isinstance(node.ctx, ast.Load):
            self.n += 1
            return copy.deepcopy(self.value)
        return node


def count_name(node, name) -> int:
    return sum(1 for n in ast.walk(node) if isinstance(n, ast.Name) and n.id == name)


def inline_block(stmts, fn):
    out = []
    i = 0
    while i < len(stmts):
        s = stmts[i]
        if isinstance(s, ast.If):
            s = ast.If(test=s.test, body=inline_block(s.body, fn), orelse=inline_block(s.orelse, fn))
        if (isinstance(s, ast.Assign) and len(s.targets) == 1 and isinstance(s.targets[0], ast.Name)
                and i + 1 < len(stmts) and count_name(fn, s.targets[0].id) == 2
                and count_name(stmts[i + 1], s.targets[0].id) == 1 and s.targets[0].id != "alias"):
            sub = _Subst(s.targets[0].id, s.value)
            nxt = sub.visit(copy.deepcopy(stmts[i + 1]))
            if sub.n != 1:
                raise Unsupported(f"cannot inline local {s.targets[0].id}")
            out.append(nxt)
            i += 2
            continue
        out.append(s)
        i += 1
    return out


def gen() -> str:
    src = os.path.join(REPO, SRC_REL)
    module = ast.parse(open(src).read())
    fn = find_function(module, "Instance.alias")
    if [ast.unparse(d) for d in fn.decorator_list] != ["property"]:
        raise Unsupported("Instance.alias is not a plain property")
    body = inline_block(list(fn.body), fn)
    newfn = ast.FunctionDef(name="schema_alias", args=fn.args, body=body, decorator_list=[], lineno=1)
    ast.fix_missing_locations(newfn)
    mod2 = ast.Module(body=[newfn], type_ignores=[])
    # the abstracted attributes must be what we think they are
    cls = next(n for n in module.body if isinstance(n, ast.ClassDef) and n.name == "Instance")
    meta = next((n for n in cls.body if isinstance(n, ast.FunctionDef) and n.name == "metadata"), None)
    if meta is None or "self.__owner_builder.metadatas.get(self.name, {})" not in ast.unparse(meta):
        raise Unsupported("Instance.metadata is no longer the owner's field metadata")
    goc = next((n for n in cls.body if isinstance(n, ast.FunctionDef) and n.name == "get_owner_config"), None)
    if goc is None or "return self.__owner_builder.get_config()" not in ast.unparse(goc):
        raise Unsupported("Instance.get_owner_config changed")
    # Instance.annotations is the __metadata__ of an Annotated field type (else the empty default)
    post = next((n for n in cls.body if isinstance(n, ast.FunctionDef) and n.name == "__post_init__"), None)
    if post is None or "self.annotations = getattr(self.type, '__metadata__', [])" not in ast.unparse(post):
        raise Unsupported("Instance.annotations is no longer the Annotated metadata of the field type")
    k = Kernel(func="schema_alias", coq_name="schema_alias", params=["a_metadata", "a_annotations", "a_cfg_aliases", "a_fname"],
               abstr={"self.metadata": "a_metadata", "self.annotations": "a_annotations",
                      "self.get_owner_config().aliases": "a_cfg_aliases", "self.name": "a_fname"})
    # isinstance(annotation, Alias) is checked against the imports of schema.py, not of the sliced module
    mod2.body = [n for n in module.body if isinstance(n, (ast.Import, ast.ImportFrom))] + mod2.body
    text = HEADER.format(src=SRC_REL + " (Instance.alias)")
    text += "From Verif Require Import PyK_alias.\n\n"
    text += translate_kernel(src, k, mod2, translator=_k4.AliasTranslator)
    return text


if __name__ == "__main__":
    print(gen())
