"""Kernel K114c (property C14): how a generated method is INSTALLED (mashumaro/core/meta/code/builder.py:
add_pack_method / add_unpack_method and _add_setattr_method), translated on every run into coq/gen/K114c.v.

  <dir>_creates_cache   the test of the `if` that emits  `if not '<cache>' in cls.__dict__: cls.<cache> = {}`  in front of
                        the method definition, as a function of a_dsup = is_code_generation_option_enabled(ADD_DIALECT_SUPPORT)
  <dir>_dialect_branch  the test of the `if` that wraps the body into `if dialect is None: <lines> else: <with-dialect lines>`
                        (function of a_dsup and a_dialect = self.dialect)
  setattr_kind          _add_setattr_method as a decision tree over a_dialect = self.dialect and a_is_nailed: 0 = the
                        emitted line is setattr(cls, '<method>', <method>) (+ the public name for a mixin subclass),
                        1 = setattr(_cls, ...) on the codec's attribute holder, 2 = cls.<cache>[dialect] = <method>

The emitted texts at the leaves and the statement order (cache line, definition, body, setattr, compile) are checked
structurally; anything else raises Unsupported (stub kernel, coq/theories/LazyK114c.v stops compiling).
"""
from __future__ import annotations

import ast
import os

from py2gallina import HEADER, FnTranslator, Kernel, Unsupported, find_function

NAME = "K114c"
REPO = os.environ.get("VERIF_REPO", "/repo")
SRC = "mashumaro/core/meta/code/builder.py"


def _fn(module, name, params, abstr, body_stmts) -> str:
    newfn = ast.FunctionDef(name=name, args=ast.arguments(posonlyargs=[], args=[], kwonlyargs=[], kw_defaults=[], defaults=[]),
                            body=body_stmts, decorator_list=[], lineno=1)
    ast.fix_missing_locations(newfn)
    k = Kernel(func=name, coq_name=name, params=params, abstr={a: b for a, b in abstr.items() if b in params})
    return FnTranslator(k, module).translate(newfn) + "\n"


def _tmpl(e: ast.expr) -> str:
    if isinstance(e, ast.Constant) and isinstance(e.value, str):
        return e.value
    if isinstance(e, ast.JoinedStr):
        out = []
        for v in e.values:
            if isinstance(v, ast.Constant) and isinstance(v.value, str):
                out.append(v.value)
            elif isinstance(v, ast.FormattedValue) and v.conversion == -1 and v.format_spec is None:
                out.append("{" + ast.unparse(v.value) + "}")
            else:
                raise Unsupported("f-string part")
        return "".join(out)
    raise Unsupported(f"emitted text is {type(e).__name__}")


def _add_line_text(s: ast.stmt) -> str | None:
    if (isinstance(s, ast.Expr) and isinstance(s.value, ast.Call) and ast.unparse(s.value.func) == "self.add_line"
            and len(s.value.args) == 1 and not s.value.keywords):
        return _tmpl(s.value.args[0])
    return None


def _method(module, direction: str) -> str:
    fn = find_function(module, f"CodeBuilder.add_{direction}_method")
    body = fn.body
    side = "packer" if direction == "pack" else "unpacker"
    src = [ast.unparse(s) for s in body]
    want_feature = "dialects_feature = self.is_code_generation_option_enabled(ADD_DIALECT_SUPPORT)"
    want_cache = f"cache_name = f'__dialect_{{self.format_name}}_{side}_cache__'"
    if src.count(want_feature) != 1 or src.count(want_cache) != 1:
        raise Unsupported(f"{fn.name}: dialects_feature / cache_name are not assigned as expected")
    i_feat, i_cache = src.index(want_feature), src.index(want_cache)
    for n in ast.walk(fn):
        if isinstance(n, ast.Name) and isinstance(n.ctx, ast.Store) and n.id in ("dialects_feature", "cache_name", "self") \
                and n is not body[i_feat].targets[0] and n is not body[i_cache].targets[0]:
            raise Unsupported(f"{fn.name}: {n.id} rebound")
    # the cache-creating `if`
    i_def = [i for i, s in enumerate(src) if s == f"self._add_{direction}_method_definition(method_name)"]
    if len(i_def) != 1:
        raise Unsupported(f"{fn.name}: method definition call")
    i_def = i_def[0]
    cache_ifs = []
    for i, s in enumerate(body):
        if isinstance(s, ast.If) and not s.orelse and len(s.body) == 1 and isinstance(s.body[0], ast.With):
            w = s.body[0]
            if (len(w.items) == 1 and isinstance(w.items[0].context_expr, ast.Call)
                    and ast.unparse(w.items[0].context_expr.func) == "self.indent" and len(w.items[0].context_expr.args) == 1
                    and _tmpl(w.items[0].context_expr.args[0]) == "if not '{cache_name}' in cls.__dict__:"
                    and len(w.body) == 1 and _add_line_text(w.body[0]) == "cls.{cache_name} = {{}}".replace("{{}}", "{}")):
                cache_ifs.append((i, s))
    if len(cache_ifs) != 1 or not (max(i_feat, i_cache) < cache_ifs[0][0] < i_def):
        raise Unsupported(f"{fn.name}: the cache-creating `if` is missing or misplaced")
    # the last statements: body, setattr, compile
    if src[-2:] != ["self._add_setattr_method(method_name, cache_name)", "self.compile()"]:
        raise Unsupported(f"{fn.name}: does not end with _add_setattr_method(...); compile()")
    w = body[-3]
    if not (isinstance(w, ast.With) and ast.unparse(w.items[0].context_expr) == "self.indent()" and len(w.body) == 1
            and isinstance(w.body[0], ast.If) and body.index(w) > i_def):
        raise Unsupported(f"{fn.name}: method body block")
    br = w.body[0]
    lines, dlines = f"self._add_{direction}_method_lines(method_name)", f"self._add_{direction}_method_with_dialect_lines(method_name)"
    ok = (len(br.body) == 2 and len(br.orelse) == 1 and ast.unparse(br.orelse[0]) == lines
          and all(isinstance(x, ast.With) and len(x.body) == 1 for x in br.body)
          and ast.unparse(br.body[0].items[0].context_expr) == "self.indent('if dialect is None:')" and ast.unparse(br.body[0].body[0]) == lines
          and ast.unparse(br.body[1].items[0].context_expr) == "self.indent('else:')" and ast.unparse(br.body[1].body[0]) == dlines)
    if not ok:
        raise Unsupported(f"{fn.name}: the `dialect is None` / else wrapping has an unexpected shape")
    abstr = {"dialects_feature": "a_dsup", "self.dialect": "a_dialect"}
    return (_fn(module, f"{direction}_creates_cache", ["a_dsup"], abstr, [ast.Return(value=cache_ifs[0][1].test)])
            + _fn(module, f"{direction}_dialect_branch", ["a_dsup", "a_dialect"], abstr, [ast.Return(value=br.test)]))


def _setattr(module) -> str:
    fn = find_function(module, "CodeBuilder._add_setattr_method")
    body = [s for s in fn.body if not (isinstance(s, ast.Expr) and isinstance(s.value, ast.Constant))]
    if not (len(body) == 1 and isinstance(body[0], ast.If)):
        raise Unsupported("_add_setattr_method: not a single if")
    top = body[0]
    if not (len(top.body) == 1 and isinstance(top.body[0], ast.If) and len(top.orelse) == 1):
        raise Unsupported("_add_setattr_method: shape")
    inner = top.body[0]
    # leaves
    if _add_line_text(top.orelse[0]) != "cls.{cache_name}[dialect] = {method_name}":
        raise Unsupported("_add_setattr_method: dialect leaf")
    codec = [t for t in map(_add_line_text, inner.body) if t is not None]
    if codec != ["setattr(_cls, '{method_name}', {method_name})"] or \
            [ast.unparse(s) for s in inner.body if _add_line_text(s) is None] != \
            ["self.ensure_object_imported(self.attrs, '_cls')", "self.ensure_object_imported(self.cls, 'cls')"]:
        raise Unsupported("_add_setattr_method: codec leaf")
    if not (len(inner.orelse) == 2 and _add_line_text(inner.orelse[0]) == "setattr(cls, '{method_name}', {method_name})"
            and isinstance(inner.orelse[1], ast.If) and not inner.orelse[1].orelse
            and ast.unparse(inner.orelse[1].test) == "is_dataclass_dict_mixin_subclass(self.cls)"
            and [_add_line_text(s) for s in inner.orelse[1].body] == ["setattr(cls, '{method_name.public}', {method_name})"]):
        raise Unsupported("_add_setattr_method: mixin leaf")
    ret = lambda n: [ast.Return(value=ast.Constant(value=n))]
    tree = ast.If(test=top.test, body=[ast.If(test=inner.test, body=ret(1), orelse=ret(0))], orelse=ret(2))
    abstr = {"self.dialect": "a_dialect", "self.is_nailed": "a_is_nailed"}
    return _fn(module, "setattr_kind", ["a_dialect", "a_is_nailed"], abstr, [tree])


def gen() -> str:
    module = ast.parse(open(os.path.join(REPO, SRC)).read())
    text = HEADER.format(src=SRC + " (add_(un)pack_method: dialect cache line and dialect branch; _add_setattr_method)")
    for direction in ("unpack", "pack"):
        text += _method(module, direction)
    text += _setattr(module)
    return text
