"""K41 (C04): the content of the three format dialect classes (mashumaro/mixins/{orjson,msgpack,toml}.py:
OrjsonDialect, MessagePackDialect, TOMLDialect) read from the AST, in the vocabulary of the format model
(coq/theories/Fmt.v: lkind, sentry).  Fail closed: an unknown type, an unknown callable (only pass_through and
bytearray are understood), an unknown option or statement raises Unsupported.
(K13C of C13 reads the same classes with anonymous callable ids; the format model needs to know WHICH callable.)"""
from __future__ import annotations

import ast
import os
import sys

HERE = os.path.dirname(os.path.abspath(__file__))
sys.path.insert(0, os.path.dirname(HERE))
from py2gallina import Unsupported  # noqa: E402

NAME = "K41"
REPO = os.environ.get("VERIF_REPO", "/repo")
KIND = {"bytes": "KBytes", "bytearray": "KBytearray", "datetime": "KDatetime", "date": "KDate", "time": "KTime",
        "UUID": "KUuid"}
CALLABLE = {"pass_through": 0, "bytearray": 1}
MIXINS = {"orjson": ("OrjsonDialect", "FOrjson"), "msgpack": ("MessagePackDialect", "FMsgpack"), "toml": ("TOMLDialect", "FToml")}
IGNORED_OPTIONS = {"no_copy_collections"}      # C18's subject; does not change documents


def imported_names(tree: ast.Module) -> dict:
    out = {}
    for n in tree.body:
        if isinstance(n, ast.ImportFrom):
            for a in n.names:
                out[a.asname or a.name] = f"{n.module}.{a.name}"
    return out


def gen() -> str:
    rows, omits = [], []
    for m, (cname, fname) in MIXINS.items():
        tree = ast.parse(open(os.path.join(REPO, f"mashumaro/mixins/{m}.py")).read())
        imp = imported_names(tree)
        for nm, want in (("pass_through", "mashumaro.helper.pass_through"),):
            if imp.get(nm) != want:
                raise Unsupported(f"mixins/{m}.py: {nm} is {imp.get(nm)}")
        for t in ("datetime", "date", "time"):
            if t in imp and imp[t] != f"datetime.{t}":
                raise Unsupported(f"mixins/{m}.py: {t} is {imp[t]}")
        if "UUID" in imp and imp["UUID"] != "uuid.UUID":
            raise Unsupported(f"mixins/{m}.py: UUID is {imp['UUID']}")
        cls = [c for c in tree.body if isinstance(c, ast.ClassDef) and c.name == cname]
        if len(cls) != 1 or [ast.unparse(b) for b in cls[0].bases] != ["Dialect"]:
            raise Unsupported(f"mixins/{m}.py: class {cname}(Dialect) not found")
        ents, omit = [], "false"
        for st in cls[0].body:
            if isinstance(st, ast.Expr) and isinstance(st.value, ast.Constant):
                continue
            if not (isinstance(st, ast.Assign) and len(st.targets) == 1 and isinstance(st.targets[0], ast.Name)):
                raise Unsupported(f"{cname}: unexpected statement {ast.unparse(st)[:60]!r}")
            name, v = st.targets[0].id, st.value
            if name == "serialization_strategy":
                if not isinstance(v, ast.Dict):
                    raise Unsupported(f"{cname}.serialization_strategy is not a dict display")
                for k, x in zip(v.keys, v.values):
                    tk = ast.unparse(k)
                    if tk not in KIND or (tk in ("bytes", "bytearray") and tk in imp):
                        raise Unsupported(f"{cname}: strategy for an unknown type {tk}")

                    def cid(e):
                        s = ast.unparse(e)
                        if s not in CALLABLE or (s == "bytearray" and s in imp):
                            raise Unsupported(f"{cname}: unknown callable {s}")
                        return CALLABLE[s]
                    if isinstance(x, ast.Dict):
                        d = {}
                        for dk, dv in zip(x.keys, x.values):
                            if not (isinstance(dk, ast.Constant) and dk.value in ("serialize", "deserialize")) or dk.value in d:
                                raise Unsupported(f"{cname}: strategy dict key {ast.unparse(dk)}")
                            d[dk.value] = cid(dv)
                        so = f"(Some {d['serialize']})" if "serialize" in d else "None"
                        do = f"(Some {d['deserialize']})" if "deserialize" in d else "None"
                        ents.append(f"({KIND[tk]}, EDict {so} {do})")
                    elif ast.unparse(x) == "pass_through":
                        ents.append(f"({KIND[tk]}, EObj 0)")
                    else:
                        raise Unsupported(f"{cname}: strategy value {ast.unparse(x)}")
            elif name == "omit_none":
                if not (isinstance(v, ast.Constant) and isinstance(v.value, bool)):
                    raise Unsupported(f"{cname}.omit_none = {ast.unparse(v)}")
                omit = "true" if v.value else "false"
            elif name in IGNORED_OPTIONS:
                continue
            else:
                raise Unsupported(f"{cname}: option {name} is not understood by the format model")
        rows.append(f"({fname}, [" + "; ".join(ents) + "])")
        omits.append(f"({fname}, {omit})")
    text = ("(* GENERATED by tools/kernels/k41_format_dialects.py from mashumaro/mixins/{orjson,msgpack,toml}.py -- do not edit.\n"
            "   Regenerated from /repo on every check run. *)\n"
            "From Coq Require Import List.\nFrom Verif Require Import Fmt.\nImport ListNotations.\nOpen Scope nat_scope.\n\n")
    text += "Definition source_strategies : list (fmt * list (lkind * sentry)) :=\n  [" + ";\n   ".join(rows) + "].\n\n"
    text += "Definition source_omit_none : list (fmt * bool) :=\n  [" + "; ".join(omits) + "].\n"
    return text
