"""Kernel K114b (property C14): when pack_dataclass / unpack_dataclass compile the method of a nested dataclass ON DEMAND
and which builder they create for it (mashumaro/core/meta/types/pack.py, unpack.py), translated on every run into
coq/gen/K114b.v.

For both directions, from the `if <test>:` whose body is `builder = spec.builder.__class__(...)` followed by
`builder.add_<dir>_method()`:

  <dir>_ondemand        <test> as a function of
        a_not_own           get_class_that_defines_method(method_name, method_loc) != method_loc
        a_other             spec.origin_type is not spec.builder.cls
        a_dialect           spec.builder.dialect
        a_is_nailed         spec.builder.is_nailed
        a_enc_name_differs  spec.builder.get_<dir>_method_name(type_args=type_args, format_name=..., en/decoder=...)
                            != method_name       (method_name is the name WITHOUT encoder / decoder: checked)
  <dir>_nested_dialect  the dialect= argument of the nested builder (function of a_dialect, a_is_nailed)
  <dir>_nested_ap       allow_postponed_evaluation of the nested builder (keyword if given, else the default of
                        CodeBuilder.__init__)
  <dir>_nested_plain    true iff the nested builder gets (spec.origin_type, type_args) positionally, no first_method=,
                        no encoder/decoder, and the method called on it is add_<dir>_method()

Fail closed: any other shape raises Unsupported (the kernel becomes a stub; coq/theories/LazyK114b.v stops compiling).
"""
from __future__ import annotations

import ast
import os

from py2gallina import HEADER, FnTranslator, Kernel, Unsupported, find_function

NAME = "K114b"
REPO = os.environ.get("VERIF_REPO", "/repo")

P_TEST = ["a_not_own", "a_other", "a_dialect", "a_is_nailed", "a_enc_name_differs"]
P_DIAL = ["a_dialect", "a_is_nailed"]


def _fn_of_expr(module, name, params, abstr, e):
    newfn = ast.FunctionDef(name=name, args=ast.arguments(posonlyargs=[], args=[], kwonlyargs=[], kw_defaults=[], defaults=[]),
                            body=[ast.Return(value=e)], decorator_list=[], lineno=1)
    ast.fix_missing_locations(newfn)
    k = Kernel(func=name, coq_name=name, params=params, abstr={a: b for a, b in abstr.items() if b in params})
    return FnTranslator(k, module).translate(newfn) + "\n"


def _direction(direction: str, bmodule) -> str:
    src = os.path.join(REPO, f"mashumaro/core/meta/types/{direction}.py")
    module = ast.parse(open(src).read())
    fn = find_function(module, f"{direction}_dataclass")
    codec = "encoder" if direction == "pack" else "decoder"
    getname = f"spec.builder.get_{direction}_method_name"
    abstr = {
        "get_class_that_defines_method(method_name, method_loc) != method_loc": "a_not_own",
        "spec.origin_type is not spec.builder.cls": "a_other",
        "spec.builder.dialect": "a_dialect",
        "spec.builder.is_nailed": "a_is_nailed",
        f"{getname}(type_args=type_args, format_name=spec.builder.format_name, {codec}=spec.builder.{codec}) != method_name":
            "a_enc_name_differs",
    }
    hits = []
    for node in ast.walk(fn):
        if isinstance(node, ast.If):
            for i, s in enumerate(node.body):
                if (isinstance(s, ast.Assign) and len(s.targets) == 1 and isinstance(s.targets[0], ast.Name)
                        and s.targets[0].id == "builder" and isinstance(s.value, ast.Call)
                        and ast.unparse(s.value.func) == "spec.builder.__class__"):
                    hits.append((node, i, s))
    if len(hits) != 1:
        raise Unsupported(f"{fn.name}: {len(hits)} nested-builder constructions")
    node, i, assign = hits[0]
    if i != 0 or len(node.body) != 2 or node.orelse or ast.unparse(node.body[1]) != f"builder.add_{direction}_method()":
        raise Unsupported(f"{fn.name}: the on-demand branch is not `builder = ...; builder.add_{direction}_method()`")
    # the names the abstraction relies on: assigned once, with the expected right-hand sides
    want = {
        "type_args": "get_args(spec.type)",
        "method_name": f"{getname}(type_args, spec.builder.format_name)",
        "method_loc": "spec.origin_type if spec.builder.is_nailed else spec.attrs",
    }
    seen = {}
    for n in ast.walk(fn):
        if isinstance(n, ast.Name) and isinstance(n.ctx, ast.Store) and n.id in ("spec",):
            raise Unsupported(f"{fn.name}: spec rebound")
        if isinstance(n, ast.Assign):
            for t in n.targets:
                if isinstance(t, ast.Name) and t.id in want:
                    seen.setdefault(t.id, []).append(ast.unparse(n.value))
    for k, v in want.items():
        if seen.get(k) != [v]:
            raise Unsupported(f"{fn.name}: {k} is {seen.get(k)}")
    call = assign.value
    kws = {k.arg: k.value for k in call.keywords}
    if None in kws:
        raise Unsupported(f"{fn.name}: **kwargs in the nested builder call")
    if "dialect" not in kws:
        raise Unsupported(f"{fn.name}: nested builder call without dialect=")
    init = find_function(bmodule, "CodeBuilder.__init__")
    names = [a.arg for a in init.args.args]
    if names[:3] != ["self", "cls", "type_args"]:
        raise Unsupported("CodeBuilder.__init__ positional parameters are not (self, cls, type_args, ...)")
    defaults = dict(zip(names[len(names) - len(init.args.defaults):], init.args.defaults))
    ap = kws.get("allow_postponed_evaluation", defaults.get("allow_postponed_evaluation"))
    if not (isinstance(ap, ast.Constant) and ap.value in (True, False)):
        raise Unsupported(f"{fn.name}: allow_postponed_evaluation of the nested builder is not a constant")
    plain = ([ast.unparse(a) for a in call.args] == ["spec.origin_type", "type_args"]
             and not ({"first_method", "encoder", "decoder", "encoder_kwargs"} & set(kws)))
    text = _fn_of_expr(module, f"{direction}_ondemand", P_TEST, abstr, node.test)
    text += _fn_of_expr(module, f"{direction}_nested_dialect", P_DIAL, abstr, kws["dialect"])
    b = lambda x: "true" if x else "false"
    text += (f"Definition {direction}_nested_ap : kv := KBool {b(ap.value)}.\n"
             f"Definition {direction}_nested_plain : bool := {b(plain)}.\n\n")
    return text


def gen() -> str:
    bmodule = ast.parse(open(os.path.join(REPO, "mashumaro/core/meta/code/builder.py")).read())
    text = HEADER.format(src="mashumaro/core/meta/types/pack.py, unpack.py (pack_dataclass / unpack_dataclass: on-demand compilation of a nested dataclass)")
    for direction in ("unpack", "pack"):
        text += _direction(direction, bmodule)
    return text
