"""K10 - splice-site table of the code generator, regenerated from /repo on every run.

An abstract interpreter over the Python AST of the four generator modules.  It follows
every string that is built by an f-string, `+`, `%`, `.format` or `.join` and classifies the
ORIGIN of every value placed into such a string:

  DATA   a schema-supplied string: field alias (metadata["alias"], Annotated Alias(.name),
         Config.aliases), TypedDict key (__annotations__/__required_keys__/__optional_keys__ of
         a typed dict), discriminator field (`.field`), Literal value (get_literal_values),
         and anything computed from them (attribute, subscript, method call, concatenation,
         container element, tuple position, call result of an unknown function).
  CODE   text chosen by the library: constants, method names, random suffixes, type names
         rendered by type_name()/get_type_name_identifier(), generated sub-expressions
         returned by the registries, Python identifiers (dataclass field names, named-tuple
         field names: both are identifiers by construction).  Enum member NAMES are DATA
         (functional-API enums accept any string): `literal_value.name` is an attribute of a
         Literal value and is classified DATA by propagation.
  QUOTED text that contains data only inside repr()/ascii() literals.
  UNK    anything the rules below do not cover  (FAIL CLOSED: reported as kind KUnknown).

For each DATA value placed into a string it records one row: kind KRepr (`!r`, repr(), map(repr,..)),
KAscii (`!a`, ascii()), KGuardedIdent (raw, but inside `if X.isidentifier() and not iskeyword(X) and
<NFKC/ASCII test on X>:`), KRaw (anything else) and the static text before/after the value on the
generated line ("\\n" = line start / end; \\x02 = a CODE placeholder; \\x01 = unknown context).
The Coq theorem C16_sites is `forallb site_ok splice_sites = true`.

New data flows are detected by propagation (not by variable names): any expression computed
from a DATA value is DATA; DATA passed to a parameter of a scanned function that is not declared
DATA in PARAM_RULES, or stored in `expression=`, is reported as KUnknown.  All rule tables are
explicit below; they are the trusted part of this kernel ("notion of data origin").
"""
from __future__ import annotations

import ast
import os
import sys

HERE = os.path.dirname(os.path.abspath(__file__))
sys.path.insert(0, os.path.dirname(HERE))

NAME = "K10"
REPO = os.environ.get("VERIF_REPO", "/repo")
FILES = [
    "mashumaro/core/meta/code/builder.py",
    "mashumaro/core/meta/types/pack.py",
    "mashumaro/core/meta/types/unpack.py",
    "mashumaro/core/meta/types/common.py",
    "mashumaro/core/meta/helpers.py",
]
# helpers.py is scanned only for the type-name renderer: it is the one place outside the four
# generator modules where schema strings (Literal values, enum member names) become source text
ONLY_FUNCS = {"mashumaro/core/meta/helpers.py": {"type_name", "_get_literal_values_str", "_get_args_str", "_typing_name"}}

CODE, QUOTED, UNK, DATA = "CODE", "QUOTED", "UNK", "DATA"
_ORD = {CODE: 0, QUOTED: 1, UNK: 2, DATA: 3}

NAME_NOTE = "identifier by construction (dataclass / named-tuple field names are checked by Python)"


class Site:
    def __init__(self, file, node, expr, kind, origin):
        self.file, self.line, self.col = file, node.lineno, node.col_offset
        self.func = ""
        self.expr, self.kind, self.origin = expr, kind, origin
        self.befores: set[str] = set()
        self.afters: set[str] = set()
        self.types: list[str] = []


class AV:
    """abstract value"""
    __slots__ = ("o", "item", "key", "elems", "lead", "trail", "note", "xs", "plain")

    def __init__(self, o, item=None, key=None, elems=None, lead=(), trail=(), note="", xs=False, plain=False):
        self.plain = plain    # built text that can contain no quote / backslash / newline
        self.o, self.item, self.key, self.elems = o, item, key, elems
        self.lead, self.trail, self.note = tuple(lead), tuple(trail), note
        self.xs = xs          # the value is exactly a `str` (built by an f-string / + / join / repr)

    def __repr__(self):
        return f"AV({self.o}{' item=' + repr(self.item) if self.item else ''}{' elems=' + repr(self.elems) if self.elems else ''})"


def code(note=""):
    return AV(CODE, note=note)


def data(note=""):
    return AV(DATA, note=note)


def unk(note=""):
    return AV(UNK, note=note)


def lub(a: AV | None, b: AV | None) -> AV | None:
    if a is None:
        return b
    if b is None:
        return a
    if a is b:
        return a
    o = a.o if _ORD[a.o] >= _ORD[b.o] else b.o
    elems = None
    if a.elems is not None and b.elems is not None and len(a.elems) == len(b.elems):
        elems = [lub(x, y) for x, y in zip(a.elems, b.elems)]
    elif a.elems is not None or b.elems is not None:
        # tuple vs non-tuple: collapse positions
        e = list(a.elems or []) + list(b.elems or [])
        m = None
        for x in e:
            m = lub(m, x)
        if m is not None and _ORD[m.o] > _ORD[o]:
            o = m.o
    return AV(o, item=lub(a.item, b.item), key=lub(a.key, b.key), elems=elems,
              lead=tuple(dict.fromkeys(a.lead + b.lead)), trail=tuple(dict.fromkeys(a.trail + b.trail)),
              note=(a.note if _ORD[a.o] >= _ORD[b.o] else b.note) or a.note or b.note, xs=a.xs and b.xs,
              plain=_is_plain(a) and _is_plain(b))


def flat(a: AV | None) -> AV:
    """the value as a whole (tuple positions / items collapsed): used when structure is lost"""
    if a is None:
        return unk("no value")
    m = AV(a.o, lead=a.lead, trail=a.trail, note=a.note, xs=a.xs, plain=_is_plain(a))
    for x in (a.elems or []):
        m = lub(m, flat(x))
    if a.item is not None:
        m = lub(m, flat(a.item))
    if a.key is not None:
        m = lub(m, flat(a.key))
    return AV(m.o, lead=m.lead, trail=m.trail, note=m.note, xs=m.xs, plain=m.plain)


def _is_plain(a) -> bool:
    return a.o == CODE and (a.plain or any(k in (a.note or "") for k in PLAIN_NOTES))


# ---------------------------------------------------------------------------
# RULES (explicit; everything else is UNK)
# ---------------------------------------------------------------------------

# parameters of scanned functions, by name
PARAM_RULES = {
    # DATA
    "alias": data("field alias"),
    # identifiers
    "fname": code("dataclass field name: " + NAME_NOTE),
    "field_name": code("dataclass field name: " + NAME_NOTE),
    # generated code / library-chosen text
    "packed_value": code("generated sub-expression"), "unpacked_value": code("generated sub-expression"),
    "packer": code("generated sub-expression"), "unpacker": code("generated sub-expression"),
    "method_name": code("method name"), "variant_method_name": code("method name"),
    "variant_method_call": code("generated call text"), "variant_tagger_expr": AV(QUOTED, note="built from repr'd discriminator field"),
    "new_expr": code("generated sub-expression"), "expression": code("generated sub-expression"),
    "ie": code("generated sub-expression"), "ke": code("generated sub-expression"), "ve": code("generated sub-expression"),
    "v_name": code("variable name constant"), "field_type": code("type name identifier"),
    "format_name": code("format name chosen by the library"), "line": code("generated line (callers are scanned)"),
    "expr": code("generated line (callers are scanned)"), "name": code("attrs holder / import name chosen by the library"),
    "value": code("import name / identifier"), "prefix": code("method prefix constant"), "suffix": code("method suffix"),
    "flag": code("flag name constant"), "kw_arg": code("flag name constant"), "option": code("option name constant"),
    "method": code("method name"), "typ": None, "default": None,
    "cache_name": code("cache attribute name"), "field_type_name": code("type name identifier"),
    "typ_name": code("typing construct name constant"), "module_name": code("module name (names: C17)"),
}

# (function, parameter) -> rule; wins over PARAM_RULES
FUNC_PARAM_RULES = {
    ("get_field_default_literal", "value"): data("field default value"),
    # the object is bound by reference in the globals of the generated code, not rendered as text
    ("ensure_object_imported", "obj"): data("object imported by reference"),
}

# attributes, by attribute name (applied to non-DATA bases); DATA bases give DATA unless in EXPR_RULES
ATTR_RULES = {
    "field": data("discriminator field"),
    "aliases": AV(CODE, item=data("Config.aliases value"), key=code("field name")),
    "alias": data("alias"),
    "expression": code("generated sub-expression (every producer is scanned here)"),
    "__name__": code("class __name__ (names are the subject of C17) " + NAME_NOTE),
    "cls_attrs_name": code("attrs holder name"), "self_attrs_name": code("attrs holder name"),
    "attrs_registry_name": code("registry name"), "format_name": code("format name chosen by the library"),
    "public": code("method name"), "_PREFIX": code("constant"), "_SUFFIX": code("constant"),
    "hex": code("uuid hex"), "maps": None,
    "__annotations__": None,   # resolved by TYPED_DICT_FUNCS below
    "encoder_kwargs": AV(CODE, item=AV(CODE, elems=[code("rendered by the library"), code("object")]), key=code("keyword name")),
    "packer": code("generated sub-expression"), "unpacker": code("generated sub-expression"),
    "fname": code("dataclass field name: " + NAME_NOTE),
    "_variants_attr": code("attribute name chosen by the library"),
    "__module__": code("module name (names: C17)"), "__qualname__": code("class qualname (names: C17)"),
}

# exact expressions
EXPR_RULES = {
    "spec.field_ctx.name": code("dataclass field name: " + NAME_NOTE),
    "spec.type": AV(UNK, note="type object formatted directly"),
    "ann.name": data("Annotated Alias name"),
    "literal_value.name": data("enum member name"),
    "value.name": data("enum member name"),
    "value.value": code("IntFlag.value (int; guarded by isinstance(value, enum.IntFlag))"),
}

# functions in which __annotations__ / __required_keys__ / __optional_keys__ are TypedDict keys (DATA);
# elsewhere (named tuples, dataclasses) they are identifiers
TYPED_DICT_FUNCS = {"pack_typed_dict", "unpack_typed_dict"}

# callables outside the scanned files (or treated by summary): result
CALL_RULES = {
    # type_name: its body IS scanned (helpers.py); data enters only through its Literal branch
    # (_get_literal_values_str), whose splice sites are rows of the table
    "type_name": code("type name"), "get_generic_name": code("generic name"), "random_hex": code("random hex"), "clean_id": code("clean identifier"),
    "hash_type_args": code("hash"), "get_type_name_identifier": code("type name identifier"),
    "id": code("int"), "len": code("int"), "str": None, "int": code("int"),
    "get": None,  # dict.get / Registry.get: see call()
    "get_pack_method_name": code("method name"), "get_unpack_method_name": code("method name"),
    "isinstance": code("bool"), "issubclass": code("bool"), "hasattr": code("bool"), "bool": code("bool"),
    "startswith": code("bool"), "endswith": code("bool"),
    "uuid4": code("uuid"),
    "_get_encoder_kwargs": AV(CODE, item=AV(CODE, elems=[code("keyword name (mixin constant)"), code("Config option value (bool/int)")]),
                              key=code("keyword name (mixin constant)")),
    "get_field_types": AV(CODE, item=code("type object"), key=code("dataclass field name: " + NAME_NOTE)),
    "get_field_default": data("field default value"),
}

LINE_SINK_METHODS = {"add_line", "indent"}
LINE_RECEIVERS = {"lines", "self.lines", "orig_lines", "self"}


def guard_of(test) -> dict:
    """{expr text: "full" | "partial"} for an `if` test that is a conjunction containing, for the SAME
    expression X:  X.isidentifier()  and  not iskeyword(X)  [partial]  and a normal-form test
    X.isascii() or normalize("NFKC", X) == X  [full].  Only a full guard makes a raw splice of X
    admissible: an identifier that is no keyword and is in NFKC form is read back by the parser as the
    same NAME (the parser NFKC-normalises identifiers: 'ﬁ' would become 'fi')."""
    conj = test.values if isinstance(test, ast.BoolOp) and isinstance(test.op, ast.And) else [test]
    ident, nokw, nf = set(), set(), set()
    for c in conj:
        if isinstance(c, ast.Call) and isinstance(c.func, ast.Attribute) and not c.args:
            if c.func.attr == "isidentifier":
                ident.add(ast.unparse(c.func.value))
            if c.func.attr == "isascii":
                nf.add(ast.unparse(c.func.value))
        if isinstance(c, ast.UnaryOp) and isinstance(c.op, ast.Not) and isinstance(c.operand, ast.Call):
            f = c.operand.func
            if (getattr(f, "id", None) or getattr(f, "attr", None)) == "iskeyword" and len(c.operand.args) == 1:
                nokw.add(ast.unparse(c.operand.args[0]))
        if isinstance(c, ast.Compare) and len(c.ops) == 1 and isinstance(c.ops[0], ast.Eq):
            for a, b in ((c.left, c.comparators[0]), (c.comparators[0], c.left)):
                if isinstance(a, ast.Call) and (getattr(a.func, "id", None) or getattr(a.func, "attr", None)) == "normalize" \
                        and len(a.args) == 2 and isinstance(a.args[0], ast.Constant) and a.args[0].value == "NFKC" \
                        and ast.unparse(a.args[1]) == ast.unparse(b):
                    nf.add(ast.unparse(b))
    out = {}
    for x in ident & nokw:
        out[x] = "full" if x in nf else "partial"
    return out


# origins that the API declares to be str (a non-str alias / key / field name is outside the property)
STR_ORIGINS = {"field alias", "Config.aliases value", "TypedDict key", "discriminator field", "enum member name",
               "Annotated Alias name", "alias"}
_TY = {"str": "TStr", "bytes": "TBytes", "int": "TInt", "bool": "TBool", "NoneType": "TNone", "tuple": "TTuple"}


_SUB = {"TStr": "TStrSub", "TBytes": "TBytesSub", "TInt": "TIntSub"}   # bool / NoneType cannot be subclassed


def _ty_names(node, exact: bool) -> list:
    """exact: `type(X) in (...)` - exactly these types; otherwise isinstance(): subclasses too"""
    elts = node.elts if isinstance(node, (ast.Tuple, ast.List, ast.Set)) else [node]
    out = []
    for e in elts:
        nm = e.id if isinstance(e, ast.Name) else (e.attr if isinstance(e, ast.Attribute) else None)
        t = _TY.get(nm, "TFloat?" if nm == "float" else "TAny")
        out.append(t if exact else _SUB.get(t, t))
    return out


def type_guard_of(test) -> dict:
    """{expr text: [vty names]} from `isinstance(X, T)`, `isinstance(X, (T1, ..))`, `type(X) in (T1, ..)`;
    float counts as TFloat only together with `not math.isnan(X)` and `not math.isinf(X)` (finite)."""
    conj = test.values if isinstance(test, ast.BoolOp) and isinstance(test.op, ast.And) else [test]
    out: dict = {}
    notnan, notinf = set(), set()
    for c in conj:
        if isinstance(c, ast.Call) and isinstance(c.func, ast.Name) and c.func.id == "isinstance" and len(c.args) == 2:
            out[ast.unparse(c.args[0])] = _ty_names(c.args[1], exact=False)
        if isinstance(c, ast.Compare) and len(c.ops) == 1 and isinstance(c.ops[0], ast.In) and isinstance(c.left, ast.Call) \
                and isinstance(c.left.func, ast.Name) and c.left.func.id == "type" and len(c.left.args) == 1:
            out[ast.unparse(c.left.args[0])] = _ty_names(c.comparators[0], exact=True)
        if isinstance(c, ast.UnaryOp) and isinstance(c.op, ast.Not) and isinstance(c.operand, ast.Call) and len(c.operand.args) == 1:
            fn = getattr(c.operand.func, "attr", None) or getattr(c.operand.func, "id", None)
            if fn == "isnan":
                notnan.add(ast.unparse(c.operand.args[0]))
            if fn == "isinf":
                notinf.add(ast.unparse(c.operand.args[0]))
    for x, tys in out.items():
        out[x] = [("TFloat" if (x in notnan and x in notinf) else "TAny") if t == "TFloat?" else t for t in tys]
    return out


def open_quote(text: str):
    """the quote character of the string literal that `text` (template text of a generated line,
    placeholders as \x02) leaves open, or None"""
    q, esc = None, False
    for c in text:
        if q is None:
            if c in "'\"":
                q = c
            elif c == "#":
                return None
        elif esc:
            esc = False
        elif c == "\\":
            esc = True
        elif c == q:
            q = None
    return q


# library-chosen texts that can contain no quote, backslash or newline (identifiers, dotted names, numbers)
PLAIN_NOTES = ("field name", "method name", "clean identifier", "random hex", "hash", "attrs holder name", "registry name",
               "format name", "uuid", "int", "cache attribute", "class __name__", "module constant", "flag name",
               "option name", "attribute name chosen", "import name", "method prefix", "method suffix", "keyword name")
# type_name(X) is a dotted class name (module.qualname) when X is a class object, not a typing construct
CLASS_EXPRS = ("type_name(self.cls)", "type_name(spec.builder.cls)", "type_name(cls)")


def plain_origin(expr: str, av) -> bool:
    if av.o != CODE:
        return False
    if expr in CLASS_EXPRS:
        return True
    if expr.startswith("type_name("):
        return False          # may be a Literal[...] / generic rendering with quotes
    return _is_plain(av)


class Scanner:
    def __init__(self):
        self.ident_rows: dict = {}
        self.guards: dict = {}
        self.type_guards: dict = {}
        self.sites: dict[tuple, Site] = {}
        self.summ: dict[str, AV] = {}          # function name -> return AV
        self.funcs: dict[str, list] = {}       # name -> [(file, FunctionDef)]
        self.counts = {CODE: 0, QUOTED: 0, UNK: 0, DATA: 0}
        self.code_exprs: dict[str, str] = {}
        self.file = ""
        self.func = ""
        self.round = 0
        self.visited: set = set()
        self.excluded = 0

    # -- sites
    def site(self, node, expr, kind, origin) -> Site:
        k = (self.file, node.lineno, node.col_offset, kind, expr)
        s = self.sites.get(k)
        if s is None:
            s = Site(self.file, node, expr, kind, origin)
            s.func = self.func
            self.sites[k] = s
        s.round = self.round
        if kind in ("KRepr", "KAscii"):
            inner = expr[:-2] if expr.endswith(("!r", "!a")) else expr
            if inner.startswith(("repr(", "ascii(", "literal_repr(")) and inner.endswith(")"):
                inner = inner[inner.index("(") + 1:-1]
            if inner.startswith(("map(repr, ", "map(ascii, ")):
                inner = None
            if origin in STR_ORIGINS:
                s.types = ["TStr"]
            elif inner is not None and inner in self.type_guards:
                s.types = list(self.type_guards[inner])
            else:
                s.types = ["TAny"]
        return s

    # -- expressions
    def ev(self, n, env) -> AV:
        m = getattr(self, "ev_" + type(n).__name__, None)
        if m is None:
            return unk("unsupported syntax " + type(n).__name__)
        return m(n, env)

    def ev_Constant(self, n, env):
        return code("constant")

    def ev_Name(self, n, env):
        if n.id in env:
            v = env[n.id]
            return v if v is not None else unk(f"name {n.id} has no rule")
        if n.id.isupper() or (n.id.startswith("__") and n.id.upper() == n.id):
            return code("module constant")
        return unk(f"free name {n.id}")

    def ev_JoinedStr(self, n, env):
        parts = []
        for v in n.values:
            if isinstance(v, ast.Constant):
                parts.append(("text", v.value))
            else:
                conv = {114: "r", 97: "a", 115: "s", -1: ""}[v.conversion]
                if v.format_spec is not None:
                    parts.append(("av", unk("format spec"), "", v.value))
                else:
                    parts.append(("av", self.ev(v.value, env), conv, v.value))
        return self.concat(parts, n)

    def ev_BinOp(self, n, env):
        if isinstance(n.op, ast.Add):
            parts = []

            def fl(x):
                if isinstance(x, ast.BinOp) and isinstance(x.op, ast.Add):
                    fl(x.left); fl(x.right)
                elif isinstance(x, ast.Constant) and isinstance(x.value, str):
                    parts.append(("text", x.value))
                elif isinstance(x, ast.JoinedStr):
                    for v in x.values:
                        if isinstance(v, ast.Constant):
                            parts.append(("text", v.value))
                        else:
                            conv = {114: "r", 97: "a", 115: "s", -1: ""}[v.conversion]
                            parts.append(("av", self.ev(v.value, env) if v.format_spec is None else unk("format spec"), conv, v.value))
                else:
                    parts.append(("av", self.ev(x, env), "", x))
            fl(n)
            if all(p[0] == "av" and p[1].o == CODE and not p[1].elems and not p[1].item for p in parts):
                return code("sum")
            return self.concat(parts, n)
        if isinstance(n.op, ast.Mod):
            l, r = self.ev(n.left, env), flat(self.ev(n.right, env))
            if r.o == DATA and (isinstance(n.left, (ast.Constant, ast.JoinedStr)) or l.o != DATA):
                self.site(n, ast.unparse(n.right), "KRaw", r.note).befores.add("\x01")
            return AV(lub(flat(l), r).o)
        if isinstance(n.op, ast.BitOr):
            return lub(self.ev(n.left, env), self.ev(n.right, env))
        l, r = flat(self.ev(n.left, env)), flat(self.ev(n.right, env))
        return AV(lub(l, r).o)

    def concat(self, parts, node) -> AV:
        """parts: ("text", s) | ("av", AV, conv, exprnode).  Records sites, returns the AV of the text."""
        res_o = CODE
        lead, trail = [], []
        before = ""
        n = len(parts)
        for i, p in enumerate(parts):
            if p[0] == "text":
                before += p[1]
                continue
            _, av, conv, en = p
            # static text after this placeholder (up to the next placeholder)
            after = ""
            j = i + 1
            while j < n and parts[j][0] == "text":
                after += parts[j][1]
                j += 1
            if j < n and not after:
                after = "\x02"
            av_f = flat(av)
            expr = ast.unparse(en)
            self.visited.add((self.file, en.lineno, en.col_offset))
            if conv in ("r", "a"):
                if av_f.o == CODE:
                    self.counts[CODE] += 1
                    self.code_exprs.setdefault(expr + "!" + conv, av_f.note)
                else:
                    s = self.site(en, expr + "!" + conv, "KRepr" if conv == "r" else "KAscii", av_f.note or av_f.o)
                    if av_f.xs and s.types == ["TAny"]:
                        s.types = ["TStr"]     # text built by an f-string / concatenation: exactly str
                    if before:
                        s.befores.add(before)
                    else:
                        lead.append(s)
                    if after:
                        s.afters.add(after)
                    else:
                        trail.append(s)
                    self.counts[DATA if av_f.o == DATA else av_f.o] += 1
                    res_o = max(res_o, QUOTED, key=_ORD.get)
            elif av_f.o == CODE:
                self.counts[CODE] += 1
                self.code_exprs.setdefault(expr, av_f.note)
                self.in_string_site(parts, i, en, expr, av_f, before)
            elif av_f.o == QUOTED:
                self.counts[QUOTED] += 1
                self.in_string_site(parts, i, en, expr, av_f, before)
                for s in av_f.lead:
                    if before:
                        s.befores.add(before)
                    else:
                        lead.append(s)
                for s in av_f.trail:
                    if after:
                        s.afters.add(after)
                    else:
                        trail.append(s)
                res_o = max(res_o, QUOTED, key=_ORD.get)
            elif av_f.o == DATA and self.guards.get(expr) == "full":
                # raw splice of an identifier: admissible only under the full guard (see guard_of)
                s = self.site(en, expr, "KGuardedIdent", av_f.note)
                if before:
                    s.befores.add(before)
                else:
                    lead.append(s)
                if after:
                    s.afters.add(after)
                else:
                    trail.append(s)
                self.counts[DATA] += 1
                res_o = max(res_o, QUOTED, key=_ORD.get)
            elif av_f.o == DATA:
                why = av_f.note
                if self.guards.get(expr) == "partial":
                    why = "guard lacks NFKC/ASCII normal-form test: " + why
                s = self.site(en, expr, "KRaw", why)
                s.befores.add(before or "\x01")
                s.afters.add(after or "\x01")
                self.counts[DATA] += 1
                res_o = DATA
            else:
                s = self.site(en, expr, "KUnknown", av_f.note)
                s.befores.add(before or "\x01")
                s.afters.add(after or "\x01")
                self.counts[UNK] += 1
                res_o = max(res_o, UNK, key=_ORD.get)
            before += "\x02"
        static = "".join(p[1] for p in parts if p[0] == "text")
        plain = res_o == CODE and not any(c in static for c in "'\"\\\n\r#") and \
            all(_is_plain(flat(p[1])) and not p[2] for p in parts if p[0] == "av")
        return AV(res_o, lead=lead, trail=trail, note="built text", xs=True, plain=plain)

    def in_string_site(self, parts, i, en, expr, av_f, before):
        """a library-text placeholder that sits INSIDE a static string literal of the template
        ('{fname}', 'Argument for {type_name(self.cls)} ...'): recorded in ident_sites"""
        q = open_quote(before)
        if q is None:
            return
        inner_before = before[before.rindex(q) + 1:] if q in before else before
        # the static text up to the closing quote (other placeholders as \x02)
        rest = ""
        for p in parts[i + 1:]:
            rest += p[1] if p[0] == "text" else "\x02"
        k, esc = None, False
        for j, c in enumerate(rest):
            if esc:
                esc = False
            elif c == "\\":
                esc = True
            elif c == q:
                k = j
                break
        inner_after = rest[:k] if k is not None else rest + "\x01"
        key = (self.file, en.lineno, en.col_offset, expr)
        self.ident_rows[key] = (self.file, en.lineno, self.func, expr, av_f.note or av_f.o, plain_origin(expr, av_f), q,
                                inner_before, inner_after, self.round)

    def ev_Attribute(self, n, env):
        txt = ast.unparse(n)
        if txt in EXPR_RULES:
            return EXPR_RULES[txt]
        if n.attr in ("__annotations__", "__required_keys__", "__optional_keys__"):
            if self.func in TYPED_DICT_FUNCS:
                if n.attr == "__annotations__":
                    return AV(CODE, item=code("type object"), key=data("TypedDict key"))
                return AV(CODE, item=data("TypedDict key"))
            return AV(CODE, item=code("field name: " + NAME_NOTE), key=code("field name: " + NAME_NOTE))
        base = self.ev(n.value, env)
        if flat(base).o == DATA:
            return data("attribute of " + (base.note or "data"))
        r = ATTR_RULES.get(n.attr)
        if r is not None:
            return r
        return unk(f"attribute .{n.attr} has no rule")

    def ev_Subscript(self, n, env):
        base = self.ev(n.value, env)
        if base.elems is not None and isinstance(n.slice, ast.Constant) and isinstance(n.slice.value, int) \
                and -len(base.elems) <= n.slice.value < len(base.elems):
            return base.elems[n.slice.value]
        if base.elems is not None:
            m = None
            for x in base.elems:
                m = lub(m, x)
            return m or unk("empty tuple")
        if base.item is not None:
            if isinstance(n.slice, ast.Slice):
                return base
            return base.item
        if base.o in (CODE, QUOTED) and isinstance(n.slice, ast.Slice):
            return base           # slice of a string of the same class
        if base.o == DATA:
            return data(base.note)
        if base.o == CODE:
            return code("element of " + (base.note or "library value"))
        return unk("subscript of " + ast.unparse(n.value))

    def ev_BoolOp(self, n, env):
        m = None
        for v in n.values:
            m = lub(m, self.ev(v, env))
        return m

    def ev_IfExp(self, n, env):
        self.ev(n.test, env)
        return lub(self.ev(n.body, env), self.ev(n.orelse, env))

    def ev_Compare(self, n, env):
        self.ev(n.left, env)
        for c in n.comparators:
            self.ev(c, env)
        return code("bool")

    def ev_UnaryOp(self, n, env):
        self.ev(n.operand, env)
        return code("bool/int")

    def ev_Tuple(self, n, env):
        if any(isinstance(e, ast.Starred) for e in n.elts):
            m = None
            for e in n.elts:
                m = lub(m, flat(self.ev(e.value if isinstance(e, ast.Starred) else e, env)))
            return AV(CODE, item=m)
        return AV(CODE, elems=[self.ev(e, env) for e in n.elts])

    def ev_List(self, n, env):
        m = None
        for e in n.elts:
            m = lub(m, self.ev(e.value if isinstance(e, ast.Starred) else e, env))
        return AV(CODE, item=m)

    ev_Set = ev_List

    def ev_Dict(self, n, env):
        k = v = None
        for a, b in zip(n.keys, n.values):
            if a is not None:
                k = lub(k, self.ev(a, env))
            v = lub(v, self.ev(b, env))
        return AV(CODE, item=v, key=k)

    def ev_Starred(self, n, env):
        return self.ev(n.value, env)

    def ev_Lambda(self, n, env):
        return code("lambda")

    def ev_NamedExpr(self, n, env):
        v = self.ev(n.value, env)
        self.bind(n.target, v, env)
        return v

    def comp(self, n, env, elt):
        env = dict(env)
        for g in n.generators:
            it = self.ev(g.iter, env)
            self.bind(g.target, self.iter_item(it), env)
            for c in g.ifs:
                self.ev(c, env)
        return env

    def ev_GeneratorExp(self, n, env):
        e2 = self.comp(n, env, n.elt)
        return AV(CODE, item=self.ev(n.elt, e2))

    ev_ListComp = ev_GeneratorExp
    ev_SetComp = ev_GeneratorExp

    def ev_DictComp(self, n, env):
        e2 = self.comp(n, env, None)
        return AV(CODE, item=self.ev(n.value, e2), key=self.ev(n.key, e2))

    def iter_item(self, it: AV) -> AV:
        if it.item is not None and it.key is not None:
            return it.key            # iterating a mapping yields keys
        if it.item is not None:
            return it.item
        if it.elems is not None:
            m = None
            for x in it.elems:
                m = lub(m, x)
            return m or unk("empty")
        if it.o == DATA:
            return data(it.note)
        return unk("iteration over unknown container")

    # -- calls
    def ev_Call(self, n, env):
        f = n.func
        fname = f.attr if isinstance(f, ast.Attribute) else (f.id if isinstance(f, ast.Name) else None)
        args = [self.ev(a, env) for a in n.args]
        kws = {k.arg: self.ev(k.value, env) for k in n.keywords}
        recv = ast.unparse(f.value) if isinstance(f, ast.Attribute) else None
        # repr / ascii
        if isinstance(f, ast.Name) and f.id in ("repr", "ascii") and len(args) == 1:
            a = flat(args[0])
            if a.o == CODE:
                return code("repr of library text")
            s = self.site(n, ast.unparse(n), "KRepr" if f.id == "repr" else "KAscii", a.note or a.o)
            return AV(QUOTED, lead=[s], trail=[s], note="repr()")
        if isinstance(f, ast.Name) and f.id == "literal_repr" and len(args) == 1 and literal_repr_ok():
            # base.__repr__(value): the repr of the builtin base type, whatever the subclass overrides
            a = flat(args[0])
            if a.o == CODE:
                return code("repr of library text")
            s = self.site(n, "literal_repr(" + ast.unparse(n.args[0]) + ")", "KRepr", a.note or a.o)
            s.types = [{"TStrSub": "TStr", "TBytesSub": "TBytes", "TIntSub": "TInt"}.get(t, t) for t in s.types]
            return AV(QUOTED, lead=[s], trail=[s], note="literal_repr()")
        if isinstance(f, ast.Name) and f.id == "map" and len(n.args) == 2:
            fn = n.args[0]
            it = self.iter_item(args[1])
            if isinstance(fn, ast.Name) and fn.id in ("repr", "ascii"):
                a = flat(it)
                if a.o == CODE:
                    return AV(CODE, item=code("repr of library text"))
                s = self.site(n, ast.unparse(n), "KRepr" if fn.id == "repr" else "KAscii", a.note or a.o)
                return AV(CODE, item=AV(QUOTED, lead=[s], trail=[s], note="map(repr)"))
            r = self.call_known(fn.attr if isinstance(fn, ast.Attribute) else getattr(fn, "id", None), [it], {}, n)
            return AV(CODE, item=r if r is not None else (data(it.note) if flat(it).o == DATA else unk("map with unknown function")))
        # structural helpers
        if isinstance(f, ast.Name) and f.id in ("sorted", "list", "tuple", "set", "frozenset", "reversed", "iter") and args:
            a = args[0]
            if a.item is not None or a.elems is not None:
                return AV(CODE, item=self.iter_item(a))
            return AV(a.o, item=self.iter_item(a)) if a.o == DATA else a
        if isinstance(f, ast.Name) and f.id == "filter" and len(args) == 2:
            return AV(CODE, item=self.iter_item(args[1]))
        if isinstance(f, ast.Name) and f.id == "zip":
            return AV(CODE, item=AV(CODE, elems=[self.iter_item(a) for a in args]))
        if isinstance(f, ast.Name) and f.id == "enumerate" and args:
            return AV(CODE, item=AV(CODE, elems=[code("int"), self.iter_item(args[0])]))
        if isinstance(f, ast.Name) and f.id in ("getattr",) and len(n.args) >= 2:
            an = n.args[1]
            if isinstance(an, ast.Constant) and an.value in ("__required_keys__", "__optional_keys__"):
                d = data("TypedDict key") if self.func in TYPED_DICT_FUNCS else code("field name")
                r = AV(CODE, item=d)
                return lub(r, args[2]) if len(args) > 2 else r
            if isinstance(an, ast.Constant) and an.value == "_fields":
                return AV(CODE, item=code("named-tuple field name: " + NAME_NOTE))
            if flat(args[0]).o == DATA:
                return data(args[0].note)
            return unk("getattr")
        if isinstance(f, ast.Name) and f.id in ("dict",):
            return args[0] if args else AV(CODE)
        if isinstance(f, ast.Name) and f.id == "cast" and len(args) == 2:
            return args[1]
        if isinstance(f, ast.Name) and f.id == "str" and len(args) == 1:
            return flat(args[0]) if flat(args[0]).o != CODE else code("str")
        if isinstance(f, ast.Name) and f.id == "print":
            return code("print")
        if isinstance(f, ast.Name) and f.id == "get_literal_values":
            return AV(CODE, item=data("Literal value"))
        if isinstance(f, ast.Attribute):
            base = self.ev(f.value, env)
            if fname == "join" and len(args) == 1:
                return self.join(n, f.value, base, args[0])
            if fname == "format":
                m = flat(base)
                if m.o in (QUOTED, DATA):
                    st = self.site(n, ast.unparse(n)[:80], "KUnknown",
                                   "str.format applied to text that contains data (braces in the data are re-interpreted)")
                    st.befores.add("\x01")
                for a in list(args) + list(kws.values()):
                    a = flat(a)
                    if a.o == DATA:
                        self.site(n, ast.unparse(n), "KRaw", a.note).befores.add("\x01")
                    m = lub(m, a)
                return AV(m.o, lead=m.lead, trail=m.trail)
            if fname in LINE_SINK_METHODS or (fname == "append" and recv in LINE_RECEIVERS):
                self.sink(n, args[0] if args else None)
                return code("None")
            if fname in ("append", "add") and args and isinstance(f.value, ast.Name):
                self.weak_update(f.value.id, AV(CODE, item=args[0]), env)
                return code("None")
            if fname in ("extend", "update") and args and isinstance(f.value, ast.Name):
                self.weak_update(f.value.id, args[0] if (args[0].item is not None) else AV(CODE, item=self.iter_item(args[0])), env)
                return code("None")
            if fname == "items":
                return AV(CODE, item=AV(CODE, elems=[base.key or unk("map key"), base.item or unk("map value")]))
            if fname == "keys":
                return AV(CODE, item=base.key or unk("map key"))
            if fname == "values":
                return AV(CODE, item=base.item or unk("map value"))
            if fname == "copy" and recv and (base.item is not None or base.elems is not None or base.o == DATA):
                return base
            if fname == "get" and (base.item is not None) and "Registry" not in recv:
                r = base.item
                if len(args) > 1:
                    r = lub(r, args[1])
                return r
            if fname == "index":
                return code("int")
            if flat(base).o == DATA and fname not in self.funcs:
                return data("method of " + (base.note or "data"))
        if fname == "get" and recv is not None and recv.endswith("Registry"):
            # PackerRegistry.get / UnpackerRegistry.get: text produced by one of the registered
            # creators - all of them live in the scanned files (inductive invariant of this scan)
            if "expression" in kws:
                pass
            return code("generated sub-expression (registry)")
        if isinstance(f, ast.Name) and f.id == "type" and len(args) == 1:
            return code("type object")
        # scanned functions: bind DATA arguments, use the summary
        r = self.call_known(fname, args, kws, n)
        if r is not None:
            return r
        # unknown callable: DATA in -> DATA out (conservative)
        for a in list(args) + list(kws.values()):
            if flat(a).o == DATA:
                return data("result of " + (fname or "call") + " on " + flat(a).note)
        if isinstance(f, ast.Name) and f.id[:1].isupper():
            return AV(CODE, note="object constructed by " + f.id)
        return unk(f"call of {fname} has no rule")

    def call_known(self, fname, args, kws, n):
        if fname is None:
            return None
        # `expression=` must be generated code
        if "expression" in kws and flat(kws["expression"]).o in (DATA, UNK):
            self.site(n, ast.unparse(n)[:80], "KUnknown", "expression= receives " + flat(kws["expression"]).o).befores.add("\x01")
        if fname in CALL_RULES and CALL_RULES[fname] is not None:
            return CALL_RULES[fname]
        cands = self.funcs.get(fname) or self.funcs.get(fname.lstrip("_")) or []
        if fname.startswith("__") and not fname.endswith("__"):
            cands = self.funcs.get(fname, [])
        if cands:
            for file, fd in cands:
                params = [a.arg for a in fd.args.posonlyargs + fd.args.args if a.arg not in ("self", "cls")]
                bound = dict(zip(params, args))
                bound.update(kws)
                for pn, av in bound.items():
                    if flat(av).o == DATA:
                        rule = FUNC_PARAM_RULES.get((fname, pn), PARAM_RULES.get(pn))
                        if rule is None or flat(rule).o != DATA:
                            self.site(n, f"{fname}({pn}=...)", "KUnknown",
                                      f"DATA passed to parameter {pn} of {fname}, which is not declared DATA").befores.add("\x01")
            r = self.summ.get(fname)
            if r is not None:
                return r
            return code("no return value yet")
        if fname in CALL_RULES and CALL_RULES[fname] is not None:
            return CALL_RULES[fname]
        if fname == "get" and args:
            # Registry.get(spec...) -> generated expression
            return code("generated sub-expression (registry)")
        if fname == "copy":
            return AV(CODE, note="object copy")
        return None

    def join(self, n, sepnode, sep_av, arg: AV) -> AV:
        sep = sepnode.value if isinstance(sepnode, ast.Constant) and isinstance(sepnode.value, str) else None
        it = flat(self.iter_item(arg)) if (arg.item is not None or arg.elems is not None) else flat(arg)
        if it.o == DATA:
            s = self.site(n, ast.unparse(n), "KRaw", it.note)
            s.befores.add((sep or "") or "\x01")
            s.afters.add((sep or "") or "\x01")
            return data("join of raw data")
        if it.o == QUOTED:
            for s in it.lead:
                s.befores.add(sep if sep else "\x01")
            for s in it.trail:
                s.afters.add(sep if sep else "\x01")
            return AV(QUOTED, lead=it.lead, trail=it.trail, note="join")
        if it.o == UNK:
            return unk("join of " + it.note)
        return code("join of library text")

    def sink(self, n, av):
        if av is None:
            return
        a = flat(av)
        if a.o == DATA and a.note != "built text" and not (n.args and isinstance(n.args[0], (ast.JoinedStr, ast.BinOp))):
            # a raw data string emitted as (part of) a generated line
            st = self.site(n, ast.unparse(n)[:80], "KRaw", a.note)
            st.befores.add("\n")
            st.afters.add("\n")
        for s in a.lead:
            s.befores.add("\n")
        for s in a.trail:
            s.afters.add("\n")

    def weak_update(self, name, av, env):
        env[name] = lub(env.get(name), av)

    # -- binding
    def bind(self, t, v: AV, env):
        if isinstance(t, ast.Name):
            env[t.id] = v
        elif isinstance(t, (ast.Tuple, ast.List)):
            if v.elems is not None and len(v.elems) == len(t.elts):
                for x, e in zip(t.elts, v.elems):
                    self.bind(x, e, env)
            else:
                f = flat(v) if (v.elems is not None) else (v if v.item is None else v.item)
                for x in t.elts:
                    self.bind(x, f, env)
        elif isinstance(t, ast.Subscript) and isinstance(t.value, ast.Name):
            k = self.ev(t.slice, env)
            self.weak_update(t.value.id, AV(CODE, item=v, key=k), env)
        elif isinstance(t, ast.Attribute):
            if t.attr == "expression" and flat(v).o in (DATA, UNK):
                self.site(t, ast.unparse(t), "KUnknown", "expression receives " + flat(v).o).befores.add("\x01")
        elif isinstance(t, ast.Starred):
            self.bind(t.value, AV(CODE, item=v), env)

    # -- statements
    def block(self, stmts, env):
        for s in stmts:
            self.stmt(s, env)

    def merge(self, env, *others):
        keys = set(env)
        for o in others:
            keys |= set(o)
        for k in keys:
            m = env.get(k)
            for o in others:
                if k in o:
                    m = lub(m, o[k]) if (k in env or m is not None) else o[k]
            env[k] = m

    def stmt(self, s, env):
        if isinstance(s, ast.Assign):
            v = self.ev(s.value, env)
            for t in s.targets:
                self.bind(t, v, env)
        elif isinstance(s, ast.AnnAssign):
            if s.value is not None:
                self.bind(s.target, self.ev(s.value, env), env)
        elif isinstance(s, ast.AugAssign):
            if isinstance(s.op, ast.Add) and isinstance(s.target, ast.Name):
                fake = ast.BinOp(left=ast.Name(id=s.target.id, ctx=ast.Load()), op=ast.Add(), right=s.value)
                ast.copy_location(fake, s)
                ast.fix_missing_locations(fake)
                v = self.ev(fake, env)
                env[s.target.id] = v
            else:
                v = self.ev(s.value, env)
                if isinstance(s.target, ast.Name):
                    self.weak_update(s.target.id, v, env)
        elif isinstance(s, ast.Expr):
            self.ev(s.value, env)
        elif isinstance(s, ast.Return):
            if s.value is not None:
                v = self.ev(s.value, env)
                self.ret = lub(self.ret, v)
        elif isinstance(s, ast.If):
            self.ev(s.test, env)
            e1, e2 = dict(env), dict(env)
            saved_guards, saved_tg = self.guards, self.type_guards
            self.guards = {**saved_guards, **guard_of(s.test)}
            self.type_guards = {**saved_tg, **type_guard_of(s.test)}
            self.block(s.body, e1)
            self.guards, self.type_guards = saved_guards, saved_tg
            self.block(s.orelse, e2)
            env.clear()
            env.update(e1)
            self.merge(env, e2)
        elif isinstance(s, (ast.For, ast.AsyncFor)):
            for _ in range(2):
                it = self.ev(s.iter, env)
                e1 = dict(env)
                self.bind(s.target, self.iter_item(it), e1)
                self.block(s.body, e1)
                self.merge(env, e1)
            self.block(s.orelse, env)
        elif isinstance(s, ast.While):
            for _ in range(2):
                self.ev(s.test, env)
                e1 = dict(env)
                self.block(s.body, e1)
                self.merge(env, e1)
        elif isinstance(s, (ast.With, ast.AsyncWith)):
            for it in s.items:
                v = self.ev(it.context_expr, env)
                if it.optional_vars is not None:
                    self.bind(it.optional_vars, v, env)
            self.block(s.body, env)
        elif isinstance(s, ast.Try):
            e0 = dict(env)
            self.block(s.body, env)
            for h in s.handlers:
                e1 = dict(e0)
                self.merge(e1, env)
                self.block(h.body, e1)
                self.merge(env, e1)
            self.block(s.orelse, env)
            self.block(s.finalbody, env)
        elif isinstance(s, (ast.FunctionDef, ast.AsyncFunctionDef)):
            self.function(s, env)
        elif isinstance(s, ast.Raise):
            for x in ast.walk(s):
                if isinstance(x, ast.FormattedValue):
                    self.excluded += 1
                    self.raise_nodes.add((self.file, x.value.lineno, x.value.col_offset))
        elif isinstance(s, (ast.Pass, ast.Break, ast.Continue, ast.Import, ast.ImportFrom, ast.Global, ast.Nonlocal,
                            ast.Assert, ast.Delete, ast.ClassDef)):
            if isinstance(s, ast.ClassDef):
                self.klass(s, env)
        else:
            self.site(s, type(s).__name__, "KUnknown", "unsupported statement").befores.add("\x01")

    def function(self, fd, outer_env):
        env = dict(outer_env)
        a = fd.args
        for p in a.posonlyargs + a.args + a.kwonlyargs + ([a.vararg] if a.vararg else []) + ([a.kwarg] if a.kwarg else []):
            if p.arg in ("self", "cls", "spec", "lines"):
                env[p.arg] = AV(CODE, note="object")
            elif (fd.name, p.arg) in FUNC_PARAM_RULES:
                env[p.arg] = FUNC_PARAM_RULES[(fd.name, p.arg)]
            elif p.arg in PARAM_RULES:
                env[p.arg] = PARAM_RULES[p.arg]
            else:
                env[p.arg] = None
        saved = (self.func, getattr(self, "ret", None))
        self.func = fd.name
        self.ret = None
        self.block(fd.body, env)
        if self.ret is not None:
            old = self.summ.get(fd.name)
            self.summ[fd.name] = lub(old, self.ret)
        self.func, self.ret = saved

    def klass(self, cd, env):
        for s in cd.body:
            if isinstance(s, (ast.FunctionDef, ast.AsyncFunctionDef)):
                self.function(s, env)
            elif isinstance(s, ast.ClassDef):
                self.klass(s, env)

    def run(self):
        trees = {}
        for f in FILES:
            src = open(os.path.join(REPO, f)).read()
            trees[f] = ast.parse(src)
            for n in ast.walk(trees[f]):
                if isinstance(n, (ast.FunctionDef, ast.AsyncFunctionDef)):
                    self.funcs.setdefault(n.name, []).append((f, n))
        for rnd in range(4):
            # rounds: function summaries (return values) of round n are used in round n+1;
            # only what the LAST round sees is reported
            self.round = rnd
            self.counts = {CODE: 0, QUOTED: 0, UNK: 0, DATA: 0}
            self.code_exprs = {}
            self.excluded = 0
            self.visited = set()
            self.raise_nodes = set()
            for f, t in trees.items():
                self.file = f
                self.func = "<module>"
                env: dict = {}
                for s in t.body:
                    if f in ONLY_FUNCS and not (isinstance(s, ast.FunctionDef) and s.name in ONLY_FUNCS[f]):
                        continue
                    if isinstance(s, (ast.FunctionDef, ast.AsyncFunctionDef)):
                        self.function(s, env)
                    elif isinstance(s, ast.ClassDef):
                        self.klass(s, env)
        # every FormattedValue of the files must have been visited (fail closed)
        self.total_fv = 0
        for f, t in trees.items():
            scope = [t] if f not in ONLY_FUNCS else [x for x in t.body if isinstance(x, ast.FunctionDef) and x.name in ONLY_FUNCS[f]]
            if f in ONLY_FUNCS:
                # fail closed: no other function of the file may touch a DATA source
                for x in t.body:
                    if isinstance(x, ast.FunctionDef) and x.name not in ONLY_FUNCS[f] and x.name != "get_literal_values":
                        for y in ast.walk(x):
                            if (isinstance(y, ast.Name) and y.id in ("get_literal_values", "_get_literal_values_str")) or \
                               (isinstance(y, ast.Attribute) and y.attr in ("aliases", "alias")):
                                self.file, self.func = f, x.name
                                self.site(y, x.name, "KUnknown", "unscanned function touches a DATA source").befores.add("\x01")
            for n in (y for sc_ in scope for y in ast.walk(sc_)):
                if isinstance(n, ast.FormattedValue):
                    self.total_fv += 1
                    k = (f, n.value.lineno, n.value.col_offset)
                    if k not in self.visited and k not in self.raise_nodes and not self.in_print(t, n):
                        self.file = f
                        self.func = "?"
                        st = self.site(n.value, ast.unparse(n.value), "KUnknown", "formatted value not reached by the scan")
                        st.befores.add("\x01")
        return self

    _print_cache: dict = {}

    def in_print(self, tree, node) -> bool:
        """f-strings that are arguments of print(...) (Config.debug output) never reach exec"""
        key = id(tree)
        if key not in self._print_cache:
            inside = set()
            for c in ast.walk(tree):
                if isinstance(c, ast.Call) and isinstance(c.func, ast.Name) and c.func.id == "print":
                    for x in ast.walk(c):
                        inside.add(id(x))
            self._print_cache[key] = inside
        return id(node) in self._print_cache[key]


_TUPLE_BODY = ast.dump(ast.parse(
    "items = [self.get_field_default_literal(item) for item in value]\n"
    "if len(items) == 1:\n    return f\"({items[0]},)\"\n"
    "return f\"({', '.join(items)})\"\n").body and ast.Module(body=ast.parse(
        "items = [self.get_field_default_literal(item) for item in value]\n"
        "if len(items) == 1:\n    return f\"({items[0]},)\"\n"
        "return f\"({', '.join(items)})\"\n").body, type_ignores=[]))
_IMPORT_BODY = ast.dump(ast.Module(body=ast.parse(
    "name = f\"v_{uuid.uuid4().hex}\"\nself.ensure_object_imported(value, name)\nreturn name\n").body, type_ignores=[]))


_LITERAL_REPR = ast.dump(ast.parse(
    "def literal_repr(value):\n    for base in (bool, int, str, bytes):\n        if isinstance(value, base):\n"
    "            return base.__repr__(value)\n    return repr(value)\n").body[0].body and ast.Module(body=ast.parse(
        "for base in (bool, int, str, bytes):\n    if isinstance(value, base):\n        return base.__repr__(value)\nreturn repr(value)\n").body,
        type_ignores=[]))


def literal_repr_ok() -> bool:
    """helpers.literal_repr exists and its body is the expected one (docstring/annotations ignored)"""
    try:
        t = ast.parse(open(os.path.join(REPO, "mashumaro/core/meta/helpers.py")).read())
    except OSError:
        return False
    for n in t.body:
        if isinstance(n, ast.FunctionDef) and n.name == "literal_repr" and [a.arg for a in n.args.args] == ["value"]:
            body = n.body
            if body and isinstance(body[0], ast.Expr) and isinstance(body[0].value, ast.Constant):
                body = body[1:]
            return ast.dump(ast.Module(body=body, type_ignores=[])) == _LITERAL_REPR
    return False


def default_literal_branches() -> list:
    """The if/elif chain of CodeBuilder.get_field_default_literal as (guard, action) pairs; anything
    that is not one of the recognised shapes becomes GUnknown / AUnknown (fail closed)."""
    src = open(os.path.join(REPO, FILES[0])).read()
    fd = None
    for n in ast.walk(ast.parse(src)):
        if isinstance(n, ast.FunctionDef) and n.name == "get_field_default_literal":
            fd = n
    if fd is None or [a.arg for a in fd.args.args] != ["self", "value"]:
        return [("GUnknown", "AUnknown")]

    def guard(test) -> str:
        t = ast.unparse(test)
        if t == "isinstance(value, enum.IntFlag)":
            return "GIntFlag"
        tg = type_guard_of(test)
        if isinstance(test, ast.Compare) and "value" in tg and len(tg) == 1:
            return "(GTypeIn [" + "; ".join(tg["value"]) + "])"
        if t == "isinstance(value, float) and (not math.isnan(value)) and (not math.isinf(value))" and tg.get("value") == ["TFloat"]:
            return "GFiniteFloat"
        if t == "isinstance(value, tuple) and (not is_named_tuple(type(value)))":
            return "GPlainTuple"
        return "GUnknown"

    def action(body) -> str:
        d = ast.dump(ast.Module(body=body, type_ignores=[]))
        if len(body) == 1 and isinstance(body[0], ast.Return):
            r = ast.unparse(body[0].value)
            if r == "str(value.value)":
                return "AStrIntValue"
            if r == "repr(value)":
                return "ARepr"
        if d == _TUPLE_BODY:
            return "ATupleElementwise"
        if d == _IMPORT_BODY:
            return "AImportByName"
        return "AUnknown"

    out = []
    body = fd.body
    # skip a docstring
    if body and isinstance(body[0], ast.Expr) and isinstance(body[0].value, ast.Constant):
        body = body[1:]
    if len(body) != 1 or not isinstance(body[0], ast.If):
        return [("GUnknown", "AUnknown")]
    node = body[0]
    while True:
        out.append((guard(node.test), action(node.body)))
        if len(node.orelse) == 1 and isinstance(node.orelse[0], ast.If):
            node = node.orelse[0]
            continue
        out.append(("GElse", action(node.orelse)) if node.orelse else ("GUnknown", "AUnknown"))
        break
    return out


def coq_string(s: str) -> str:
    if all(32 <= ord(c) < 127 and c != '"' for c in s):
        return '"' + s + '"'
    return '(hx "' + s.encode("utf-8").hex() + '")'


def rows(sc: Scanner):
    out = []
    for k in sorted(sc.sites, key=lambda k: (k[0], k[1], k[2], k[3], k[4])):
        s = sc.sites[k]
        if s.round != sc.round:
            continue
        bs = sorted(s.befores) or ["\x01"]
        as_ = sorted(s.afters) or ["\x01"]
        for b in bs:
            for a in as_:
                out.append((s, b, a))
    return out


def gen() -> str:
    sc = Scanner().run()
    rs = rows(sc)
    lines = ["(* GENERATED by tools/kernels/k10_splices.py from " + ", ".join(FILES) + " - do not edit *)",
             "From Coq Require Import List String Ascii NArith Bool.",
             "From Verif Require Import Wire PyStrLit Splice DefaultLit.",
             "Import ListNotations.",
             "Open Scope string_scope.",
             "",
             f"(* formatted values visited per origin class: {sc.counts}; inside `raise` (build-time messages, excluded): {sc.excluded} *)",
             "Definition splice_sites : list site :=",
             "  ["]
    items = []
    for s, b, a in rs:
        items.append("   mk_site %s %d %s %s %s %s [%s] %s %s" % (
            coq_string(s.file.split("/")[-1]), s.line, coq_string(s.func), coq_string(s.expr[:80]),
            coq_string((s.origin or "")[:60]), s.kind, "; ".join(s.types), coq_string(b), coq_string(a)))
    lines.append(";\n".join(items))
    lines.append("  ].")
    lines.append("")
    lines.append(f"Definition k10_formatted_values_total : nat := {sc.total_fv}.")
    lines.append("")
    lines.append("(* library text placed inside static string literals of the templates *)")
    lines.append("Definition ident_sites : list isite :=")
    irows = []
    for k in sorted(sc.ident_rows):
        ir = sc.ident_rows[k]
        if ir[-1] != sc.round:
            continue
        irows.append("   mk_isite %s %d %s %s %s %s %s %s %s" % (
            coq_string(ir[0].split("/")[-1]), ir[1], coq_string(ir[2]), coq_string(ir[3][:80]), coq_string(ir[4][:60]),
            "true" if ir[5] else "false", coq_string(ir[6]), coq_string(ir[7]), coq_string(ir[8])))
    lines.append("  [" + ";\n".join(irows) + "].")
    lines.append("")
    lines.append("(* CodeBuilder.get_field_default_literal: its if/elif chain *)")
    lines.append("Definition default_literal_branches : list (dguard * daction) :=")
    lines.append("  [" + "; ".join(f"({g}, {a})" for g, a in default_literal_branches()) + "].")
    return "\n".join(lines) + "\n"


def report() -> dict:
    """summary for the evidence file / debugging"""
    sc = Scanner().run()
    rs = rows(sc)
    return {
        "counts": sc.counts, "excluded_in_raise": sc.excluded, "total_formatted_values": sc.total_fv,
        "sites": [{"file": s.file, "line": s.line, "func": s.func, "expr": s.expr, "kind": s.kind, "origin": s.origin,
                   "types": s.types, "before": b, "after": a} for s, b, a in rs],
        "code_exprs": sc.code_exprs,
        "ident_sites": [{"file": ir[0], "line": ir[1], "func": ir[2], "expr": ir[3], "origin": ir[4], "plain": ir[5],
                         "quote": ir[6], "before": ir[7], "after": ir[8]}
                        for k, ir in sorted(sc.ident_rows.items()) if ir[-1] == sc.round],
    }


if __name__ == "__main__":
    import json
    r = report()
    for s in r["sites"]:
        print(s["kind"], s["file"].split("/")[-1], s["line"], s["func"], "|", s["expr"], "|", s["origin"], "|", ",".join(s["types"]), "|", repr(s["before"][-30:]), repr(s["after"][:20]))
    sc2 = Scanner().run()
    for k in sorted(sc2.ident_rows):
        ir = sc2.ident_rows[k]
        if ir[-1] == sc2.round:
            print("IDENT", ir[0].split("/")[-1], ir[1], ir[2], "|", ir[3], "|", ir[4][:40], "| plain" if ir[5] else "| NOT-PLAIN", "|", repr(ir[6]), repr(ir[7]), repr(ir[8]))
    print(default_literal_branches())
    print(r["counts"], "excluded", r["excluded_in_raise"], "total", r["total_formatted_values"])
    if "-v" in sys.argv:
        for k, v in sorted(r["code_exprs"].items()):
            print("  CODE", k, "--", v)
