"""Kernel K13F: the default values of the generated `omit_none=` / `by_alias=` keywords
(CodeBuilder.get_pack_method_default_flag_values), translated from /repo on every run.

The two blocks

    if omit_none_feature:
        omit_none = <E1>
        kw_param_names.append("omit_none")
        kw_param_values.append(<R1>)
    if by_alias_feature:
        serialize_by_alias = <E2>
        kw_param_names.append("by_alias")
        kw_param_values.append(<R2>)

are located by their guard name; their shape is verified (anything else: Unsupported) and
`<var> = <E>; return <R>` is translated as a function of the four namespaces option
resolution reads.  `self.get_dialect_or_config_option(opt, default[, cls])` becomes a call of
the translated kernel K3 (VerifGen.K3.get_dialect_or_config_option).  The abstraction is for
`cls is None` (the method definition of the class being built, the only use with a default
method): self.get_config(cls) = a_cfg, its .dialect = a_cfg_dialect."""
from __future__ import annotations

import ast
import os
import sys

HERE = os.path.dirname(os.path.abspath(__file__))
sys.path.insert(0, os.path.dirname(HERE))
from py2gallina import HEADER, FnTranslator, Kernel, Unsupported, find_function  # noqa: E402

NAME = "K13F"
REPO = os.environ.get("VERIF_REPO", "/repo")

PARAMS = ["a_dialect", "a_cfg_dialect", "a_cfg", "a_default_dialect"]


class FlagTranslator(FnTranslator):
    def call(self, e: ast.Call):
        f = ast.unparse(e.func)
        if f == "self.get_dialect_or_config_option" and not e.keywords and len(e.args) in (2, 3):
            if len(e.args) == 3 and ast.unparse(e.args[2]) != "cls":
                raise Unsupported("get_dialect_or_config_option: third argument is not `cls`")
            p1, o = self.expr(e.args[0])
            p2, d = self.expr(e.args[1])
            t = self.fresh()
            return p1 + p2 + [(t, f"get_dialect_or_config_option a_dialect a_cfg_dialect a_cfg a_default_dialect {o} {d}")], t
        return super().call(e)


def block(fn: ast.FunctionDef, guard: str, flag: str):
    found = [s for s in ast.walk(fn) if isinstance(s, ast.If) and ast.unparse(s.test) == guard]
    if len(found) != 1:
        raise Unsupported(f"expected exactly one `if {guard}:` block, found {len(found)}")
    b = found[0]
    if b.orelse or len(b.body) != 3:
        raise Unsupported(f"`if {guard}:` block has an unexpected shape")
    a, n, v = b.body
    if not (isinstance(a, ast.Assign) and len(a.targets) == 1 and isinstance(a.targets[0], ast.Name)):
        raise Unsupported(f"`if {guard}:` does not start with an assignment")
    if ast.unparse(n) != f"kw_param_names.append({flag!r})":
        raise Unsupported(f"`if {guard}:` second statement is {ast.unparse(n)!r}")
    if not (isinstance(v, ast.Expr) and isinstance(v.value, ast.Call) and ast.unparse(v.value.func) == "kw_param_values.append"
            and len(v.value.args) == 1):
        raise Unsupported(f"`if {guard}:` third statement is {ast.unparse(v)!r}")
    # the rendered value may only depend on the assigned variable
    var = a.targets[0].id
    for node in ast.walk(v.value.args[0]):
        if isinstance(node, ast.Name) and node.id != var:
            raise Unsupported(f"keyword default of {flag} depends on {node.id}")
    return a, ast.Return(value=v.value.args[0])


def gen() -> str:
    src = os.path.join(REPO, "mashumaro/core/meta/code/builder.py")
    module = ast.parse(open(src).read())
    fn = find_function(module, "CodeBuilder.get_pack_method_default_flag_values")
    text = HEADER.format(src="mashumaro/core/meta/code/builder.py (get_pack_method_default_flag_values: keyword defaults)")
    text += "From VerifGen Require Import K3.\n\n"
    for guard, flag, name in (("omit_none_feature", "omit_none", "kw_default_omit_none"),
                              ("by_alias_feature", "by_alias", "kw_default_by_alias")):
        a, r = block(fn, guard, flag)
        newfn = ast.FunctionDef(name=name, args=ast.arguments(posonlyargs=[], args=[], kwonlyargs=[], kw_defaults=[], defaults=[]),
                                body=[a, r], decorator_list=[], lineno=1)
        ast.fix_missing_locations(newfn)
        k = Kernel(func=name, coq_name=name, params=PARAMS)
        tr = FlagTranslator(k, module)
        text += tr.translate(newfn) + "\n"
    return text


if __name__ == "__main__":
    print(gen())
