"""Kernel K8 (property C08): translated from /repo on every run

  * CodeBuilder.get_pack_method_flags with pass_encoder=False -- the keyword flags a
    dataclass forwards to a nested dataclass `cls`.  `self.is_code_generation_option_enabled(
    option[, cls])` is abstracted as a lookup in two boolean-valued namespaces (a_self: options
    enabled on the class being built, a_other: options enabled on `cls`); the abstraction is
    only used if the source of is_code_generation_option_enabled is the expected one-liner.
  * the kwargs-vs-dict-literal test of _add_pack_method_lines (the `if` whose body starts with
    `kwargs = "kwargs"`), as a function of its seven free variables.

Fail closed: anything unexpected raises Unsupported (the kernel becomes a stub and every
theorem that imports VerifGen.K8 stops compiling)."""
from __future__ import annotations

import ast
import os

from py2gallina import (HEADER, FnTranslator, Kernel, Unsupported, coq_string, find_function,
                        module_str_constant)

NAME = "K8"
REPO = os.environ.get("VERIF_REPO", "/repo")

OPTION_CONSTS = ("TO_DICT_ADD_OMIT_NONE_FLAG", "TO_DICT_ADD_BY_ALIAS_FLAG", "ADD_DIALECT_SUPPORT",
                 "ADD_SERIALIZATION_CONTEXT")

EXPECTED_ENABLED = ("def is_code_generation_option_enabled(self, option: str, cls: typing.Optional[typing.Type]=None) -> bool:\n"
                    "    if cls is None:\n"
                    "        cls = self.cls\n"
                    "    return option in self.get_config(cls).code_generation_options")


class K8Translator(FnTranslator):
    """adds: tuple-target `for` over a literal tuple of tuples, `<list local>.append(e)`,
    f-strings over names, `'<sep>'.join(<list local>)`, list display `[]`,
    self.is_code_generation_option_enabled(option[, cls])."""

    consts: dict[str, str] = {}

    def unroll(self, stmts):
        out = []
        for s in stmts:
            if isinstance(s, ast.For) and isinstance(s.target, ast.Tuple):
                if s.orelse or not isinstance(s.iter, (ast.Tuple, ast.List)):
                    raise Unsupported("for with tuple target over a non literal sequence")
                for node in ast.walk(s):
                    if isinstance(node, (ast.Break, ast.Continue)):
                        raise Unsupported("break/continue")
                names = []
                for t in s.target.elts:
                    if not isinstance(t, ast.Name):
                        raise Unsupported("nested for target")
                    names.append(t)
                for elt in s.iter.elts:
                    if not isinstance(elt, ast.Tuple) or len(elt.elts) != len(names):
                        raise Unsupported("for element is not a literal tuple of the target's length")
                    for t, v in zip(names, elt.elts):
                        out.append(ast.Assign(targets=[ast.Name(id=t.id, ctx=ast.Store())], value=v, lineno=s.lineno))
                    out.extend(self.unroll(s.body))
            elif isinstance(s, ast.If):
                out.append(ast.If(test=s.test, body=self.unroll(s.body), orelse=self.unroll(s.orelse)))
            else:
                out.extend(super().unroll([s]))
        return out

    @staticmethod
    def _append_target(s):
        if (isinstance(s, ast.Expr) and isinstance(s.value, ast.Call) and isinstance(s.value.func, ast.Attribute)
                and s.value.func.attr == "append" and isinstance(s.value.func.value, ast.Name)
                and len(s.value.args) == 1 and not s.value.keywords):
            return s.value.func.value.id
        return None

    def assigned(self, stmts):
        out = super().assigned(stmts)
        for s in stmts:
            for node in ast.walk(s):
                n = self._append_target(node)
                if n is not None and n not in out:
                    out.append(n)
        return out

    def block(self, stmts, k):
        if stmts:
            s = stmts[0]
            n = self._append_target(s)
            if n is not None:
                if n not in self.locals:
                    raise Unsupported(f"append to unknown name {n}")
                pre, a = self.expr(s.value.args[0])
                return self.wrap(pre + [(f"v_{n}", f"k_append v_{n} {a}")], self.block(stmts[1:], k))
        return super().block(stmts, k)

    def expr(self, e):
        if isinstance(e, ast.Name) and e.id in self.consts and e.id not in self.locals:
            return [], f"(KStr {coq_string(self.consts[e.id])})"
        if isinstance(e, ast.List) and not e.elts:
            return [], "(KList [])"
        if isinstance(e, ast.JoinedStr):
            pre, parts = [], []
            for v in e.values:
                if isinstance(v, ast.Constant) and isinstance(v.value, str):
                    parts.append(f"KStr {coq_string(v.value)}")
                elif isinstance(v, ast.FormattedValue) and v.conversion == -1 and v.format_spec is None:
                    p, a = self.expr(v.value)
                    pre += p
                    parts.append(a)
                else:
                    raise Unsupported("f-string piece")
            t = self.fresh()
            return pre + [(t, "k_fstr [" + "; ".join(parts) + "]")], t
        return super().expr(e)

    def call(self, e):
        f = ast.unparse(e.func)
        if f == "self.is_code_generation_option_enabled" and not e.keywords:
            if len(e.args) == 1:
                pre, a = self.expr(e.args[0])
                return pre, f"(k_getattr3 a_self {a} (KBool false))"
            if len(e.args) == 2 and isinstance(e.args[1], ast.Name) and e.args[1].id == "cls":
                pre, a = self.expr(e.args[0])
                return pre, f"(k_getattr3 a_other {a} (KBool false))"
            raise Unsupported("is_code_generation_option_enabled call shape")
        if (isinstance(e.func, ast.Attribute) and e.func.attr == "join" and isinstance(e.func.value, ast.Constant)
                and isinstance(e.func.value.value, str) and len(e.args) == 1 and not e.keywords):
            pre, a = self.expr(e.args[0])
            t = self.fresh()
            return pre + [(t, f"k_join (KStr {coq_string(e.func.value.value)}) {a}")], t
        return super().call(e)


def _flags_kernel(module: ast.Module, consts: dict[str, str]) -> str:
    en = find_function(module, "CodeBuilder.is_code_generation_option_enabled")
    if ast.unparse(en) != EXPECTED_ENABLED:
        raise Unsupported("is_code_generation_option_enabled changed; its abstraction as a namespace lookup is not justified")
    fn = find_function(module, "CodeBuilder.get_pack_method_flags")
    argnames = [a.arg for a in fn.args.args]
    if argnames != ["self", "cls", "pass_encoder"]:
        raise Unsupported(f"get_pack_method_flags parameters {argnames}")
    dflts = [ast.unparse(d) for d in fn.args.defaults]
    if dflts != ["None", "False"]:
        raise Unsupported(f"get_pack_method_flags defaults {dflts}")
    # slice: an `if pass_encoder and ...:` without else is dead for pass_encoder=False
    stmts = []
    for s in fn.body:
        if (isinstance(s, ast.If) and not s.orelse and isinstance(s.test, ast.BoolOp) and isinstance(s.test.op, ast.And)
                and isinstance(s.test.values[0], ast.Name) and s.test.values[0].id == "pass_encoder"):
            continue
        for node in ast.walk(s):
            if isinstance(node, ast.Name) and node.id == "pass_encoder":
                raise Unsupported("pass_encoder used outside the skipped block")
        stmts.append(s)
    for s in stmts:      # `cls` must not be rebound in the translated part
        for node in ast.walk(s):
            if isinstance(node, ast.Name) and node.id == "cls" and isinstance(node.ctx, ast.Store):
                raise Unsupported("cls rebound")
    newfn = ast.FunctionDef(name="get_pack_method_flags", args=fn.args, body=stmts, decorator_list=[], lineno=1)
    ast.fix_missing_locations(newfn)
    k = Kernel(func="get_pack_method_flags", coq_name="get_pack_method_flags", params=["a_self", "a_other"])
    tr = K8Translator(k, module)
    tr.consts = consts
    return tr.translate(newfn)


KW_VARS = ["nontrivial_nullable_fields", "nullable_fields", "omit_none", "omit_none_feature", "by_alias_feature",
           "aliases", "omit_default"]


def _kwargs_test_kernel(module: ast.Module) -> str:
    fn = find_function(module, "CodeBuilder._add_pack_method_lines")
    hits = []
    for node in ast.walk(fn):
        if isinstance(node, ast.If) and node.body and ast.unparse(node.body[0]) == "kwargs = 'kwargs'":
            hits.append(node)
    if len(hits) != 1:
        raise Unsupported(f"kwargs-vs-literal decision: {len(hits)} candidates")
    test = hits[0].test
    free = sorted({n.id for n in ast.walk(test) if isinstance(n, ast.Name)})
    if not set(free) <= set(KW_VARS):
        raise Unsupported(f"kwargs-vs-literal test reads {free}")
    src = "def use_kwargs_test(" + ", ".join(KW_VARS) + "):\n    return " + ast.unparse(test) + "\n"
    mod2 = ast.parse(src)
    k = Kernel(func="use_kwargs_test", coq_name="use_kwargs_test", params=[f"v_{v}" for v in KW_VARS])
    tr = FnTranslator(k, mod2)
    for v in KW_VARS:
        tr.locals.add(v)
    return tr.translate(mod2.body[0])


def gen() -> str:
    src = os.path.join(REPO, "mashumaro/core/meta/code/builder.py")
    module = ast.parse(open(src).read())
    cfg = ast.parse(open(os.path.join(REPO, "mashumaro/config.py")).read())
    consts = {c: module_str_constant(cfg, c) for c in OPTION_CONSTS}
    if len(set(consts.values())) != len(consts):
        raise Unsupported("code generation option constants are not distinct")
    imported = set()
    for n in module.body:
        if isinstance(n, ast.ImportFrom) and n.module == "mashumaro.config":
            imported |= {a.asname or a.name for a in n.names if (a.asname or a.name) == a.name}
    if not set(OPTION_CONSTS) <= imported:
        raise Unsupported("builder.py does not import the option constants from mashumaro.config")
    text = HEADER.format(src="mashumaro/core/meta/code/builder.py (get_pack_method_flags, kwargs-vs-literal test)")
    text = text.replace("From Verif Require Import Regex PyK.", "From Verif Require Import Regex PyK PyK_c08.")
    for c in OPTION_CONSTS:
        text += f"Definition c_{c} : string := {coq_string(consts[c])}.\n"
    text += "\n" + _flags_kernel(module, consts) + "\n" + _kwargs_test_kernel(module)
    return text
