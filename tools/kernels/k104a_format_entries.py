"""K104a (C04): the ENTRY POINTS of the five formats read from the AST of /repo:

* mashumaro/codecs/{json,orjson,yaml,msgpack,toml}.py: for every <F>Decoder / <F>Encoder class the dialect rule of
  __init__ (default_dialect handed to CodecCodeBuilder.new unchanged, or `<Cls>.merge(default_dialect)` when given and
  `<Cls>` otherwise), the library function handed to add_decode_method / add_encode_method (fixed, or a keyword
  parameter with a non-None default), and the one-shot functions (<f>_decode / <f>_encode build the object and call
  its method; `decode` / `encode` are aliases of them);
* mashumaro/mixins/{json,orjson,yaml,msgpack,toml}.py: either the `__mashumaro_builder_params` of the mixin class
  (format names, dialect class, encoder / decoder baked into the generated methods, encoder kwargs) or, for the two
  plain mixins, the bodies `return encoder(self.to_dict(**to_dict_kwargs))` /
  `return cls.from_dict(decoder(data), **from_dict_kwargs)` with the defaults of `encoder` / `decoder`.

A library function is normalised to text: `json.loads` stays, a module-level one-line wrapper
`def f(data): return lib.fn(data, ...)` becomes `lib.fn(_, ...)` with module-level constants inlined.
Fail closed: every class body / __init__ body / function must have exactly the recognised form, otherwise Unsupported.
The vocabulary (drule, centry, mentry) is coq/theories/FmtEntries.v."""
from __future__ import annotations

import ast
import os
import sys

HERE = os.path.dirname(os.path.abspath(__file__))
sys.path.insert(0, os.path.dirname(HERE))
from py2gallina import Unsupported  # noqa: E402

NAME = "K104a"
REPO = os.environ.get("VERIF_REPO", "/repo")

FORMATS = {   # module name -> (fmt constructor, codec class prefix, one-shot prefix, mixin class)
    "json": ("FJson", "JSON", "json", "DataClassJSONMixin"),
    "orjson": ("FOrjson", "ORJSON", "json", "DataClassORJSONMixin"),
    "yaml": ("FYaml", "YAML", "yaml", "DataClassYAMLMixin"),
    "msgpack": ("FMsgpack", "MessagePack", "msgpack", "DataClassMessagePackMixin"),
    "toml": ("FToml", "TOML", "toml", "DataClassTOMLMixin"),
}
LIB_MODULES = {"json", "orjson", "yaml", "msgpack", "tomli_w", "tomllib"}


def coq_str(s: str) -> str:
    return '"' + s.replace('"', '""') + '"'


class Mod:
    """what the module level of one file binds"""

    def __init__(self, rel: str):
        self.rel = rel
        self.qual = rel[:-3].replace("/", ".")
        self.tree = ast.parse(open(os.path.join(REPO, rel)).read())
        self.libs: set[str] = set()        # names bound to library modules
        self.imported: dict[str, str] = {}  # from-imports: local name -> qualified name
        self.consts: dict[str, str] = {}    # NAME = <expr>
        self.funcs: dict[str, ast.FunctionDef] = {}
        self.classes: dict[str, ast.ClassDef] = {}
        for n in self.tree.body:
            if isinstance(n, ast.Import):
                for a in n.names:
                    if a.asname is None and a.name in LIB_MODULES:
                        self.libs.add(a.name)
            elif isinstance(n, ast.ImportFrom):
                for a in n.names:
                    self.imported[a.asname or a.name] = f"{n.module}.{a.name}"
            elif isinstance(n, ast.Try):
                # try: import tomllib / except ModuleNotFoundError: import tomli as tomllib
                src = ast.unparse(n)
                if src != "try:\n    import tomllib\nexcept ModuleNotFoundError:\n    import tomli as tomllib":
                    raise Unsupported(f"{rel}: try statement {src[:80]!r}")
                self.libs.add("tomllib")
            elif isinstance(n, ast.Assign) and len(n.targets) == 1 and isinstance(n.targets[0], ast.Name):
                self.consts[n.targets[0].id] = ast.unparse(n.value)
            elif isinstance(n, ast.FunctionDef):
                self.funcs[n.name] = n
            elif isinstance(n, ast.ClassDef):
                self.classes[n.name] = n
            elif isinstance(n, ast.Expr) and isinstance(n.value, ast.Constant):
                continue
            else:
                raise Unsupported(f"{rel}: module-level statement {ast.unparse(n)[:80]!r}")

    def libfn(self, e: ast.expr) -> str:
        """normalised text of a library function expression"""
        if isinstance(e, ast.Attribute) and isinstance(e.value, ast.Name):
            if e.value.id not in self.libs:
                raise Unsupported(f"{self.rel}: {ast.unparse(e)} is not a function of a format library")
            return ast.unparse(e)
        if isinstance(e, ast.Name) and e.id in self.funcs:
            f = self.funcs[e.id]
            a = f.args
            if len(a.args) != 1 or a.vararg or a.kwarg or a.kwonlyargs or a.defaults or a.posonlyargs or f.decorator_list:
                raise Unsupported(f"{self.rel}: wrapper {e.id} has an unexpected signature")
            body = [s for s in f.body if not (isinstance(s, ast.Expr) and isinstance(s.value, ast.Constant))]
            if len(body) != 1 or not isinstance(body[0], ast.Return) or not isinstance(body[0].value, ast.Call):
                raise Unsupported(f"{self.rel}: wrapper {e.id} is not a single return of a call")
            call = body[0].value
            p = a.args[0].arg
            if not call.args or ast.unparse(call.args[0]) != p:
                raise Unsupported(f"{self.rel}: wrapper {e.id} does not pass its argument first")
            fn = self.libfn(call.func)

            def arg(x: ast.expr) -> str:
                for node in ast.walk(x):
                    if isinstance(node, ast.Name) and node.id == p:
                        raise Unsupported(f"{self.rel}: wrapper {e.id} uses its argument twice")
                if isinstance(x, ast.Name) and x.id in self.consts:
                    return self.consts[x.id]
                if isinstance(x, ast.Constant):
                    return ast.unparse(x)
                raise Unsupported(f"{self.rel}: wrapper {e.id}: argument {ast.unparse(x)}")
            parts = ["_"] + [arg(x) for x in call.args[1:]] + [f"{k.arg}={arg(k.value)}" for k in call.keywords]
            return f"{fn}({', '.join(parts)})"
        raise Unsupported(f"{self.rel}: library function expression {ast.unparse(e)}")

    def dialect_qual(self, name: str) -> str:
        if name in self.classes:
            if [ast.unparse(b) for b in self.classes[name].bases] != ["Dialect"]:
                raise Unsupported(f"{self.rel}: {name} is not a direct Dialect subclass")
            return f"{self.qual}.{name}"
        if name in self.imported:
            return self.imported[name]
        raise Unsupported(f"{self.rel}: dialect class {name} is not bound")


def real_init(cls: ast.ClassDef) -> ast.FunctionDef:
    inits = [s for s in cls.body if isinstance(s, ast.FunctionDef) and s.name == "__init__"]
    real = [f for f in inits if not any(ast.unparse(d) == "overload" for d in f.decorator_list)]
    if len(real) != 1 or len(inits) != 3:
        raise Unsupported(f"{cls.name}: expected two overloads and one __init__")
    return real[0]


def codec_side(m: Mod, cname: str, direction: str):
    """(drule, libfn text, overridable?) of one codec class"""
    if cname not in m.classes:
        raise Unsupported(f"{m.rel}: class {cname} not found")
    cls = m.classes[cname]
    for s in cls.body:
        if isinstance(s, ast.FunctionDef) and s.name in ("__init__", direction):
            continue
        if isinstance(s, ast.Expr) and isinstance(s.value, ast.Constant):
            continue
        raise Unsupported(f"{cname}: unexpected member {ast.unparse(s)[:60]!r}")
    meth = [s for s in cls.body if isinstance(s, ast.FunctionDef) and s.name == direction]
    if len(meth) != 1 or ast.unparse(meth[0].body[0]) != "..." or [ast.unparse(d) for d in meth[0].decorator_list] != ["final"]:
        raise Unsupported(f"{cname}.{direction} is not the @final stub replaced by the generated method")
    init = real_init(cls)
    kwname = "pre_decoder_func" if direction == "decode" else "post_encoder_func"
    a = init.args
    if [x.arg for x in a.args] != ["self", "shape_type"] or a.vararg or a.kwarg:
        raise Unsupported(f"{cname}.__init__ positional parameters")
    kwonly = {x.arg: d for x, d in zip(a.kwonlyargs, a.kw_defaults)}
    if set(kwonly) - {"default_dialect", kwname} or "default_dialect" not in kwonly or ast.unparse(kwonly["default_dialect"]) != "None":
        raise Unsupported(f"{cname}.__init__ keyword parameters {sorted(kwonly)}")
    body = [s for s in init.body if not (isinstance(s, ast.Expr) and isinstance(s.value, ast.Constant))]
    rule = "DAsIs"
    if isinstance(body[0], ast.If):
        st = body.pop(0)
        src = ast.unparse(st)
        if not (isinstance(st.test, ast.Compare) and ast.unparse(st.test) == "default_dialect is not None"
                and len(st.body) == 1 and len(st.orelse) == 1):
            raise Unsupported(f"{cname}.__init__: {src[:80]!r}")
        t, e = st.body[0], st.orelse[0]
        if not (isinstance(e, ast.Assign) and ast.unparse(e.targets[0]) == "default_dialect" and isinstance(e.value, ast.Name)):
            raise Unsupported(f"{cname}.__init__ else branch {ast.unparse(e)!r}")
        dcls = e.value.id
        if ast.unparse(t) != f"default_dialect = {dcls}.merge(default_dialect)":
            raise Unsupported(f"{cname}.__init__ then branch {ast.unparse(t)!r}")
        rule = f"(DMergeInto {coq_str(m.dialect_qual(dcls))})"
    if len(body) != 2:
        raise Unsupported(f"{cname}.__init__ has {len(body)} further statements")
    if ast.unparse(body[0]) != "code_builder = CodecCodeBuilder.new(type_args=get_args(shape_type), default_dialect=default_dialect)":
        raise Unsupported(f"{cname}.__init__: {ast.unparse(body[0])[:100]!r}")
    if m.imported.get("CodecCodeBuilder") != "mashumaro.codecs._builder.CodecCodeBuilder":
        raise Unsupported(f"{m.rel}: CodecCodeBuilder is {m.imported.get('CodecCodeBuilder')}")
    call = body[1]
    if not (isinstance(call, ast.Expr) and isinstance(call.value, ast.Call)
            and ast.unparse(call.value.func) == f"code_builder.add_{direction}_method"
            and len(call.value.args) == 3 and not call.value.keywords
            and [ast.unparse(x) for x in call.value.args[:2]] == ["shape_type", "self"]):
        raise Unsupported(f"{cname}.__init__: {ast.unparse(call)[:100]!r}")
    fn = call.value.args[2]
    if isinstance(fn, ast.Name) and fn.id == kwname:
        if kwname not in kwonly or kwonly[kwname] is None or ast.unparse(kwonly[kwname]) == "None":
            raise Unsupported(f"{cname}.__init__: {kwname} has no non-None default")
        return rule, m.libfn(kwonly[kwname]), True
    if kwname in kwonly:
        raise Unsupported(f"{cname}.__init__: {kwname} is a parameter but not what is passed on")
    return rule, m.libfn(fn), False


def oneshot_ok(m: Mod, prefix: str, cprefix: str, direction: str) -> None:
    fname = f"{prefix}_{direction}"
    if fname not in m.funcs or m.consts.get(direction) != fname:
        raise Unsupported(f"{m.rel}: {fname} / alias {direction} not found")
    f = m.funcs[fname]
    body = [s for s in f.body if not (isinstance(s, ast.Expr) and isinstance(s.value, ast.Constant))]
    if len(body) != 1 or not isinstance(body[0], ast.Return):
        raise Unsupported(f"{m.rel}: {fname} body")
    cname = f"{cprefix}{direction.capitalize()}r"
    kw = "pre_decoder_func" if direction == "decode" else "post_encoder_func"
    arg = "data" if direction == "decode" else "obj"
    src = ast.unparse(body[0])
    if src not in (f"return {cname}(shape_type).{direction}({arg})",
                   f"return {cname}(shape_type, {kw}={kw}).{direction}({arg})"):
        raise Unsupported(f"{m.rel}: {fname} is {src!r}")


def mixin_row(m: Mod, mixin: str):
    if mixin not in m.classes:
        raise Unsupported(f"{m.rel}: class {mixin} not found")
    cls = m.classes[mixin]
    if [ast.unparse(b) for b in cls.bases] != ["DataClassDictMixin"] \
            or m.imported.get("DataClassDictMixin") != "mashumaro.mixins.dict.DataClassDictMixin":
        raise Unsupported(f"{mixin}: bases")
    params = [s for s in cls.body if isinstance(s, ast.Assign) and ast.unparse(s.targets[0]) == "__mashumaro_builder_params"]
    meths = {s.name: s for s in cls.body if isinstance(s, ast.FunctionDef)}
    if params:
        if len(params) != 1 or not isinstance(params[0].value, ast.Dict):
            raise Unsupported(f"{mixin}: builder params")
        top = {ast.literal_eval(k): v for k, v in zip(params[0].value.keys, params[0].value.values)}
        if set(top) != {"packer", "unpacker"} or not all(isinstance(v, ast.Dict) for v in top.values()):
            raise Unsupported(f"{mixin}: builder params keys {sorted(top)}")
        pk = {ast.literal_eval(k): v for k, v in zip(top["packer"].keys, top["packer"].values)}
        up = {ast.literal_eval(k): v for k, v in zip(top["unpacker"].keys, top["unpacker"].values)}
        if set(pk) - {"format_name", "dialect", "encoder", "encoder_kwargs"} or set(up) != {"format_name", "dialect", "decoder"} \
                or not {"format_name", "dialect", "encoder"} <= set(pk):
            raise Unsupported(f"{mixin}: builder params {sorted(pk)} / {sorted(up)}")
        kwargs = []
        if "encoder_kwargs" in pk:
            kd = pk["encoder_kwargs"]
            if not isinstance(kd, ast.Dict):
                raise Unsupported(f"{mixin}: encoder_kwargs")
            for k, v in zip(kd.keys, kd.values):
                kwargs.append(f"{ast.literal_eval(k)}={ast.unparse(v)}")
        # the public methods are @final stubs replaced by the generated ones (names: to_/from_ + format name)
        pn, un = ast.literal_eval(pk["format_name"]), ast.literal_eval(up["format_name"])
        for nm in (f"to_{pn}", f"from_{un}"):
            f = meths.get(nm)
            if f is None or ast.unparse(f.body[0]) != "..." or "final" not in [ast.unparse(d) for d in f.decorator_list]:
                raise Unsupported(f"{mixin}.{nm} is not a @final stub")
        return ("MGenerated", pn, un, f"(Some {coq_str(m.dialect_qual(ast.unparse(pk['dialect'])))})",
                f"(Some {coq_str(m.dialect_qual(ast.unparse(up['dialect'])))})", m.libfn(pk["encoder"]), m.libfn(up["decoder"]), kwargs)
    # plain mixin: the two methods are ordinary Python
    fmt = m.rel.rsplit("/", 1)[1][:-3]
    to, frm = meths.get(f"to_{fmt}"), meths.get(f"from_{fmt}")
    if to is None or frm is None:
        raise Unsupported(f"{mixin}: to_{fmt} / from_{fmt} not found")
    if ast.unparse(to.body[0]) != "return encoder(self.to_dict(**to_dict_kwargs))" or len(to.body) != 1 \
            or [x.arg for x in to.args.args] != ["self", "encoder"] or len(to.args.defaults) != 1 or to.decorator_list:
        raise Unsupported(f"{mixin}.to_{fmt}: {ast.unparse(to.body[0])[:80]!r}")
    if ast.unparse(frm.body[0]) != "return cls.from_dict(decoder(data), **from_dict_kwargs)" or len(frm.body) != 1 \
            or [x.arg for x in frm.args.args] != ["cls", "data", "decoder"] or len(frm.args.defaults) != 1 \
            or [ast.unparse(d) for d in frm.decorator_list] != ["classmethod"]:
        raise Unsupported(f"{mixin}.from_{fmt}: {ast.unparse(frm.body[0])[:80]!r}")
    return ("MPlain", fmt, fmt, "None", "None", m.libfn(to.args.defaults[0]), m.libfn(frm.args.defaults[0]), [])


def k41_class_of_fmt() -> dict:
    """which class K41 reads for which format (so that `DMergeInto <cls>` means K41's table of that format)"""
    import importlib.util
    spec = importlib.util.spec_from_file_location("vk_k41_for_k104a", os.path.join(HERE, "k41_format_dialects.py"))
    k41 = importlib.util.module_from_spec(spec)
    spec.loader.exec_module(k41)
    return {fname: f"mashumaro.mixins.{mod}.{cname}" for mod, (cname, fname) in k41.MIXINS.items()}


def rows() -> dict:
    """per format module name: what was read, as plain Python data (also used by the harness to compare the reading
    with the live objects: harness/props/c04.py k104a_validation)"""
    out = {}
    k41cls = k41_class_of_fmt()
    for mod, (fname, cprefix, prefix, mixin) in FORMATS.items():
        cm = Mod(f"mashumaro/codecs/{mod}.py")
        drule, dfn, dover = codec_side(cm, f"{cprefix}Decoder", "decode")
        erule, efn, eover = codec_side(cm, f"{cprefix}Encoder", "encode")
        oneshot_ok(cm, prefix, cprefix, "decode")
        oneshot_ok(cm, prefix, cprefix, "encode")
        for r in (drule, erule):
            if r != "DAsIs" and k41cls.get(fname) is None:
                raise Unsupported(f"{mod}: codec merges into a dialect class K41 does not read")
        mm = Mod(f"mashumaro/mixins/{mod}.py")
        kind, pn, un, pd, ud, enc, dec, kwargs = mixin_row(mm, mixin)
        out[mod] = {"fmt": fname, "decoder_class": f"{cprefix}Decoder", "encoder_class": f"{cprefix}Encoder",
                    "oneshot": (f"{prefix}_decode", f"{prefix}_encode"), "mixin_class": mixin,
                    "dec_rule": drule, "dec_fn": dfn, "dec_param": dover, "enc_rule": erule, "enc_fn": efn, "enc_param": eover,
                    "m_kind": kind, "m_pack_name": pn, "m_unpack_name": un, "m_pack_dialect": pd, "m_unpack_dialect": ud,
                    "m_enc_fn": enc, "m_dec_fn": dec, "m_enc_kwargs": kwargs}
    return out


def gen() -> str:
    crow, mrow = [], []
    k41cls = k41_class_of_fmt()
    for mod, r in rows().items():
        fname = r["fmt"]
        crow.append(f"({fname}, mk_centry {r['dec_rule']} {coq_str(r['dec_fn'])} {'true' if r['dec_param'] else 'false'} "
                    f"{r['enc_rule']} {coq_str(r['enc_fn'])} {'true' if r['enc_param'] else 'false'})")
        mrow.append(f"({fname}, mk_mentry {r['m_kind']} {coq_str(r['m_pack_name'])} {coq_str(r['m_unpack_name'])} "
                    f"{r['m_pack_dialect']} {r['m_unpack_dialect']} {coq_str(r['m_enc_fn'])} {coq_str(r['m_dec_fn'])} "
                    f"[{'; '.join(coq_str(k) for k in r['m_enc_kwargs'])}])")
    krow = [f"({f}, {coq_str(c)})" for f, c in sorted(k41cls.items())]
    text = ("(* GENERATED by tools/kernels/k104a_format_entries.py from mashumaro/codecs/*.py and mashumaro/mixins/*.py -- do not edit.\n"
            "   Regenerated from /repo on every check run. *)\n"
            "From Coq Require Import List String Bool.\nFrom Verif Require Import Fmt FmtEntries.\nImport ListNotations.\n"
            "Open Scope string_scope.\n\n")
    text += "Definition source_codecs : list (fmt * centry) :=\n  [" + ";\n   ".join(crow) + "].\n\n"
    text += "Definition source_mixins : list (fmt * mentry) :=\n  [" + ";\n   ".join(mrow) + "].\n\n"
    text += "(* the class whose body K41 reads for each format *)\n"
    text += "Definition k41_classes : list (fmt * string) :=\n  [" + "; ".join(krow) + "].\n"
    return text


if __name__ == "__main__":
    print(gen())
