"""Kernel K108b (property C08): the ORDER in which CodeBuilder._add_pack_method_lines visits the fields --
the clause "keys ordered by field name iff sort_keys is set".

Translated on every run, from the two statements in front of the bookkeeping loop (kernel K18):

    fnames_and_types: ... = field_types.items()
    if <COND>:
        fnames_and_types = sorted(fnames_and_types, key=lambda x: <KEY>)
    for fname, ftype in fnames_and_types: ...

    order_cond(a_sort_keys)  <- <COND>   (the only abstraction: self.get_config().sort_keys is the parameter)
    order_key(x)             <- <KEY>    (x = the pair (field name, field type); NO abstraction, NO free name:
                                          a key that reads anything but its argument -- aliases, options -- is
                                          Unsupported, the kernel becomes a stub and the theorems fail closed)

Structure checked (fail closed): these are the only two bindings of `fnames_and_types` in the function, they are
adjacent and immediately followed by the one loop over `fnames_and_types`; `sorted` is the builtin called with
exactly (fnames_and_types, key=<one-parameter lambda>) (no reverse=); both emission loops of the function iterate
`packers.items()` (insertion order = the order of the bookkeeping loop) and nothing else rebinds `packers`."""
from __future__ import annotations

import ast
import os

from py2gallina import HEADER, FnTranslator, Kernel, Unsupported, find_function

NAME = "K108b"
REPO = os.environ.get("VERIF_REPO", "/repo")
VAR = "fnames_and_types"


def _targets(t) -> set:
    if isinstance(t, ast.Name):
        return {t.id}
    if isinstance(t, (ast.Tuple, ast.List)):
        return set().union(*[_targets(x) for x in t.elts]) if t.elts else set()
    if isinstance(t, ast.Starred):
        return _targets(t.value)
    return set()          # attribute / subscript stores bind no name


def _binds(node, name) -> bool:
    if isinstance(node, ast.Assign):
        return any(name in _targets(t) for t in node.targets)
    if isinstance(node, (ast.AnnAssign, ast.AugAssign)):
        return name in _targets(node.target)
    if isinstance(node, (ast.For, ast.comprehension)):
        return name in _targets(node.target)
    if isinstance(node, ast.NamedExpr):
        return node.target.id == name
    if isinstance(node, ast.withitem) and node.optional_vars is not None:
        return name in _targets(node.optional_vars)
    if isinstance(node, (ast.Global, ast.Nonlocal)):
        return name in node.names
    return False


def _find_block(fn):
    """the statement list that holds the first binding of VAR, and its index there"""
    for node in ast.walk(fn):
        for attr in ("body", "orelse", "finalbody"):
            blk = getattr(node, attr, None)
            if isinstance(blk, list):
                for i, s in enumerate(blk):
                    if isinstance(s, ast.AnnAssign) and isinstance(s.target, ast.Name) and s.target.id == VAR:
                        return blk, i
    raise Unsupported(f"no annotated binding of {VAR}")


def _fn(name, params, value):
    f = ast.FunctionDef(name=name, args=ast.arguments(posonlyargs=[], args=[], kwonlyargs=[], kw_defaults=[], defaults=[]),
                        body=[ast.Return(value=value)], decorator_list=[], lineno=1)
    ast.fix_missing_locations(f)
    return f


def gen() -> str:
    src = os.path.join(REPO, "mashumaro/core/meta/code/builder.py")
    module = ast.parse(open(src).read())
    fn = find_function(module, "CodeBuilder._add_pack_method_lines")
    blk, i = _find_block(fn)
    if len(blk) < i + 3:
        raise Unsupported("field order: block too short")
    first, cond, loop = blk[i], blk[i + 1], blk[i + 2]
    if first.value is None or ast.unparse(first.value) != "field_types.items()":
        raise Unsupported(f"field order: initial order is {ast.unparse(first.value) if first.value else None}")
    ft = [n for n in ast.walk(fn) if _binds(n, "field_types")]
    if len(ft) != 1 or not isinstance(ft[0], ast.Assign) or ast.unparse(ft[0].value) != "self.get_field_types(include_extras=True)":
        raise Unsupported("field order: field_types is not self.get_field_types(include_extras=True), bound once")
    if not (isinstance(cond, ast.If) and not cond.orelse and len(cond.body) == 1 and isinstance(cond.body[0], ast.Assign)):
        raise Unsupported("field order: the statement after the initial order is not `if c: fnames_and_types = ...`")
    asg = cond.body[0]
    if [ast.unparse(t) for t in asg.targets] != [VAR]:
        raise Unsupported("field order: conditional statement binds something else")
    call = asg.value
    if not (isinstance(call, ast.Call) and isinstance(call.func, ast.Name) and call.func.id == "sorted"
            and [ast.unparse(a) for a in call.args] == [VAR] and [k.arg for k in call.keywords] == ["key"]):
        raise Unsupported(f"field order: not sorted({VAR}, key=...): {ast.unparse(call)[:80]}")
    if any(_binds(n, "sorted") for n in ast.walk(module)) or any(
            isinstance(n, (ast.FunctionDef, ast.ClassDef)) and n.name == "sorted" for n in ast.walk(module)) or any(
            isinstance(n, (ast.Import, ast.ImportFrom)) and any((a.asname or a.name) == "sorted" for a in n.names) for n in ast.walk(module)):
        raise Unsupported("field order: `sorted` is rebound in the module")
    lam = call.keywords[0].value
    if not (isinstance(lam, ast.Lambda) and [a.arg for a in lam.args.args] == ["x"] and not lam.args.defaults
            and not lam.args.kwonlyargs and not lam.args.posonlyargs and lam.args.vararg is None and lam.args.kwarg is None):
        raise Unsupported("field order: key is not a lambda of the one parameter x")
    if not (isinstance(loop, ast.For) and ast.unparse(loop.iter) == VAR and ast.unparse(loop.target) == "(fname, ftype)"):
        raise Unsupported("field order: the sorted sequence is not consumed by the loop that follows")
    binds = [n for n in ast.walk(fn) if _binds(n, VAR)]
    if len(binds) != 2:
        raise Unsupported(f"field order: {len(binds)} bindings of {VAR}")
    uses = [n for n in ast.walk(fn) if isinstance(n, ast.Name) and n.id == VAR and isinstance(n.ctx, ast.Load)]
    if len(uses) != 2:            # the argument of sorted and the loop
        raise Unsupported(f"field order: {len(uses)} reads of {VAR}")
    # the emission follows the order of the bookkeeping loop
    pk = [n for n in ast.walk(fn) if _binds(n, "packers")]
    if len(pk) != 1 or not isinstance(pk[0], ast.Assign) or ast.unparse(pk[0].value) != "{}":
        raise Unsupported("field order: packers is not one fresh dict")
    stores = [n for n in ast.walk(fn) if isinstance(n, ast.Subscript) and isinstance(n.value, ast.Name)
              and n.value.id == "packers" and isinstance(n.ctx, (ast.Store, ast.Del))]
    if len(stores) != 1 or ast.unparse(stores[0].slice) != "fname" or not any(stores[0] is t for s in ast.walk(loop)
                                                                             if isinstance(s, ast.Assign) for t in s.targets):
        raise Unsupported("field order: packers[...] is stored elsewhere than packers[fname] in the bookkeeping loop")
    reads = [n for n in ast.walk(fn) if isinstance(n, ast.Name) and n.id == "packers" and isinstance(n.ctx, ast.Load)]
    loops = [n for n in ast.walk(fn) if isinstance(n, (ast.For, ast.comprehension)) and ast.unparse(n.iter) == "packers.items()"]
    if len(loops) != 2 or len(reads) != 3:     # the store above and the two emission loops (kwargs form / dict literal)
        raise Unsupported(f"field order: {len(loops)} loops over packers.items(), {len(reads)} reads of packers")

    text = HEADER.format(src="mashumaro/core/meta/code/builder.py (_add_pack_method_lines: the order of the fields)")
    text = text.replace("From Verif Require Import Regex PyK.", "From Verif Require Import Regex PyK PyK_c08.")
    k1 = Kernel(func="order_cond", coq_name="order_cond", params=["a_sort_keys"],
                abstr={"self.get_config().sort_keys": "a_sort_keys"})
    text += FnTranslator(k1, module).translate(_fn("order_cond", [], cond.test)) + "\n"
    k2 = Kernel(func="order_key", coq_name="order_key", params=["v_x"])
    tr = FnTranslator(k2, module)
    tr.locals.add("x")
    text += tr.translate(_fn("order_key", [], lam.body))
    return text
