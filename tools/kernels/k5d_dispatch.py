"""Kernel K5D (property C10): which descent site a type takes.

The if/elif chains of pack_/unpack_special_typing_primitive and pack_/unpack_collection are translated as decision
trees over their own test expressions: every test is kept as its source text and looked up in a valuation
`p : string -> bool` (the outcome of that test for the type at hand); every `return` is replaced by a tag naming what the
returning block does - the descent site it contains (K5P translates the spec.copy of those sites) or "decline"
(return None) / "raise" / "other".  Statements other than if / return / raise only contribute to the tag of their block.

    newtype      spec.copy(type=spec.type.__supertype__)
    optional     not_none_type_arg(...) + spec.copy(type=arg)
    union        <side>_union(spec, get_args(spec.type))
    self         the is_self branch (get_(un)pack_method_flags(spec.builder.cls))
    tuple_item   <side>_tuple(spec, args)          named_field  <side>_named_tuple(spec)
    typed_key    <side>_typed_dict(spec)           element      inner_expr(...)
Fail closed on anything else that is not a plain statement.
"""
from __future__ import annotations

import ast
import os

from py2gallina import HEADER, Unsupported, coq_string, find_function

NAME = "K5D"
REPO = os.environ.get("VERIF_REPO", "/repo")


def tag_of(block_text: str, side: str) -> str:
    reg = "PackerRegistry" if side == "pack" else "UnpackerRegistry"
    if "spec.copy(type=spec.type.__supertype__)" in block_text:
        return "newtype"
    if "not_none_type_arg(" in block_text and f"{reg}.get(spec.copy(type=arg))" in block_text:
        return "optional"
    if f"get_{side}_method_flags(spec.builder.cls)" in block_text:
        return "self"
    if f"return {side}_union(spec, get_args(spec.type))" in block_text:
        return "union"
    if side == "unpack" and "return UnionUnpackerBuilder(union_args).build(spec)" in block_text:
        return "union"          # (an Annotated Discriminator among spec.annotations selects the discriminated builder instead)
    if f"return {side}_named_tuple(spec)" in block_text:
        return "named_field"
    if f"return {side}_tuple(spec, args)" in block_text:
        return "tuple_item"
    if f"return {side}_typed_dict(spec)" in block_text:
        return "typed_key"
    if "inner_expr(" in block_text:
        return "element"
    if block_text.strip().endswith("return None") or block_text.strip() == "return":
        return "decline"
    return "other"


class Chain:
    def __init__(self, side: str):
        self.side = side
        self.tests: list[str] = []

    def tr(self, stmts, k: str, seen: list) -> str:
        """k: Gallina text for falling off the end of stmts; seen: statements of the current block so far"""
        if not stmts:
            return k
        s, rest = stmts[0], stmts[1:]
        if isinstance(s, ast.Return):
            text = "\n".join(ast.unparse(x) for x in seen + [s])
            return coq_string(tag_of(text, self.side))
        if isinstance(s, ast.Raise):
            return '"raise"'
        if isinstance(s, ast.If):
            for n in ast.walk(s.test):
                if isinstance(n, ast.NamedExpr):
                    raise Unsupported("walrus in a dispatch test")
            if not any(isinstance(n, (ast.Return, ast.Raise)) for n in ast.walk(s)):
                return self.tr(rest, k, seen + [s])       # no exit inside: only context for the tag of this block
            t = ast.unparse(s.test)
            if t not in self.tests:
                self.tests.append(t)
            after = self.tr(rest, k, seen)
            return f"(if p {coq_string(t)} then {self.tr(list(s.body), after, seen)} else {self.tr(list(s.orelse), after, seen)})"
        if isinstance(s, (ast.For, ast.While, ast.Try, ast.With)):
            # a loop / try inside a block: it may contain returns; treat the block as opaque up to its end
            for n in ast.walk(s):
                if isinstance(n, ast.Return):
                    text = "\n".join(ast.unparse(x) for x in seen + [s] + list(rest))
                    return coq_string(tag_of(text, self.side))
            return self.tr(rest, k, seen + [s])
        if isinstance(s, ast.FunctionDef):
            return self.tr(rest, k, seen)               # a nested definition is not executed here
        if isinstance(s, (ast.Assign, ast.AnnAssign, ast.Expr, ast.AugAssign)):
            return self.tr(rest, k, seen + [s])
        raise Unsupported(f"dispatch chain: statement {type(s).__name__}")


def _special(mod: ast.Module, side: str) -> tuple[str, list[str]]:
    fn = find_function(mod, f"{side}_special_typing_primitive")
    if [a.arg for a in fn.args.args] != ["spec"] or [ast.unparse(d) for d in fn.decorator_list] != ["register"]:
        raise Unsupported(f"{fn.name}: signature/decorators")
    ch = Chain(side)
    body = ch.tr(list(fn.body), '"decline"', [])
    return f"Definition dispatch_{side}_special (p: string -> bool) : string :=\n  {body}.\n", ch.tests


def _collection(mod: ast.Module, side: str) -> tuple[str, list[str]]:
    fn = find_function(mod, f"{side}_collection")
    if [a.arg for a in fn.args.args] != ["spec"] or [ast.unparse(d) for d in fn.decorator_list] != ["register"]:
        raise Unsupported(f"{fn.name}: signature/decorators")
    ch = Chain(side)
    body = ch.tr(list(fn.body), '"decline"', [])
    return f"Definition dispatch_{side}_collection (p: string -> bool) : string :=\n  {body}.\n", ch.tests


def gen() -> str:
    pmod = ast.parse(open(os.path.join(REPO, "mashumaro/core/meta/types/pack.py")).read())
    umod = ast.parse(open(os.path.join(REPO, "mashumaro/core/meta/types/unpack.py")).read())
    out = HEADER.format(src="pack.py / unpack.py (dispatch chains of *_special_typing_primitive and *_collection)")
    tests = {}
    for side, mod in (("pack", pmod), ("unpack", umod)):
        for f in (_special, _collection):
            text, ts = f(mod, side)
            out += text + "\n"
            tests[(side, f.__name__)] = ts
        # the special-typing handler is registered before the collection handler
        order = [n.name for n in mod.body if isinstance(n, ast.FunctionDef) and any(ast.unparse(d) == "register" for d in n.decorator_list)]
        if order.index(f"{side}_special_typing_primitive") > order.index(f"{side}_collection"):
            raise Unsupported(f"{side}: collection handler registered before the special typing handler")
        out += (f"Definition dispatch_{side} (p: string -> bool) : string :=\n"
                f"  let s := dispatch_{side}_special p in if String.eqb s \"decline\" then dispatch_{side}_collection p else s.\n\n")
    return out


def test_texts() -> dict:
    """for the harness: the test expressions of each chain, in source order"""
    pmod = ast.parse(open(os.path.join(REPO, "mashumaro/core/meta/types/pack.py")).read())
    umod = ast.parse(open(os.path.join(REPO, "mashumaro/core/meta/types/unpack.py")).read())
    res = {}
    for side, mod in (("pack", pmod), ("unpack", umod)):
        res[side] = _special(mod, side)[1] + [t for t in _collection(mod, side)[1]]
    return res
