"""Kernel K5P (property C10): how the resolution context travels to positions below a field.

Translated / extracted from /repo on every run (fail closed):

  1. CodeBuilder.get_unpack_method_flags (pass_decoder=False), with the translator of K8
     (get_pack_method_flags itself is VerifGen.K8).
  2. The class handed to get_(un)pack_method_flags at the four call sites that emit a call into another
     dataclass method: pack_dataclass / unpack_dataclass and the `is_self` branches of
     pack_/unpack_special_typing_primitive, as a function of (spec.type, spec.origin_type, spec.builder.cls);
     that the flags reach the emitted call is checked textually.
  3. The `spec.copy(...)` of the descent sites that re-enter the registry for a part of the type
     (NewType -> supertype, Optional -> the non-None argument, collection -> element, Union -> member, tuple -> item, NamedTuple -> field, TypedDict -> key), pack and unpack side, as
     transformers of the spec namespace {type, origin_type, annotated_type, metadata}: `type=` sets type and
     origin_type (ValueSpec.__setattr__), `field_ctx=spec.field_ctx.copy(metadata={})` empties the metadata,
     `annotated_type=None` (not present today) would clear the alias; expression / could_be_none / owner do not
     take part in the resolution.  dataclasses.replace keeps every other init field (annotated_type!), which is
     checked on the class definition.
  4. Textual check: the ValueSpec built for a dataclass field (pack: _get_field_packer, unpack: field block) gets
     type=ftype and FieldContext(name=fname, metadata=metadata) and no annotated_type.
"""
from __future__ import annotations

import ast
import importlib.util
import os

from py2gallina import HEADER, Kernel, Unsupported, coq_string, find_function, module_str_constant

NAME = "K5P"
REPO = os.environ.get("VERIF_REPO", "/repo")
HERE = os.path.dirname(os.path.abspath(__file__))


def _load(name):
    spec = importlib.util.spec_from_file_location("vk_dep_" + name, os.path.join(HERE, name + ".py"))
    m = importlib.util.module_from_spec(spec)
    spec.loader.exec_module(m)
    return m


SITE_ARGS = {"spec.type": "a_type", "spec.origin_type": "a_origin", "spec.builder.cls": "a_holder"}
IGNORED_COPY_KW = {"expression", "could_be_none", "owner"}


def _unpack_flags_kernel(bmod: ast.Module, k8) -> str:
    en = find_function(bmod, "CodeBuilder.is_code_generation_option_enabled")
    if ast.unparse(en) != k8.EXPECTED_ENABLED:
        raise Unsupported("is_code_generation_option_enabled changed")
    fn = find_function(bmod, "CodeBuilder.get_unpack_method_flags")
    if [a.arg for a in fn.args.args] != ["self", "cls", "pass_decoder"] or [ast.unparse(d) for d in fn.args.defaults] != ["None", "False"]:
        raise Unsupported("get_unpack_method_flags signature")
    stmts = []
    for s in fn.body:
        if (isinstance(s, ast.If) and not s.orelse and isinstance(s.test, ast.BoolOp) and isinstance(s.test.op, ast.And)
                and isinstance(s.test.values[0], ast.Name) and s.test.values[0].id == "pass_decoder"):
            continue
        for node in ast.walk(s):
            if isinstance(node, ast.Name) and node.id == "pass_decoder":
                raise Unsupported("pass_decoder used outside the skipped block")
            if isinstance(node, ast.Name) and node.id == "cls" and isinstance(node.ctx, ast.Store):
                raise Unsupported("cls rebound")
        stmts.append(s)
    newfn = ast.FunctionDef(name="get_unpack_method_flags", args=fn.args, body=stmts, decorator_list=[], lineno=1)
    ast.fix_missing_locations(newfn)
    cfg = ast.parse(open(os.path.join(REPO, "mashumaro/config.py")).read())
    consts = {c: module_str_constant(cfg, c) for c in k8.OPTION_CONSTS}
    k = Kernel(func="get_unpack_method_flags", coq_name="get_unpack_method_flags", params=["a_self", "a_other"])
    tr = k8.K8Translator(k, bmod)
    tr.consts = consts
    return tr.translate(newfn)


def _branch(fn: ast.FunctionDef, test_text: str) -> list:
    """body of the unique `if/elif <test_text>:` inside fn"""
    hits = [n for n in ast.walk(fn) if isinstance(n, ast.If) and ast.unparse(n.test) == test_text]
    if len(hits) != 1:
        raise Unsupported(f"{fn.name}: {len(hits)} branches `{test_text}`")
    return hits[0].body


def _site_cls(stmts, callee: str, must_use: str, what: str) -> str:
    calls = [n for s in stmts for n in ast.walk(s) if isinstance(n, ast.Call) and ast.unparse(n.func) == callee]
    if len(calls) != 1 or len(calls[0].args) != 1 or calls[0].keywords:
        raise Unsupported(f"{what}: {len(calls)} calls of {callee} / unexpected arguments")
    arg = ast.unparse(calls[0].args[0])
    if arg not in SITE_ARGS:
        raise Unsupported(f"{what}: {callee}({arg})")
    # the flags must reach the emitted call: a returned f-string mentions the variable holding them
    ok = False
    for s in stmts:
        for n in ast.walk(s):
            if isinstance(n, ast.Return) and isinstance(n.value, ast.JoinedStr):
                names = {x.id for x in ast.walk(n.value) if isinstance(x, ast.Name)}
                if must_use in names:
                    ok = True
    if not ok:
        raise Unsupported(f"{what}: no returned f-string uses `{must_use}`")
    return SITE_ARGS[arg]


def _copy_call(stmts, what: str) -> ast.Call:
    calls = [n for s in stmts for n in ast.walk(s) if isinstance(n, ast.Call) and ast.unparse(n.func) == "spec.copy"]
    if len(calls) != 1:
        raise Unsupported(f"{what}: {len(calls)} spec.copy calls")
    return calls[0]


def _descend(name: str, call: ast.Call, registry: str, stmts) -> str:
    if call.args:
        raise Unsupported(f"{name}: positional arguments to spec.copy")
    # the copied spec must be what the registry is re-entered with
    reentered = any(isinstance(n, ast.Call) and ast.unparse(n.func) == f"{registry}.get" and n.args and n.args[0] is call
                    for s in stmts for n in ast.walk(s))
    if not reentered:
        raise Unsupported(f"{name}: the copied spec is not passed to {registry}.get")
    sets = []
    seen_type = False
    for kw in call.keywords:
        if kw.arg == "type":
            seen_type = True
        elif kw.arg in IGNORED_COPY_KW:
            continue
        elif kw.arg == "field_ctx":
            if ast.unparse(kw.value) != "spec.field_ctx.copy(metadata={})":
                raise Unsupported(f"{name}: field_ctx={ast.unparse(kw.value)}")
            sets.append('(v_spec <- k_setattr v_spec (KStr "metadata") (KDict []) ;; ')
        elif kw.arg == "annotated_type":
            if ast.unparse(kw.value) != "None":
                raise Unsupported(f"{name}: annotated_type={ast.unparse(kw.value)}")
            sets.append('(v_spec <- k_setattr v_spec (KStr "annotated_type") KNone ;; ')
        else:
            raise Unsupported(f"{name}: spec.copy keyword {kw.arg}")
    if not seen_type:
        raise Unsupported(f"{name}: spec.copy without type=")
    body = ('(v_spec <- k_setattr v_spec (KStr "origin_type") (f_origin a_child) ;; '
            '(v_spec <- k_setattr v_spec (KStr "type") a_child ;; ' + "".join(sets) + "Ok v_spec" + ")" * (2 + len(sets)))
    return f"Definition {name} (f_origin: kv -> kv) (a_child: kv) (v_spec: kv) : res kv :=\n  {body}.\n"


def _descend_fn(name: str, fn: ast.FunctionDef, registry: str) -> str:
    """every spec.copy of fn that re-enters the registry (tuple items, NamedTuple fields, TypedDict keys: one site
    per shape of the container); all of them must translate to the same transformer"""
    calls = [n for n in ast.walk(fn) if isinstance(n, ast.Call) and ast.unparse(n.func) == "spec.copy"]
    if not calls:
        raise Unsupported(f"{name}: no spec.copy in {fn.name}")
    texts = {_descend(name, c, registry, fn.body) for c in calls}
    if len(texts) != 1:
        raise Unsupported(f"{name}: the {len(calls)} descent sites of {fn.name} differ")
    return texts.pop()


def _check_value_spec_class(cmod: ast.Module):
    cls = next((n for n in cmod.body if isinstance(n, ast.ClassDef) and n.name == "ValueSpec"), None)
    if cls is None:
        raise Unsupported("ValueSpec not found")
    fields = {}
    for n in cls.body:
        if isinstance(n, ast.AnnAssign) and isinstance(n.target, ast.Name):
            fields[n.target.id] = ast.unparse(n.value) if n.value is not None else None
    for f in ("type", "annotated_type", "field_ctx"):
        if f not in fields or (fields[f] or "").startswith("field(init=False"):
            raise Unsupported(f"ValueSpec.{f} is not an init field")
    if fields.get("origin_type") != "field(init=False)":
        raise Unsupported("ValueSpec.origin_type is not derived (init=False)")
    for cname in ("ValueSpec", "FieldContext"):
        cp = find_function(cmod, f"{cname}.copy")
        if ast.unparse(cp.body[-1]) != "return replace(self, **changes)":
            raise Unsupported(f"{cname}.copy is not dataclasses.replace")


def _check_field_spec(fn: ast.FunctionDef, what: str):
    calls = [n for n in ast.walk(fn) if isinstance(n, ast.Call) and ast.unparse(n.func) == "ValueSpec"
             and any(k.arg == "type" and ast.unparse(k.value) == "ftype" for k in n.keywords)]
    if len(calls) != 1:
        raise Unsupported(f"{what}: {len(calls)} ValueSpec(type=ftype, ...) constructions")
    kws = {k.arg: ast.unparse(k.value) for k in calls[0].keywords}
    if calls[0].args or "annotated_type" in kws:
        raise Unsupported(f"{what}: ValueSpec construction passes an annotated type")
    if kws.get("field_ctx") != "FieldContext(name=fname, metadata=metadata)":
        raise Unsupported(f"{what}: field_ctx={kws.get('field_ctx')}")


def gen() -> str:
    k8 = _load("k8_packflags")
    bsrc = os.path.join(REPO, "mashumaro/core/meta/code/builder.py")
    bmod = ast.parse(open(bsrc).read())
    pmod = ast.parse(open(os.path.join(REPO, "mashumaro/core/meta/types/pack.py")).read())
    umod = ast.parse(open(os.path.join(REPO, "mashumaro/core/meta/types/unpack.py")).read())
    cmod = ast.parse(open(os.path.join(REPO, "mashumaro/core/meta/types/common.py")).read())
    out = HEADER.format(src="builder.py (get_unpack_method_flags, field ValueSpec), pack.py / unpack.py (flag call sites, "
                            "spec.copy descent sites), common.py (ValueSpec)")
    out = out.replace("From Verif Require Import Regex PyK.", "From Verif Require Import Regex PyK PyK_c08 PyK_strat.")
    cfg = ast.parse(open(os.path.join(REPO, "mashumaro/config.py")).read())
    for c in k8.OPTION_CONSTS:
        out += f"Definition c_{c} : string := {coq_string(module_str_constant(cfg, c))}.\n"
    out += "\n" + _unpack_flags_kernel(bmod, k8) + "\n"

    # 2. call sites
    sites = {
        "site_cls_pack_dataclass": (find_function(pmod, "pack_dataclass").body, "spec.builder.get_pack_method_flags", "flags"),
        "site_cls_pack_self": (_branch(find_function(pmod, "pack_special_typing_primitive"), "is_self(spec.type)"),
                               "spec.builder.get_pack_method_flags", "flags"),
        "site_cls_unpack_dataclass": (find_function(umod, "unpack_dataclass").body, "spec.builder.get_unpack_method_flags", "method_args"),
        "site_cls_unpack_self": (_branch(find_function(umod, "unpack_special_typing_primitive"), "is_self(spec.type)"),
                                 "spec.builder.get_unpack_method_flags", "method_args"),
    }
    for nm, (stmts, callee, var) in sites.items():
        res = _site_cls(stmts, callee, var, nm)
        out += f"Definition {nm} (a_type a_origin a_holder: kv) : kv := {res}.\n"
    out += "\n"

    # 3. descent sites
    _check_value_spec_class(cmod)
    sa = find_function(cmod, "ValueSpec.__setattr__")
    k5 = _load("k5_strategies")
    if ast.unparse(sa) != k5.SETATTR_TEXT:
        raise Unsupported("ValueSpec.__setattr__ differs")
    for side, mod, reg in (("pack", pmod, "PackerRegistry"), ("unpack", umod, "UnpackerRegistry")):
        prim = find_function(mod, f"{side}_special_typing_primitive")
        nt = _branch(prim, "is_new_type(spec.type)")
        out += _descend(f"descend_{side}_newtype", _copy_call(nt, f"{side} newtype"), reg, nt)
        op = _branch(prim, "is_optional(spec.type, resolved_type_params)")
        out += _descend(f"descend_{side}_optional", _copy_call(op, f"{side} optional"), reg, op)
        coll = find_function(mod, f"{side}_collection")
        inner = next((n for n in coll.body if isinstance(n, ast.FunctionDef) and n.name == "inner_expr"), None)
        if inner is None:
            raise Unsupported(f"{side}_collection.inner_expr not found")
        # the branch taken for a type argument (v_type is None): the else of `if v_type:`
        top = [n for n in inner.body if isinstance(n, ast.If) and ast.unparse(n.test) == "v_type"]
        if len(top) != 1 or not top[0].orelse:
            raise Unsupported(f"{side}_collection.inner_expr shape")
        out += _descend(f"descend_{side}_element", _copy_call(top[0].orelse, f"{side} element"), reg, top[0].orelse)
        # a member of a Union: the loop over the union's arguments in pack_union / UnionUnpackerBuilder._add_body
        if side == "pack":
            ufn = find_function(mod, "pack_union")
            loops = [n for n in ufn.body if isinstance(n, ast.For) and ast.unparse(n.iter) == "args"]
        else:
            ucls = [n for n in mod.body if isinstance(n, ast.ClassDef) and n.name == "UnionUnpackerBuilder"]
            if len(ucls) != 1:
                raise Unsupported("UnionUnpackerBuilder not found")
            ufn = next((n for n in ucls[0].body if isinstance(n, ast.FunctionDef) and n.name == "_add_body"), None)
            if ufn is None:
                raise Unsupported("UnionUnpackerBuilder._add_body not found")
            loops = [n for n in ufn.body if isinstance(n, ast.For) and ast.unparse(n.iter) == "self.union_args"]
        if len(loops) != 1:
            raise Unsupported(f"{side} union: {len(loops)} loops over the union arguments")
        out += _descend(f"descend_{side}_member", _copy_call(loops[0].body, f"{side} union member"), reg, loops[0].body)
        # items of a tuple, fields of a NamedTuple, keys of a TypedDict
        out += _descend_fn(f"descend_{side}_tuple_item", find_function(mod, f"{side}_tuple"), reg)
        out += _descend_fn(f"descend_{side}_named_field", find_function(mod, f"{side}_named_tuple"), reg)
        out += _descend_fn(f"descend_{side}_typed_key", find_function(mod, f"{side}_typed_dict"), reg)
    out += "\n"

    # 4. fresh field specs
    _check_field_spec(find_function(bmod, "CodeBuilder._get_field_packer"), "_get_field_packer")
    fu = [n for n in ast.walk(bmod) if isinstance(n, ast.ClassDef) and n.name == "FieldUnpackerCodeBlockBuilder"]
    if len(fu) != 1:
        raise Unsupported("FieldUnpackerCodeBlockBuilder not found")
    bf = next((n for n in fu[0].body if isinstance(n, ast.FunctionDef) and n.name == "build"), None)
    if bf is None:
        raise Unsupported("FieldUnpackerCodeBlockBuilder.build not found")
    _check_field_spec(bf, "FieldUnpackerCodeBlockBuilder.build")
    out += "Definition field_spec_checked := tt.\n"
    return out
