"""Kernel K108c (property C08): the dict-literal form of the generated to_dict body -- the body of the loop

    kwargs_parts = []
    for fname, packer in packers.items():
        <BODY ... kwargs_parts.append((<key>, <value expression>))>

in the `else:` branch of the kwargs-vs-literal test (kernel K8) of CodeBuilder._add_pack_method_lines, translated on
every run as

    literal_part(a_serialize_by_alias, aliases, fname, packer) -> (key, value expression)

`kwargs_parts.append(X)` becomes "return X" (it must be the last statement of the body, the only store, appending a
pair); `serialize_by_alias` (the option read by get_dialect_or_config_option, kernels K3 / K13F) is the parameter
a_serialize_by_alias; `aliases` is the table the bookkeeping loop builds (kernel K18: aliases[fname] = alias iff alias
is not None).  Structure checked, fail closed: one such loop, directly after `kwargs_parts = []`, followed by exactly
the two statements that render the parts as `{k!r}: {v}` joined by ', ' inside braces."""
from __future__ import annotations

import ast
import os

from py2gallina import HEADER, FnTranslator, Kernel, Unsupported, coq_string, find_function

NAME = "K108c"
REPO = os.environ.get("VERIF_REPO", "/repo")

RENDER = ["kwargs = ', '.join((f'{k!r}: {v}' for k, v in kwargs_parts))", "kwargs = f'{{{kwargs}}}'"]


class PartTranslator(FnTranslator):
    def expr(self, e):
        if isinstance(e, ast.Tuple):
            pre, items = [], []
            for x in e.elts:
                p, a = self.expr(x)
                pre += p
                items.append(a)
            return pre, "(KTuple [" + "; ".join(items) + "])"
        if isinstance(e, ast.JoinedStr):
            pre, parts = [], []
            for v in e.values:
                if isinstance(v, ast.Constant) and isinstance(v.value, str):
                    parts.append(f"KStr {coq_string(v.value)}")
                elif isinstance(v, ast.FormattedValue) and v.conversion == -1 and v.format_spec is None:
                    p, a = self.expr(v.value)
                    pre += p
                    parts.append(a)
                else:
                    raise Unsupported("f-string piece")
            t = self.fresh()
            return pre + [(t, "k_fstr [" + "; ".join(parts) + "]")], t
        return super().expr(e)


def gen() -> str:
    src = os.path.join(REPO, "mashumaro/core/meta/code/builder.py")
    module = ast.parse(open(src).read())
    fn = find_function(module, "CodeBuilder._add_pack_method_lines")
    loops = [n for n in ast.walk(fn) if isinstance(n, ast.For) and ast.unparse(n.iter) == "packers.items()"
             and any(isinstance(x, ast.Name) and x.id == "kwargs_parts" for x in ast.walk(n))]
    if len(loops) != 1 or loops[0].orelse or ast.unparse(loops[0].target) != "(fname, packer)":
        raise Unsupported(f"dict-literal loop: {len(loops)} candidates")
    loop = loops[0]
    parent = [n for n in ast.walk(fn) if isinstance(n, ast.If) and loop in n.orelse]
    if len(parent) != 1:
        raise Unsupported("dict-literal loop: not in the else branch of one test")
    blk = parent[0].orelse
    if len(blk) != 4 or ast.unparse(blk[0]) != "kwargs_parts = []" or blk[1] is not loop \
            or [ast.unparse(x) for x in blk[2:]] != RENDER:
        raise Unsupported("dict-literal loop: unexpected surroundings / rendering of the parts")
    if not any(isinstance(x, ast.Call) and ast.unparse(x.func) == "self._pack_method_set_value" for s in parent[0].body for x in ast.walk(s)):
        raise Unsupported("dict-literal loop: the other branch is not the kwargs form")
    uses = [n for n in ast.walk(fn) if isinstance(n, ast.Name) and n.id == "kwargs_parts"]
    if len(uses) != 3:         # binding, append, rendering
        raise Unsupported(f"dict-literal loop: {len(uses)} occurrences of kwargs_parts")
    last = loop.body[-1]
    if not (isinstance(last, ast.Expr) and isinstance(last.value, ast.Call) and ast.unparse(last.value.func) == "kwargs_parts.append"
            and len(last.value.args) == 1 and not last.value.keywords and isinstance(last.value.args[0], ast.Tuple)
            and len(last.value.args[0].elts) == 2):
        raise Unsupported("dict-literal loop: the body does not end in kwargs_parts.append((key, value))")
    for s in loop.body[:-1]:
        for n in ast.walk(s):
            if isinstance(n, (ast.For, ast.While, ast.Break, ast.Continue, ast.Return, ast.Call)) and not (
                    isinstance(n, ast.Call) and ast.unparse(n.func) == "aliases.get"):
                raise Unsupported(f"dict-literal loop: {type(n).__name__} in the body: {ast.unparse(n)[:60]}")
    body = list(loop.body[:-1]) + [ast.Return(value=last.value.args[0])]
    newfn = ast.FunctionDef(name="literal_part", args=ast.arguments(posonlyargs=[], args=[], kwonlyargs=[], kw_defaults=[], defaults=[]),
                            body=body, decorator_list=[], lineno=1)
    ast.fix_missing_locations(newfn)
    k = Kernel(func="literal_part", coq_name="literal_part", params=["a_serialize_by_alias", "v_aliases", "v_fname", "v_packer"],
               abstr={"serialize_by_alias": "a_serialize_by_alias"})
    tr = PartTranslator(k, module)
    tr.locals.update(["aliases", "fname", "packer"])
    # a name bound by a plain assignment in BOTH branches of a top-level `if` is defined after it (py2gallina's join asks
    # for an earlier binding; the joined term never reads one)
    for s in body:
        if isinstance(s, ast.If) and s.orelse:
            def direct(stmts):
                return {t.id for x in stmts if isinstance(x, ast.Assign) for t in x.targets if isinstance(t, ast.Name)}
            if all(isinstance(x, ast.Assign) for x in s.body + s.orelse):
                tr.locals.update(direct(s.body) & direct(s.orelse))
    text = HEADER.format(src="mashumaro/core/meta/code/builder.py (_add_pack_method_lines: one part of the dict literal)")
    text = text.replace("From Verif Require Import Regex PyK.", "From Verif Require Import Regex PyK PyK_c08.")
    return text + tr.translate(newfn)
