"""Kernel K18 (property C08): the bookkeeping loop of CodeBuilder._add_pack_method_lines that decides,
per field, membership in packers / aliases / nullable_fields / nontrivial_nullable_fields -- the sets the
kwargs-vs-literal test (K8) and the per-field branch shape are computed from.

Translated on every run: the BODY of `for fname, ftype in fnames_and_types:` as a state transformer

    pack_field_step(serialize_meta, fname, packer, alias, could_be_none,
                    packers, aliases, nullable_fields, nontrivial_nullable_fields)
        -> (packers, aliases, nullable_fields, nontrivial_nullable_fields)

`continue` becomes "return the state unchanged"; the statement
`packer, alias, could_be_none = self._get_field_packer(fname, ftype, config, force_value)` is the only
abstraction (its three results are parameters; could_be_none is is_field_nullable, kernel K17);
`self.metadatas.get(fname, {}).get('serialize')` is the parameter serialize_meta.  Fail closed otherwise."""
from __future__ import annotations

import ast
import os

from py2gallina import HEADER, FnTranslator, Kernel, Unsupported, find_function

NAME = "K18"
REPO = os.environ.get("VERIF_REPO", "/repo")

STATE = ["packers", "aliases", "nullable_fields", "nontrivial_nullable_fields"]
EXPECTED_UNPACK = "packer, alias, could_be_none = self._get_field_packer(fname, ftype, config, force_value)"
EXPECTED_PACKER_RETURN = "return (packer, alias, could_be_none)"


class K18Translator(FnTranslator):
    @staticmethod
    def _store(s):
        """(kind, local name) for `<local>[k] = v` and `<local>.add(x)`"""
        if isinstance(s, ast.Assign) and len(s.targets) == 1 and isinstance(s.targets[0], ast.Subscript) \
                and isinstance(s.targets[0].value, ast.Name):
            return "setitem", s.targets[0].value.id
        if isinstance(s, ast.Expr) and isinstance(s.value, ast.Call) and isinstance(s.value.func, ast.Attribute) \
                and s.value.func.attr == "add" and isinstance(s.value.func.value, ast.Name) \
                and len(s.value.args) == 1 and not s.value.keywords:
            return "add", s.value.func.value.id
        return None, None

    def assigned(self, stmts):
        out = [n for n in super().assigned(stmts)]
        for s in stmts:
            for node in ast.walk(s):
                kind, n = self._store(node)
                if kind and n not in out:
                    out.append(n)
        return out

    def block(self, stmts, k):
        if stmts:
            s = stmts[0]
            kind, n = self._store(s)
            if kind:
                if n not in self.locals:
                    raise Unsupported(f"store into unknown name {n}")
                if kind == "setitem":
                    pk, key = self.expr(s.targets[0].slice)
                    pv, val = self.expr(s.value)
                    return self.wrap(pk + pv + [(f"v_{n}", f"k_dict_set v_{n} {key} {val}")], self.block(stmts[1:], k))
                pv, val = self.expr(s.value.args[0])
                return self.wrap(pv + [(f"v_{n}", f"k_set_add v_{n} {val}")], self.block(stmts[1:], k))
        return super().block(stmts, k)

    def expr(self, e):
        if isinstance(e, ast.Tuple):
            pre, items = [], []
            for x in e.elts:
                p, a = self.expr(x)
                pre += p
                items.append(a)
            return pre, "(KTuple [" + "; ".join(items) + "])"
        return super().expr(e)


def gen() -> str:
    src = os.path.join(REPO, "mashumaro/core/meta/code/builder.py")
    module = ast.parse(open(src).read())
    fn = find_function(module, "CodeBuilder._add_pack_method_lines")
    loops = [n for n in ast.walk(fn) if isinstance(n, ast.For)
             and any(isinstance(x, ast.Attribute) and x.attr == "add" and isinstance(x.value, ast.Name)
                     and x.value.id == "nullable_fields" for x in ast.walk(n))]
    if len(loops) != 1:
        raise Unsupported(f"bookkeeping loop: {len(loops)} candidates")
    loop = loops[0]
    if ast.unparse(loop.target) != "(fname, ftype)" or ast.unparse(loop.iter) != "fnames_and_types" or loop.orelse:
        raise Unsupported("bookkeeping loop header")
    # _get_field_packer must return exactly (packer, alias, could_be_none) with could_be_none = is_field_nullable
    gp = find_function(module, "CodeBuilder._get_field_packer")
    if ast.unparse(gp.body[-1]) != EXPECTED_PACKER_RETURN:
        raise Unsupported("_get_field_packer return")
    cbn = [s for s in gp.body if isinstance(s, ast.Assign) and ast.unparse(s.targets[0]) == "could_be_none"]
    if len(cbn) != 1 or ast.unparse(cbn[0].value) != "self.is_field_nullable(fname, ftype)":
        raise Unsupported("_get_field_packer: could_be_none is not is_field_nullable(fname, ftype)")
    ret = ast.Return(value=ast.Tuple(elts=[ast.Name(id=n, ctx=ast.Load()) for n in STATE], ctx=ast.Load()))
    seen_unpack = False

    def rewrite(stmts):
        nonlocal seen_unpack
        out = []
        for s in stmts:
            if isinstance(s, ast.Continue):
                out.append(ret)
            elif isinstance(s, ast.If):
                out.append(ast.If(test=s.test, body=rewrite(s.body), orelse=rewrite(s.orelse)))
            elif ast.unparse(s) == EXPECTED_UNPACK:
                seen_unpack = True
            elif isinstance(s, (ast.For, ast.While, ast.Break, ast.Return)):
                raise Unsupported(f"statement in the bookkeeping loop: {type(s).__name__}")
            else:
                out.append(s)
        return out

    body = rewrite(loop.body) + [ret]
    if not seen_unpack:
        raise Unsupported("the loop does not unpack _get_field_packer(...)")
    newfn = ast.FunctionDef(name="pack_field_step", args=ast.arguments(posonlyargs=[], args=[], kwonlyargs=[], kw_defaults=[], defaults=[]),
                            body=body, decorator_list=[], lineno=1)
    ast.fix_missing_locations(newfn)
    params = ["a_serialize", "v_fname", "v_packer", "v_alias", "v_could_be_none"] + [f"v_{n}" for n in STATE]
    k = Kernel(func="pack_field_step", coq_name="pack_field_step", params=params,
               abstr={"self.metadatas.get(fname, {}).get('serialize')": "a_serialize"})
    tr = K18Translator(k, module)
    for p in params:
        if p.startswith("v_"):
            tr.locals.add(p[2:])
    text = HEADER.format(src="mashumaro/core/meta/code/builder.py (_add_pack_method_lines: per-field bookkeeping)")
    text = text.replace("From Verif Require Import Regex PyK.", "From Verif Require Import Regex PyK PyK_c08.")
    return text + tr.translate(newfn)
