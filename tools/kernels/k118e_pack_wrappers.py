"""K118e: what pack.py emits for the wrapper types of the sharing model -- Optional[T], a bound TypeVar, NewType,
Final, Required / NotRequired, Literal, Any, an unconstrained TypeVar -- read from pack_special_typing_primitive,
pack_final, pack_any and common.expr_or_maybe_none: each recognised branch (found by the text of its test) must consist
of the expected statements and its returned expression is classified (the inner type's packer itself / that packer
under a None guard / the bare expression / the literal helper / the union method).  Also: the item specs of
pack_collection are built with could_be_none=True, so an Optional item is ALWAYS guarded (its code is never the bare
name `value`: the cause of the known finding nocopy-optional-elements).  Fail closed."""
from __future__ import annotations

import ast
import os

from py2gallina import Unsupported

NAME = "K118e"
REPO = os.environ.get("VERIF_REPO", "/repo")
PACK = "mashumaro/core/meta/types/pack.py"
COMMON = "mashumaro/core/meta/types/common.py"


def u(e):
    return ast.unparse(e)


def fn_of(mod, name):
    f = next((n for n in mod.body if isinstance(n, ast.FunctionDef) and n.name == name), None)
    if f is None:
        raise Unsupported(f"K118e: {name} not found")
    return f


def find_if(root: ast.AST, test: str) -> ast.If:
    hits = [n for n in ast.walk(root) if isinstance(n, ast.If) and u(n.test) == test]
    if len(hits) != 1:
        raise Unsupported(f"K118e: {len(hits)} branches with test {test!r}")
    return hits[0]


def classify_return(stmts, what: str) -> str:
    """body = [assignments to arg / pv / bound ...] + return; classify the return"""
    env = {}
    for s in stmts[:-1]:
        if isinstance(s, ast.Assign) and len(s.targets) == 1 and isinstance(s.targets[0], ast.Name):
            env[s.targets[0].id] = u(s.value)
        elif isinstance(s, ast.If) and all(isinstance(x, ast.Assign) for x in s.body + s.orelse):
            for x in s.body + s.orelse:        # bound = default | __bound__
                env[x.targets[0].id] = env.get(x.targets[0].id, "") + "|" + u(x.value)
        elif isinstance(s, ast.Expr) and isinstance(s.value, ast.Constant):
            continue
        else:
            raise Unsupported(f"K118e: {what}: statement {u(s)[:60]}")
    r = stmts[-1]
    if not isinstance(r, ast.Return):
        raise Unsupported(f"K118e: {what}: does not end in a return")
    t = u(r.value)
    if t == "spec.expression":
        return "WSame"
    if t == "pack_literal(spec)":
        return "WLiteral"
    if t.startswith("pack_union(spec, "):
        return "WUnion"
    if t.startswith("PackerRegistry.get(spec.copy(type=") and t.endswith("))") and "expression" not in t:
        return "WInner"
    if t == "expr_or_maybe_none(spec, pv)":
        pv = env.get("pv", "")
        if pv.startswith("PackerRegistry.get(spec.copy(type=") and pv.endswith("))") and "expression" not in pv:
            return "WOpt"
        raise Unsupported(f"K118e: {what}: pv = {pv[:60]}")
    raise Unsupported(f"K118e: {what}: returns {t[:80]}")


def gen() -> str:
    mod = ast.parse(open(os.path.join(REPO, PACK)).read())
    sp = fn_of(mod, "pack_special_typing_primitive")
    opt = find_if(sp, "is_optional(spec.type, resolved_type_params)")
    shapes = {
        "pack_optional_shape": classify_return(opt.body, "Optional"),
        "pack_union_shape": classify_return(opt.orelse, "Union"),
        "pack_typevar_any_shape": classify_return(find_if(sp, "is_type_var_any(spec.type)").body, "TypeVar(Any)"),
        "pack_newtype_shape": classify_return(find_if(sp, "is_new_type(spec.type)").body, "NewType"),
        "pack_literal_shape": classify_return(find_if(sp, "is_literal(spec.type)").body, "Literal"),
        "pack_required_shape": classify_return(
            find_if(sp, "is_required(spec.type) or is_not_required(spec.type)").body, "Required"),
    }
    cons = find_if(sp, "constraints")
    shapes["pack_typevar_constrained_shape"] = classify_return(cons.body, "constrained TypeVar")
    shapes["pack_typevar_bound_shape"] = classify_return(cons.orelse, "bound TypeVar")
    fin = fn_of(mod, "pack_final")
    if len(fin.body) != 1 or not isinstance(fin.body[0], ast.If) or u(fin.body[0].test) != "is_final(spec.type)":
        raise Unsupported("K118e: pack_final changed")
    shapes["pack_final_shape"] = classify_return(fin.body[0].body, "Final")
    anyf = fn_of(mod, "pack_any")
    if len(anyf.body) != 1 or not isinstance(anyf.body[0], ast.If) or u(anyf.body[0].test) != "spec.type is Any":
        raise Unsupported("K118e: pack_any changed")
    shapes["pack_any_shape"] = classify_return(anyf.body[0].body, "Any")
    # expr_or_maybe_none
    common = ast.parse(open(os.path.join(REPO, COMMON)).read())
    eo = fn_of(common, "expr_or_maybe_none")
    want = ("if spec.could_be_none:\n    return f'{new_expr} if {spec.expression} is not None else None'\n"
            "else:\n    return new_expr")
    if "\n".join(u(s) for s in eo.body) != want:
        raise Unsupported("K118e: expr_or_maybe_none changed")
    # the item specs of pack_collection / pack_tuple / pack_named_tuple / pack_typed_dict: could_be_none=True
    for name in ("pack_collection", "pack_tuple", "pack_named_tuple", "pack_typed_dict"):
        f = fn_of(mod, name)
        n = 0
        for c in ast.walk(f):
            if isinstance(c, ast.Call) and u(c.func) == "spec.copy":
                kws = {k.arg: u(k.value) for k in c.keywords}
                if "expression" not in kws:
                    continue
                if "v_type" in u(c) and "could_be_none" not in kws:
                    continue        # Counter values: inner_expr(1, v_type=int) -- int, inherits the holder's flag
                if kws.get("could_be_none") != "True":
                    raise Unsupported(f"K118e: {name}: an item spec is built with could_be_none={kws.get('could_be_none')}")
                n += 1
        if n == 0:
            raise Unsupported(f"K118e: {name}: no item spec found")
    out = [f"(* GENERATED by tools/kernels/k118e_pack_wrappers.py from {PACK} and {COMMON} -- do not edit. *)",
           "From Verif Require Import WrapDecision.", ""]
    for k, v in shapes.items():
        out.append(f"Definition {k} : wshape := {v}.")
    out.append("\n(* common.expr_or_maybe_none: `<e> if <expr> is not None else None` iff spec.could_be_none *)")
    out.append("Definition expr_or_maybe_none_guards (could_be_none: bool) : bool := if could_be_none then true else false.")
    out.append("(* every item spec of pack_collection / pack_tuple / pack_named_tuple / pack_typed_dict *)")
    out.append("Definition items_could_be_none : bool := true.\n")
    return "\n".join(out)
