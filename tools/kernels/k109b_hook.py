"""Kernel K109b (property C09): which `__pre_deserialize__` the generated from_dict calls --
CodeBuilder.get_declared_hook (builder.py) and helpers.get_class_that_defines_method, translated whole from
/repo on every run.

    def get_class_that_defines_method(method_name, cls):
        for cls in cls.__mro__:
            if method_name in cls.__dict__:
                return cls
        return None

    def get_declared_hook(self, method_name):
        cls = get_class_that_defines_method(method_name, self.cls)
        if cls is not None and not is_dataclass_dict_mixin(cls):
            return cls.__dict__[method_name]

On top of the subset of K109a (search loops, class objects): `x in d` / `d[x]` on a class `__dict__`, `<local>.__mro__`,
a loop variable that re-binds a parameter which is dead after the loop, the call of the other translated function,
and `is_dataclass_dict_mixin(cls)` as the primitive k_is_mixin (helpers.is_dataclass_dict_mixin is pattern-checked:
`type_name(typ) == DataClassDictMixinPath`).  The use site is pattern-checked too: `_add_unpack_method_lines` emits
`d = cls.__pre_deserialize__(d)` iff `self.get_declared_hook(__PRE_DESERIALIZE__)` is truthy, before any key is read.
"""
from __future__ import annotations

import ast
import importlib.util
import os
import sys

sys.path.insert(0, os.path.dirname(os.path.dirname(os.path.abspath(__file__))))
from py2gallina import HEADER, Kernel, Unsupported, find_function, translate_kernel

_spec = importlib.util.spec_from_file_location("vk_k109a_discr_for_k109b", os.path.join(os.path.dirname(os.path.abspath(__file__)), "k109a_discr.py"))
_k109a = importlib.util.module_from_spec(_spec)
_spec.loader.exec_module(_k109a)

NAME = "K109b"
REPO = os.environ.get("VERIF_REPO", "/repo")
BUILDER_REL = "mashumaro/core/meta/code/builder.py"
HELPERS_REL = "mashumaro/core/meta/helpers.py"


class HookTranslator(_k109a.DiscrTranslator):
    allow_rebind = True           # `for cls in cls.__mro__`

    def expr(self, e):
        key = ast.unparse(e)
        if key in self.k.abstr:
            return [], self.k.abstr[key]
        if isinstance(e, ast.Attribute) and e.attr == "__mro__" and isinstance(e.value, ast.Name) and e.value.id in self.locals:
            return [], f"(k_mro_classes v_{e.value.id})"
        if isinstance(e, ast.Compare) and len(e.ops) == 1 and isinstance(e.ops[0], ast.In):
            pl, a = self.expr(e.left)
            pr, b = self.expr(e.comparators[0])
            t = self.fresh()
            return pl + pr + [(t, f"k_contains {b} {a}")], t
        if isinstance(e, ast.Subscript) and not isinstance(e.slice, (ast.Constant, ast.Slice, ast.Tuple)):
            pv, v = self.expr(e.value)
            pi, i = self.expr(e.slice)
            t = self.fresh()
            return pv + pi + [(t, f"k_dict_index {v} {i}")], t
        return super().expr(e)

    def call(self, e):
        f = ast.unparse(e.func)
        if f == "get_class_that_defines_method" and len(e.args) == 2 and not e.keywords:
            p1, a = self.expr(e.args[0]); p2, b = self.expr(e.args[1])
            t = self.fresh()
            return p1 + p2 + [(t, f"get_class_that_defines_method {a} {b}")], t
        if f == "is_dataclass_dict_mixin" and len(e.args) == 1 and not e.keywords:
            p, a = self.expr(e.args[0])
            return p, f"(KBool (k_is_mixin {a}))"
        return super().call(e)


def check_helpers(hmod, bmod):
    fn = find_function(hmod, "is_dataclass_dict_mixin")
    if ast.unparse(fn.body[-1]) != "return type_name(typ) == DataClassDictMixinPath" or len(fn.body) != 1:
        raise Unsupported("helpers.is_dataclass_dict_mixin changed")
    ok = False
    for n in bmod.body:
        if isinstance(n, ast.ImportFrom) and n.module == "mashumaro.core.meta.helpers":
            names = {a.name for a in n.names if a.asname in (None, a.name)}
            ok = {"get_class_that_defines_method", "is_dataclass_dict_mixin"} <= names
    if not ok:
        raise Unsupported("builder.py does not import get_class_that_defines_method / is_dataclass_dict_mixin from helpers")
    fn = find_function(bmod, "CodeBuilder._add_unpack_method_lines")
    txt = ast.unparse(fn)
    need = [
        "pre_deserialize = self.get_declared_hook(__PRE_DESERIALIZE__)",
        "if pre_deserialize:",
        "self.add_line(f'd = cls.{__PRE_DESERIALIZE__}(d)')",
        "filtered_fields = []",
        "with self.indent('try:'):",
    ]
    pos = -1
    for t in need:
        p = txt.find(t, pos + 1)
        if p < 0:
            raise Unsupported(f"use of the pre-deserialize hook in _add_unpack_method_lines changed (expected, in order): {t}")
        pos = p
    if txt.count("__PRE_DESERIALIZE__") != 3:
        raise Unsupported("__PRE_DESERIALIZE__ is used a different number of times in _add_unpack_method_lines")


def gen() -> str:
    bsrc = os.path.join(REPO, BUILDER_REL)
    hsrc = os.path.join(REPO, HELPERS_REL)
    bmod = ast.parse(open(bsrc).read())
    hmod = ast.parse(open(hsrc).read())
    check_helpers(hmod, bmod)
    f1 = find_function(hmod, "get_class_that_defines_method")
    if [a.arg for a in f1.args.args] != ["method_name", "cls"] or f1.args.defaults:
        raise Unsupported("signature of get_class_that_defines_method changed")
    f2 = find_function(bmod, "CodeBuilder.get_declared_hook")
    if [a.arg for a in f2.args.args] != ["self", "method_name"] or f2.args.defaults or f2.decorator_list:
        raise Unsupported("signature of get_declared_hook changed")
    text = HEADER.format(src=HELPERS_REL + " (get_class_that_defines_method), " + BUILDER_REL + " (CodeBuilder.get_declared_hook)")
    text += "From Verif Require Import PyK_alias PyK_clsdiscr.\n\n"
    k1 = Kernel(func="get_class_that_defines_method", coq_name="get_class_that_defines_method",
                params=["v_method_name", "v_cls"], abstr={})
    text += translate_kernel(hsrc, k1, hmod, translator=HookTranslator) + "\n"
    k2 = Kernel(func="CodeBuilder.get_declared_hook", coq_name="get_declared_hook",
                params=["a_self_cls", "v_method_name"], abstr={"self.cls": "a_self_cls"})
    text += translate_kernel(bsrc, k2, bmod, translator=HookTranslator)
    return text


if __name__ == "__main__":
    print(gen())
