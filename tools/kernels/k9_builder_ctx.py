"""Kernel K9 (property C20): the context handling of mashumaro.jsonschema, translated from
/repo on every run into coq/gen/K9.v:

  build_ctx     <- builder.build_json_schema        (slice: from the top to the statement before
                   `instance = Instance(instance_type)`, returning `context`)
  attach_defs   <- builder.build_json_schema        (slice: the trailing
                   `if with_definitions and context.definitions: schema.definitions = ...`, returning schema)
  builder_init  <- builder.JSONSchemaBuilder.__init__  (whole body, returning self.context)
  ref_of        <- schema.on_dataclass              (slice: inside `if ctx.all_refs:` the computation of
                   ref_prefix and the f-string of the emitted reference)
  reg_key       <- schema.on_dataclass              (the key expression of `ctx.definitions[<key>] = schema`)
  constants     <- dialects.py (DRAFT_2020_12, OPEN_API_3_1 field defaults), models.Context field
                   defaults, the parameter defaults of build_json_schema / JSONSchemaBuilder.__init__

Slices are structure checked (the statements skipped must have exactly the expected shape),
everything else is translated; any other shape raises Unsupported (stub, proofs fail closed).
"""
from __future__ import annotations

import ast
import os
import sys

HERE = os.path.dirname(os.path.abspath(__file__))
sys.path.insert(0, os.path.dirname(HERE))
from py2gallina import (HEADER, FnTranslator, Kernel, Unsupported, coq_string, find_function)  # noqa: E402

NAME = "K9"
REPO = os.environ.get("VERIF_REPO", "/repo")

CTX_FIELDS = ["dialect", "definitions", "all_refs", "ref_prefix", "plugins"]


class T9(FnTranslator):
    """FnTranslator + attribute reads of translatable objects, Context(...) construction,
    str.rstrip("/"), f-strings, empty tuple/dict literals."""

    ctx_defaults: dict = {}

    def expr(self, e):
        key = ast.unparse(e)
        if key in self.k.abstr:
            return [], self.k.abstr[key]
        if isinstance(e, ast.Attribute):
            pre, a = self.expr(e.value)
            t = self.fresh()
            return pre + [(t, f"k_getattr2 {a} (KStr {coq_string(e.attr)})")], t
        if isinstance(e, ast.Tuple) and not e.elts:
            return [], "(KTuple [])"
        if isinstance(e, ast.JoinedStr):
            pre, atoms = [], []
            for v in e.values:
                if isinstance(v, ast.Constant) and isinstance(v.value, str):
                    atoms.append(f"(KStr {coq_string(v.value)})")
                elif isinstance(v, ast.FormattedValue) and v.conversion == -1 and v.format_spec is None:
                    p, a = self.expr(v.value)
                    pre += p
                    atoms.append(a)
                else:
                    raise Unsupported(f"f-string part {ast.unparse(v)}")
            t = self.fresh()
            return pre + [(t, "k_fstr [" + "; ".join(atoms) + "]")], t
        if isinstance(e, ast.Call):
            f = ast.unparse(e.func)
            if f == "Context":
                if e.args:
                    raise Unsupported("positional arguments of Context(...)")
                kws = {k.arg: k.value for k in e.keywords}
                if None in kws or set(kws) - set(CTX_FIELDS):
                    raise Unsupported(f"Context keywords {sorted(map(str, kws))}")
                pre, items = [], []
                for fld in CTX_FIELDS:
                    if fld in kws:
                        p, a = self.expr(kws[fld])
                        pre += p
                    else:
                        a = self.ctx_defaults[fld]
                    items.append(f"({coq_string(fld)}, {a})")
                return pre, "(KNs [" + "; ".join(items) + "])"
            if isinstance(e.func, ast.Attribute) and e.func.attr == "rstrip":
                if len(e.args) != 1 or e.keywords or not (isinstance(e.args[0], ast.Constant) and e.args[0].value == "/"):
                    raise Unsupported(f"rstrip arguments: {key}")
                pre, a = self.expr(e.func.value)
                t = self.fresh()
                return pre + [(t, f"k_rstrip_slash {a}")], t
        return super().expr(e)


def const_default(node, abstr) -> str:
    key = ast.unparse(node)
    if key in abstr:
        return abstr[key]
    if isinstance(node, ast.Constant):
        v = node.value
        if v is None:
            return "KNone"
        if v is True or v is False:
            return f"(KBool {'true' if v else 'false'})"
        if isinstance(v, str):
            return f"(KStr {coq_string(v)})"
    if isinstance(node, ast.Tuple) and not node.elts:
        return "(KTuple [])"
    if key == "field(default_factory=dict)":
        return "(KDict [])"
    raise Unsupported(f"default value {key}")


def class_field_defaults(module: ast.Module, cls: str) -> dict:
    for n in module.body:
        if isinstance(n, ast.ClassDef) and n.name == cls:
            out = {}
            for s in n.body:
                if isinstance(s, ast.AnnAssign) and isinstance(s.target, ast.Name):
                    out[s.target.id] = s.value
                elif isinstance(s, (ast.Expr, ast.Pass)):
                    continue
                else:
                    raise Unsupported(f"{cls}: statement {ast.unparse(s)[:40]}")
            return out
    raise Unsupported(f"class {cls} not found")


def dialect_const(module: ast.Module, const: str) -> str:
    cls = None
    for n in module.body:
        if isinstance(n, ast.Assign) and ast.unparse(n.targets[0]) == const:
            if not (isinstance(n.value, ast.Call) and not n.value.args and not n.value.keywords and isinstance(n.value.func, ast.Name)):
                raise Unsupported(f"{const} is not Class()")
            cls = n.value.func.id
    if cls is None:
        raise Unsupported(f"{const} not found")
    fields = class_field_defaults(module, cls)
    if list(fields) != ["uri", "definitions_root_pointer", "all_refs"] or any(v is None for v in fields.values()):
        raise Unsupported(f"{cls}: fields {list(fields)}")
    items = [f"({coq_string(k)}, {const_default(v, {})})" for k, v in fields.items()]
    return "KNs [" + "; ".join(items) + "]"


def param_defaults(fn: ast.FunctionDef, abstr) -> list[tuple[str, str]]:
    args = fn.args
    if args.vararg or args.kwarg or args.kwonlyargs or args.posonlyargs:
        raise Unsupported("signature shape")
    names = [a.arg for a in args.args]
    defaults = [None] * (len(names) - len(args.defaults)) + list(args.defaults)
    out = []
    for n, d in zip(names, defaults):
        if d is not None:
            out.append((n, const_default(d, abstr)))
    return out


def fn_text(tr: T9, name: str, params: list[str], stmts) -> str:
    for p in params:
        tr.locals.add(p)
    body = tr.block(tr.unroll(stmts), None)
    ps = " ".join(f"(v_{p}: kv)" for p in params)
    return f"Definition {name} {ps} : res kv :=\n  {body}.\n\n"


def gen() -> str:
    bsrc = os.path.join(REPO, "mashumaro/jsonschema/builder.py")
    ssrc = os.path.join(REPO, "mashumaro/jsonschema/schema.py")
    msrc = os.path.join(REPO, "mashumaro/jsonschema/models.py")
    dsrc = os.path.join(REPO, "mashumaro/jsonschema/dialects.py")
    bmod = ast.parse(open(bsrc).read())
    smod = ast.parse(open(ssrc).read())
    mmod = ast.parse(open(msrc).read())
    dmod = ast.parse(open(dsrc).read())

    abstr = {"DRAFT_2020_12": "DRAFT_2020_12", "OPEN_API_3_1": "OPEN_API_3_1"}
    text = HEADER.format(src="mashumaro/jsonschema/{builder,schema,models,dialects}.py (context handling)")
    text = text.replace("From Verif Require Import Regex PyK.", "From Verif Require Import Regex PyK PyK_schema.")
    text += f"Definition DRAFT_2020_12 : kv :=\n  {dialect_const(dmod, 'DRAFT_2020_12')}.\n"
    text += f"Definition OPEN_API_3_1 : kv :=\n  {dialect_const(dmod, 'OPEN_API_3_1')}.\n\n"

    # models.Context field defaults
    cdefs = class_field_defaults(mmod, "Context")
    if list(cdefs) != CTX_FIELDS:
        raise Unsupported(f"Context fields {list(cdefs)}")
    ctx_defaults = {k: const_default(v, abstr) for k, v in cdefs.items()}

    def mk(kernel_name):
        k = Kernel(func=kernel_name, coq_name=kernel_name, params=[], abstr=dict(abstr))
        tr = T9(k, bmod)
        tr.ctx_defaults = ctx_defaults
        return tr

    # ---- build_json_schema
    fn = find_function(bmod, "build_json_schema")
    names = [a.arg for a in fn.args.args]
    if names != ["instance_type", "context", "with_definitions", "all_refs", "with_dialect_uri", "dialect", "ref_prefix", "plugins"]:
        raise Unsupported(f"build_json_schema parameters {names}")
    body = [s for s in fn.body if not (isinstance(s, ast.Expr) and isinstance(s.value, ast.Constant))]
    idx = None
    for i, s in enumerate(body):
        if ast.unparse(s) == "instance = Instance(instance_type)":
            idx = i
    if idx is None:
        raise Unsupported("build_json_schema: `instance = Instance(instance_type)` not found")
    head, tail = body[:idx], body[idx + 1:]
    # the rest must be: schema = get_schema(instance, context, with_dialect_uri=...); if ...: schema.definitions = ...; return schema
    if len(tail) != 3 or ast.unparse(tail[0]) != "schema = get_schema(instance, context, with_dialect_uri=with_dialect_uri)" \
            or not isinstance(tail[1], ast.If) or ast.unparse(tail[2]) != "return schema":
        raise Unsupported("build_json_schema: unexpected tail " + " | ".join(ast.unparse(s)[:50] for s in tail))
    for s in head:
        for n in ast.walk(s):
            if isinstance(n, ast.Name) and n.id in ("instance_type", "with_dialect_uri", "schema", "instance"):
                raise Unsupported(f"context part uses {n.id}")
    ret_ctx = ast.Return(value=ast.Name(id="context", ctx=ast.Load()))
    text += fn_text(mk("build_ctx"), "build_ctx", ["context", "with_definitions", "all_refs", "dialect", "ref_prefix", "plugins"], head + [ret_ctx])
    text += fn_text(mk("attach_defs"), "attach_defs", ["with_definitions", "context", "schema"], [tail[1], tail[2]])
    pd = param_defaults(fn, abstr)
    text += "Definition build_json_schema_defaults : list (string * kv) :=\n  [" + "; ".join(f"({coq_string(n)}, {d})" for n, d in pd) + "].\n\n"

    # ---- JSONSchemaBuilder.__init__ and build
    fi = find_function(bmod, "JSONSchemaBuilder.__init__")
    inames = [a.arg for a in fi.args.args]
    if inames != ["self", "dialect", "all_refs", "ref_prefix", "plugins"]:
        raise Unsupported(f"JSONSchemaBuilder.__init__ parameters {inames}")
    ret_self = ast.Return(value=ast.Attribute(value=ast.Name(id="self", ctx=ast.Load()), attr="context", ctx=ast.Load()))
    text += fn_text(mk("builder_init"), "builder_init", ["self", "dialect", "all_refs", "ref_prefix", "plugins"], list(fi.body) + [ret_self])
    pdi = param_defaults(fi, abstr)
    text += "Definition builder_init_defaults : list (string * kv) :=\n  [" + "; ".join(f"({coq_string(n)}, {d})" for n, d in pdi) + "].\n\n"
    fb = find_function(bmod, "JSONSchemaBuilder.build")
    if len(fb.body) != 1 or ast.unparse(fb.body[0]) != \
            "return build_json_schema(instance_type=instance_type, context=self.context, with_definitions=False)":
        raise Unsupported("JSONSchemaBuilder.build: " + ast.unparse(fb.body[0])[:120])
    text += "(* JSONSchemaBuilder.build = build_json_schema(instance_type, context=self.context, with_definitions=False) : checked *)\n"
    text += "Definition builder_build_with_definitions : kv := KBool false.\n\n"

    # ---- schema.on_dataclass: reference emission
    fo = find_function(smod, "on_dataclass")
    target_if = None
    for n in ast.walk(fo):
        if isinstance(n, ast.If) and ast.unparse(n.test) == "ctx.all_refs":
            target_if = n
    if target_if is None:
        raise Unsupported("on_dataclass: `if ctx.all_refs:` not found")
    b = target_if.body
    if len(b) != 3 or not isinstance(b[0], ast.Assign) or not isinstance(b[0].targets[0], ast.Subscript) \
            or ast.unparse(b[0].targets[0].value) != "ctx.definitions" or ast.unparse(b[0].value) != "schema":
        raise Unsupported("on_dataclass: registration statement: " + ast.unparse(b[0])[:80])
    if not (isinstance(b[1], ast.Assign) and ast.unparse(b[1].targets[0]) == "ref_prefix"):
        raise Unsupported("on_dataclass: ref_prefix assignment")
    if not (isinstance(b[2], ast.Return) and isinstance(b[2].value, ast.Call) and ast.unparse(b[2].value.func) == "JSONSchema"
            and not b[2].value.args and [k.arg for k in b[2].value.keywords] == ["reference"]):
        raise Unsupported("on_dataclass: return JSONSchema(reference=...)")
    if len(target_if.orelse) != 1 or ast.unparse(target_if.orelse[0]) != "return schema":
        raise Unsupported("on_dataclass: else branch")
    name_abstr = {"instance.origin_type.__name__": "a_name", "type_name(instance.origin_type)": "a_type_name",
                  "instance.origin_type.__qualname__": "a_type_name"}
    k = Kernel(func="ref_of", coq_name="ref_of", params=[], abstr=name_abstr)
    tr = T9(k, smod)
    tr.ctx_defaults = ctx_defaults
    tr.locals.add("ctx")
    body_ref = tr.block([b[1], ast.Return(value=b[2].value.keywords[0].value)], None)
    text += f"Definition ref_of (v_ctx a_name a_type_name: kv) : res kv :=\n  {body_ref}.\n\n"
    tr2 = T9(Kernel(func="reg_key", coq_name="reg_key", params=[], abstr=name_abstr), smod)
    text += f"Definition reg_key (a_name a_type_name: kv) : res kv :=\n  {tr2.mexpr(b[0].targets[0].slice)}.\n"
    return text
